"""C12 — structural clauses added after the third red-team round.

C12.OVERRIDE  "equal attributes / data values": an attribute override that a copy method hands to the copy of the entity or of one of
              its children (`child.copy(values=V)`, `copy_to_parent(child, .., name=V)`, an entry put into the forwarded **kwargs) is
              computed from the source on EVERY path — never a constant: a constant (None ...) replaces what the source holds.
C12.HARVEST   "the copy is written": every wholesale attribute harvest (get_attributes(obj, omit_list=..)) made by a copy method leaves
              out the life-cycle flag `_on_file` — the workspace writes a new entity / group only when it is NOT on file, the source is.
C12.SNAPSHOT  "copying to any parent": a container that may be copied UNDER ITSELF decides which children to reproduce before the copy
              exists — the children loop does not see (and endlessly re-copy) the copy that has just become a child.
C12.DEDUP     "every record is reproduced": where a copy method walks the records of the source and fetches something identified by
              one entry of the record (`rec["Type ID"]`), a "seen already" test that skips records consults that SAME entry — records
              that agree on another entry (the name) but differ in the identifier are not dropped.
"""

from __future__ import annotations

import ast

from ..report import RuleResult
from ._c12_flow import argument, call_name, certain_strings, parents
from ._c12_source import copy_functions, from_source

COPY_CALLS = ("copy", "copy_to_parent", "copy_from_extent", "_super_copy")


def _is_super(e) -> bool:
    return isinstance(e, ast.Call) and isinstance(e.func, ast.Name) and e.func.id == "super"


def _overridable(ctx) -> set:
    """Names that, as a keyword of a copy call, override an attribute of the copy: settable properties of the entity classes that are
    not parameters of any copy method."""
    if "c12.overridable" in ctx.cache:
        return ctx.cache["c12.overridable"]
    p = ctx.p
    props, params = set(), set()
    for K in p.subclasses(p.cls("Entity")):
        for c in K.mro:
            if isinstance(c, str):
                continue
            props |= {n for n, pr in c.props.items() if pr.setter is not None}
    for fn, _roots in copy_functions(ctx):
        a = fn.node.args
        params |= {x.arg for x in a.posonlyargs + a.args + a.kwonlyargs}
    ctx.cache["c12.overridable"] = props - params
    return ctx.cache["c12.overridable"]


def _none_tests(test, want, is_subject):
    """True when `test` evaluating to `want` implies that <subject> is not None (is not None / != None / truthiness; conjunctions split)"""
    while isinstance(test, ast.UnaryOp) and isinstance(test.op, ast.Not):
        test, want = test.operand, not want
    if isinstance(test, ast.BoolOp) and isinstance(test.op, ast.And if want else ast.Or):
        return any(_none_tests(part, want, is_subject) for part in test.values)
    if isinstance(test, ast.Compare) and len(test.ops) == 1 and isinstance(test.comparators[0], ast.Constant) and test.comparators[0].value is None and is_subject(test.left):
        return isinstance(test.ops[0], (ast.IsNot, ast.NotEq)) if want else isinstance(test.ops[0], (ast.Is, ast.Eq))
    if is_subject(test):
        return want  # truthy: not None
    if isinstance(test, ast.Call) and isinstance(test.func, ast.Name) and test.func.id == "isinstance" and len(test.args) == 2 and is_subject(test.args[0]) \
            and not any(isinstance(x, ast.Constant) and x.value is None for x in ast.walk(test.args[1])):
        return want  # an instance of a real class: not None
    return False


def _never_none_here(par, st, top, is_subject) -> bool:
    """statement `st` runs only when <subject> is not None: an enclosing `if <subject> is not None:` (or the else branch of the
    opposite test), or an earlier guard clause `if <subject> is None: continue / return / raise`"""
    cur, child = par.get(st), st
    while cur is not None:
        blk = next((b for b in (getattr(cur, "body", None), getattr(cur, "orelse", None), getattr(cur, "finalbody", None)) if isinstance(b, list) and child in b), None)
        for prev in (blk[: blk.index(child)] if blk else []):
            if isinstance(prev, ast.If) and not prev.orelse and all(isinstance(x, (ast.Continue, ast.Break, ast.Return, ast.Raise)) for x in prev.body) \
                    and _none_tests(prev.test, False, is_subject):
                return True
        if isinstance(cur, ast.If) and blk is not None and _none_tests(cur.test, blk is cur.body, is_subject):
            return True
        if cur is top:
            return False
        cur, child = par.get(cur), cur
    return False


def _override_sites(fl, v, fn, roots, names):
    """[(attribute, value expr, node, what)]: the attribute overrides a copy method hands to the copy — keywords of the copy calls made on
    the source, and the entries of the mappings it forwards (its own **kwargs, dicts handed to kwargs.update(..) / **mapping: dict
    displays and dict(..) calls followed through locals, expanded-helper results and record fields, plus what is stored into them)."""
    kw = fn.node.args.kwarg.arg if fn.node.args.kwarg else None
    sites = []  # (attribute, value expr, node, what)
    label = f"**{kw}" if kw else "**<overrides>"
    seen_dicts: set = set()

    def entries(e, depth=0, fl=fl, v=v, sites=sites, seen_dicts=seen_dicts, label=label):
        """the (attribute, value) pairs a mapping expression carries: the entries of the dict displays it may be (locals and record
        fields followed), plus what is stored into those very dict objects elsewhere (d[k] = v, d.update(..), d.setdefault(k, v))"""
        if depth > 5:
            return
        for o in fl.origins(e):
            if id(o) in seen_dicts:
                continue
            seen_dicts.add(id(o))
            if isinstance(o, ast.Dict):
                for key, val in zip(o.keys, o.values):
                    if key is None:
                        entries(val, depth + 1)
                    elif isinstance(key, ast.Constant) and key.value in names:
                        sites.append((key.value, val, o, f"{label}[{key.value!r}]"))
            elif isinstance(o, ast.Call) and isinstance(o.func, ast.Name) and o.func.id == "dict":
                for k in o.keywords:
                    if k.arg in names:
                        sites.append((k.arg, k.value, o, f"{label}[{k.arg!r}]"))
                    elif k.arg is None:
                        entries(k.value, depth + 1)
                for a in o.args:
                    entries(a, depth + 1)
            elif isinstance(o, ast.IfExp) or isinstance(o, ast.BoolOp):
                continue
            else:
                continue
            stores_into(lambda x, o=o: any(y is o for y in fl.origins(x)), depth + 1)

    def stores_into(is_it, depth=0, fl=fl, v=v, sites=sites, label=label):
        for n in ast.walk(v.node):
            if isinstance(n, ast.Assign):
                for t in n.targets:
                    if isinstance(t, ast.Subscript) and isinstance(t.slice, ast.Constant) and t.slice.value in names and is_it(t.value):
                        sites.append((t.slice.value, n.value, n, f"{label}[{t.slice.value!r}]"))
            elif isinstance(n, ast.Call) and isinstance(n.func, ast.Attribute) and is_it(n.func.value):
                if n.func.attr == "update":
                    for k in n.keywords:
                        if k.arg in names:
                            sites.append((k.arg, k.value, n, f"{label}[{k.arg!r}]"))
                        elif k.arg is None:
                            entries(k.value, depth + 1)
                    for a in n.args:
                        entries(a, depth + 1)
                elif n.func.attr == "setdefault" and len(n.args) == 2 and isinstance(n.args[0], ast.Constant) and n.args[0].value in names:
                    sites.append((n.args[0].value, n.args[1], n, f"{label}[{n.args[0].value!r}]"))

    for n in ast.walk(v.node):
        if not isinstance(n, ast.Call):
            continue
        nm = call_name(n)
        if nm in COPY_CALLS:
            subject = n.func.value if isinstance(n.func, ast.Attribute) and nm != "copy_to_parent" else (n.args[0] if n.args else None)
            if subject is not None and (_is_super(subject) or from_source(fl, subject, roots) is not None):
                for k in n.keywords:
                    if k.arg in names:
                        sites.append((k.arg, k.value, n, f"{nm}(.., {k.arg}=..)"))
                    elif k.arg is None and not (kw is not None and fl.is_param(k.value, kw) and isinstance(k.value, ast.Name) and k.value.id == kw):
                        entries(k.value)  # **<a mapping built here> (the function's own **kwargs is handled below)
    if kw is not None:
        stores_into(lambda x: fl.is_param(x, kw))
    return sites


def rule_override(ctx, _flow) -> RuleResult:
    res = RuleResult(
        "C12.OVERRIDE",
        "C12",
        "an attribute override that a copy method hands to the copy of the entity or of a child (a keyword of <source>.copy(..) / "
        "copy_to_parent(<source>, ..) / super().copy(..) naming a settable attribute, or such an entry put into the **kwargs it forwards) "
        "is computed from the source on every path that reaches the call — no path hands a constant (None, a literal) in its place",
        floor=5,
    )
    names = _overridable(ctx)
    for fn, roots in copy_functions(ctx):
        v, fl = _flow(ctx, fn)
        kw = fn.node.args.kwarg.arg if fn.node.args.kwarg else None
        sites = _override_sites(fl, v, fn, roots, names)
        par = parents(v.node)
        for attr, val, node, what in sites:
            consts = [o for o in fl.origins_at(val, skip_none=False) if isinstance(o, ast.Constant)]
            if consts and all(c.value is None for c in consts):
                # a None that cannot get here: the hand-over is guarded by `<value> is not None`
                st = node
                while st is not None and not isinstance(st, ast.stmt):
                    st = par.get(st)
                same = {("n", o.id) if isinstance(o, ast.Name) else id(o) for o in fl.origins_at(val, skip_none=False)} | ({("n", val.id)} if isinstance(val, ast.Name) else set())

                def is_val(e, same=same, val=val, fl=fl):
                    if isinstance(e, ast.Name) and isinstance(val, ast.Name) and e.id == val.id:
                        return True
                    return ast.dump(e) == ast.dump(val)

                if st is not None and _never_none_here(par, st, v.node, is_val):
                    consts = []
            ok = not consts
            res.inst(f"{fn.qualname}:{node.lineno} override {what}: a constant on some path: {not ok}", nontrivial=True, ok=ok)
            if not ok:
                res.find(fn.cls.name, fn.name, f"the {attr} handed to the copy is the constant {consts[0].value!r} on some path", f"{fn.module.relpath}:{node.lineno}",
                         f"{what}: on at least one path the value is the constant {consts[0].value!r} (line {getattr(consts[0], 'lineno', '?')}) instead of what the "
                         f"source holds — an explicit override replaces the harvested attribute, so the copy's {attr} is not the source's")
    return res


def rule_harvest(ctx, _flow) -> RuleResult:
    res = RuleResult(
        "C12.HARVEST",
        "C12",
        "every wholesale attribute harvest of a copy method (get_attributes(<object>, omit_list=..), whose result becomes the keyword "
        "arguments of a new entity / type / property group) certainly omits the life-cycle flag _on_file: the workspace writes an object "
        "only while it is not on file, and the source is",
        floor=2,
    )
    p = ctx.p
    for fn, _roots in copy_functions(ctx):
        v, fl = _flow(ctx, fn)
        r = p.resolve_name(fn.module, "get_attributes")
        callee = r[1] if r and r[0] == "func" else None
        omit_i = callee.params.index("omit_list") if callee is not None and "omit_list" in callee.params else 1
        for n in ast.walk(v.node):
            if isinstance(n, ast.Call) and call_name(n) == "get_attributes":
                omitted = certain_strings(argument(n, omit_i, "omit_list"), p, fn.module, fn.cls, fl)
                ok = "_on_file" in omitted
                res.inst(f"{fn.qualname}:{n.lineno} harvest omits _on_file: {ok}", nontrivial=True, ok=ok)
                if not ok:
                    res.find(fn.cls.name, fn.name, "attribute harvest does not leave out _on_file", f"{fn.module.relpath}:{n.lineno}",
                             "the object created from this harvest is constructed with on_file=True (the source's flag): the workspace registers / saves "
                             "only objects that are not on file yet, so the copy is never written and is gone after re-opening")
    return res


def rule_dedup(ctx, _flow) -> RuleResult:
    res = RuleResult(
        "C12.DEDUP",
        "C12",
        "where a copy method walks records of the source and fetches / re-creates something identified by one entry of the record "
        "(rec[K]), every 'seen before' membership test that decides whether the record is skipped consults the same entry K — "
        "records that share another entry (a name) but differ in the identifier are all reproduced",
        floor=0,
    )
    for fn, roots in copy_functions(ctx):
        v, fl = _flow(ctx, fn)
        par = parents(v.node)

        def entry_keys(e, var, fl=fl):
            """constant keys K such that e is computed from <var>[K] (through calls / conversions)"""
            out = set()
            for o in fl.origins_at(e):
                for x in ast.walk(o):
                    if isinstance(x, ast.Subscript) and isinstance(x.slice, ast.Constant) and isinstance(x.value, ast.Name) and x.value.id == var:
                        out.add(x.slice.value)
                    elif isinstance(x, ast.Call) and isinstance(x.func, ast.Attribute) and x.func.attr == "get" and x.args and isinstance(x.args[0], ast.Constant) \
                            and isinstance(x.func.value, ast.Name) and x.func.value.id == var:
                        out.add(x.args[0].value)
                    elif isinstance(x, ast.Name) and x is not o and x.id in fl.defs and x.id != var:
                        out |= entry_keys(x, var)
            return out

        for lp in [n for n in ast.walk(v.node) if isinstance(n, (ast.For, ast.AsyncFor)) and isinstance(n.target, ast.Name)]:
            if from_source(fl, lp.iter, roots, as_iter=True) is None:
                continue
            var = lp.target.id
            # what the loop fetches: calls (not the tests themselves) that receive a value computed from one entry of the record
            ident = set()
            for c in ast.walk(lp):
                if isinstance(c, ast.Call) and call_name(c) not in ("add", "append", "isinstance", "len", "get"):
                    for a in list(c.args) + [k.value for k in c.keywords]:
                        if not (isinstance(a, ast.Name) and a.id == var):
                            ks = entry_keys(a, var)
                            if len(ks) == 1:
                                ident |= ks
            if len(ident) != 1:
                continue
            (idkey,) = ident
            res.inst(f"{fn.qualname}:{lp.lineno} walks records of the source, fetching by {idkey!r}", ok=True)
            # membership tests against a local collection, deciding a skip (continue) or guarding the fetch
            for t in ast.walk(lp):
                if not (isinstance(t, ast.Compare) and len(t.ops) == 1 and isinstance(t.ops[0], (ast.In, ast.NotIn))):
                    continue
                coll = t.comparators[0]
                if not (isinstance(coll, ast.Name) and coll.id in fl.defs and coll.id != var):
                    continue  # `"Type ID" in rec`, membership in a constant ...: not a 'seen before' test
                up = par.get(t)
                while isinstance(up, (ast.BoolOp, ast.UnaryOp)):
                    up = par.get(up)
                if not isinstance(up, (ast.If, ast.IfExp, ast.comprehension)):
                    continue
                keys = entry_keys(t.left, var)
                if not keys:
                    continue
                ok = keys == {idkey}
                res.inst(f"{fn.qualname}:{t.lineno} records skipped when seen before by {sorted(map(str, keys))}; fetched by {idkey!r}: consistent {ok}", nontrivial=True, ok=ok)
                if not ok:
                    res.find(fn.cls.name, fn.name, f"records are skipped by {', '.join(sorted(map(repr, keys)))} but what is copied is identified by {idkey!r}",
                             f"{fn.module.relpath}:{t.lineno}",
                             f"two records of the source with the same {', '.join(sorted(map(repr, keys)))} and different {idkey!r} are distinct things to copy; the second "
                             "one is skipped, so what it identifies (its data type) never reaches the target workspace")
    return res


def _accepts_own_kind(K) -> bool:
    """K.add_children lets an instance of K in: its rejecting guards (`if not isinstance(child, (A, B)): continue / raise`) name a
    class that K is (or there is no such guard)."""
    m = K.lookup("add_children")
    if m is None or m[1] != "method":
        return True
    own = {c if isinstance(c, str) else c.name for c in K.mro}
    required = []
    for n in ast.walk(m[2].node):
        if isinstance(n, ast.If) and n.body and isinstance(n.body[-1], (ast.Continue, ast.Raise, ast.Return)) \
                and isinstance(n.test, ast.UnaryOp) and isinstance(n.test.op, ast.Not):
            names = {x.id if isinstance(x, ast.Name) else x.attr for c in ast.walk(n.test) if isinstance(c, ast.Call) and isinstance(c.func, ast.Name)
                     and c.func.id == "isinstance" and len(c.args) == 2 for x in ast.walk(c.args[1]) if isinstance(x, (ast.Name, ast.Attribute))}
            if names:
                required.append(names)
    return all(names & own for names in required)


def rule_snapshot(ctx, _flow) -> RuleResult:
    res = RuleResult(
        "C12.SNAPSHOT",
        "C12",
        "in the copy methods of a container that can hold a copy of itself (a Group whose add_children is the generic one), the "
        ".children that are iterated to copy the subtree are read BEFORE the copy is created (or the loop skips the new entity): with "
        "parent=<the group itself> the copy becomes a child of the source, and a loop over the live list would copy the copy, for ever",
        floor=1,
    )
    p = ctx.p
    group = p.cls("Group")
    for fn, roots in copy_functions(ctx):
        if fn.cls is None or not fn.cls.is_subclass_of(group):
            continue
        if not _accepts_own_kind(fn.cls):
            continue  # add_children turns away everything that is not of certain other classes: it cannot contain its own copy
        v, fl = _flow(ctx, fn)
        me = fn.self_name
        made = [c for c in ast.walk(v.node) if isinstance(c, ast.Call) and call_name(c) in COPY_CALLS and (
            (call_name(c) == "copy_to_parent" and c.args and isinstance(c.args[0], ast.Name) and c.args[0].id == me)
            or (call_name(c) != "copy_to_parent" and isinstance(c.func, ast.Attribute) and (_is_super(c.func.value) or (isinstance(c.func.value, ast.Name) and c.func.value.id == me))))]
        family = {f for f, _r in copy_functions(ctx)}
        if not made:
            # a hook (template-method step) that is handed the copy: it runs after the copy exists, so any live read of .children it
            # loops over (not the list its caller handed in) is late
            if fn.name == "copy" or fn.name.startswith("copy_"):
                continue
            for lp in [n for n in ast.walk(v.node) if isinstance(n, (ast.For, ast.AsyncFor)) and isinstance(n.target, ast.Name)]:
                reads = [x for o in [lp.iter] + [d for n in ast.walk(lp.iter) if isinstance(n, ast.Name) for d in fl.defs.get(n.id, [])]
                         for x in ast.walk(o) if isinstance(x, ast.Attribute) and x.attr == "children"]
                copies = [c for st in lp.body for c in ast.walk(st) if isinstance(c, ast.Call) and call_name(c) in COPY_CALLS]
                if not copies or from_source(fl, lp.iter, roots, as_iter=True) is None:
                    continue
                ok = not reads
                res.inst(f"{fn.qualname}:{lp.iter.lineno} (step run after the copy exists) copies the children it was handed, not the live .children: {ok}", nontrivial=True, ok=ok)
                if not ok:
                    res.find(fn.cls.name, fn.name, "the children to copy are read after the copy was created under the parent", f"{fn.module.relpath}:{lp.iter.lineno}",
                             "this step runs when the copy already exists; with parent=<the group itself> the new entity is among .children: it is copied under itself, and so on")
            continue
        # the children handed to a step of the copy (an overridable hook): the list must have been read before the copy was created
        for c in ast.walk(v.node):
            if not (isinstance(c, ast.Call) and isinstance(c.func, ast.Attribute) and isinstance(c.func.value, ast.Name) and c.func.value.id == me):
                continue
            m = fn.cls.lookup(c.func.attr)
            if not m or m[1] != "method" or m[2] not in family or c.func.attr in COPY_CALLS:
                continue
            handed = [a for a in list(c.args) + [k.value for k in c.keywords] if fl.mentions_attr(a, "children") and from_source(fl, a, roots, as_iter=True) is not None]
            if not handed:
                continue
            reads = [x for a in handed for o in [a] + [d for n in ast.walk(a) if isinstance(n, ast.Name) for d in fl.defs.get(n.id, [])]
                     for x in ast.walk(o) if isinstance(x, ast.Attribute) and x.attr == "children"]
            late = [r for r in reads for mk in made if fl.may_run_after(r, mk)] or [r for r in reads if any(x is r for a in handed for x in ast.walk(a)) and
                                                                                   any(fl.may_run_after(c, mk) for mk in made)]
            ok = not late
            res.inst(f"{fn.qualname}:{c.lineno} children handed to {c.func.attr}(..) are read before the copy exists: {ok}", nontrivial=True, ok=ok)
            if not ok:
                res.find(fn.cls.name, fn.name, "the children to copy are read after the copy was created under the parent", f"{fn.module.relpath}:{c.lineno}",
                         "copied with parent=<the group itself> the new entity is already among the .children handed on: it is copied under itself, and so on")
        made_names = {t.id for c in made for st in ast.walk(v.node) if isinstance(st, ast.Assign) and st.value is c for t in st.targets if isinstance(t, ast.Name)}
        for lp in [n for n in ast.walk(v.node) if isinstance(n, (ast.For, ast.AsyncFor, ast.comprehension))]:
            var = lp.target.id if isinstance(lp.target, ast.Name) else None
            if var is None or not fl.mentions_attr(lp.iter, "children") or from_source(fl, lp.iter, roots, as_iter=True) is None:
                continue
            body = lp.body if isinstance(lp, (ast.For, ast.AsyncFor)) else []
            copies = [c for st in body for c in ast.walk(st) if isinstance(c, ast.Call) and call_name(c) in COPY_CALLS]
            if not copies:
                continue
            # every read of .children that feeds the loop
            reads = [x for o in [lp.iter] + [d for n in ast.walk(lp.iter) if isinstance(n, ast.Name) for d in fl.defs.get(n.id, [])]
                     for x in ast.walk(o) if isinstance(x, ast.Attribute) and x.attr == "children"]
            late = [r for r in reads for c in made if fl.may_run_after(r, c)]
            skips = any(isinstance(t, ast.Compare) and len(t.ops) == 1 and isinstance(t.ops[0], (ast.Is, ast.Eq, ast.IsNot, ast.NotEq))
                        and {getattr(t.left, "id", None), getattr(t.comparators[0], "id", None)} & made_names
                        and var in (getattr(t.left, "id", None), getattr(t.comparators[0], "id", None)) for st in body for t in ast.walk(st))
            ok = not late or skips
            res.inst(f"{fn.qualname}:{lp.iter.lineno} children to copy are read before the copy exists: {not late}" + ("; the new entity is skipped" if skips else ""), nontrivial=True, ok=ok)
            if not ok:
                res.find(fn.cls.name, fn.name, "the children to copy are read after the copy was created under the parent", f"{fn.module.relpath}:{lp.iter.lineno}",
                         "copied with parent=<the group itself> the new entity is already among .children when the loop starts: it is copied under itself, "
                         "and so on — RecursionError (or, with a recursion guard, a group that contains a copy of its copy)")
    return res


def rule_type_override(ctx, _flow, harvests) -> RuleResult:
    res = RuleResult(
        "C12.TYPEKW",
        "C12",
        "Workspace.copy_to_parent applies the caller's attribute overrides (**kwargs) to the attributes of the entity TYPE only for "
        "keys that are not attributes of the entity itself: name=, description= ... given for the copied entity do not rename the type "
        "that is created for it in another workspace",
        floor=1,
    )
    fn, v, fl, ent_calls, type_calls, _ = harvests
    kw = fn.node.args.kwarg.arg if fn.node.args.kwarg else None
    par = parents(v.node)

    def is_ent(e):
        if isinstance(e, ast.Call) and isinstance(e.func, ast.Attribute) and e.func.attr in ("keys", "items") and not e.args:
            e = e.func.value
        return isinstance(e, (ast.Name, ast.Attribute)) and any(fl.holds_entries_of(e, c) for c in ent_calls)

    def is_type(e):
        return isinstance(e, (ast.Name, ast.Attribute)) and any(fl.holds_entries_of(e, c) for c in type_calls) and not any(fl.holds_entries_of(e, c) for c in ent_calls)

    def from_kwargs(e, depth=0):
        if kw is None or depth > 6:
            return False
        for x in ast.walk(e):
            if isinstance(x, ast.Name) and (x.id == kw or fl.is_param(x, kw)):
                return True
            if isinstance(x, ast.Name) and x.id in fl.loops and any(from_kwargs(it, depth + 1) for it in fl.iterated_over(x.id)):
                return True
            # a local built from the overrides (the parameter of an expanded helper, a filtered copy of **kwargs)
            if isinstance(x, ast.Name) and x.id in fl.defs and any(from_kwargs(d, depth + 1) for d in fl.defs[x.id]):
                return True
        return False

    def excludes_entity_keys(e, depth=0):
        """somewhere in e (locals followed) the keys of the entity's harvest are taken out: `- d.keys()`, `k not in d`"""
        if depth > 6:
            return False
        for x in ast.walk(e):
            if isinstance(x, ast.BinOp) and isinstance(x.op, ast.Sub) and is_ent(x.right):
                return True
            if isinstance(x, ast.Compare) and len(x.ops) == 1 and isinstance(x.ops[0], ast.NotIn) and is_ent(x.comparators[0]):
                return True
            if isinstance(x, ast.Call) and isinstance(x.func, ast.Attribute) and x.func.attr == "difference" and x.args and is_ent(x.args[0]):
                return True
            if isinstance(x, ast.Name) and x.id in fl.defs and any(excludes_entity_keys(d, depth + 1) for d in fl.defs[x.id]):
                return True
            if isinstance(x, ast.Name) and x.id in fl.loops and any(excludes_entity_keys(it, depth + 1) for it in fl.iterated_over(x.id)):
                return True
        return False

    def path_excludes(st):
        cur, child = par.get(st), st
        while cur is not None and cur is not v.node:
            if isinstance(cur, ast.If):
                t = cur.test
                in_body = child in cur.body
                pos = [x for x in ast.walk(t) if isinstance(x, ast.Compare) and len(x.ops) == 1 and is_ent(x.comparators[0])]
                if in_body and any(isinstance(x.ops[0], ast.NotIn) for x in pos) and not any(isinstance(b, ast.BoolOp) and isinstance(b.op, ast.Or) for b in ast.walk(t)):
                    return True
                if not in_body and isinstance(t, ast.Compare) and len(t.ops) == 1 and isinstance(t.ops[0], ast.In) and is_ent(t.comparators[0]):
                    return True
            blk = next((b for b in (getattr(cur, "body", None), getattr(cur, "orelse", None)) if isinstance(b, list) and child in b), None)
            for prev in (blk[: blk.index(child)] if blk else []):
                if isinstance(prev, ast.If) and isinstance(prev.test, ast.Compare) and len(prev.test.ops) == 1 and isinstance(prev.test.ops[0], ast.In) \
                        and is_ent(prev.test.comparators[0]) and prev.body and isinstance(prev.body[-1], ast.Continue):
                    return True
            cur, child = par.get(cur), cur
        return False

    sites = []
    for n in ast.walk(v.node):
        if isinstance(n, ast.Call) and isinstance(n.func, ast.Attribute) and n.func.attr == "update" and is_type(n.func.value) and n.args and from_kwargs(n.args[0]):
            sites.append((n, n.args[0]))
        elif isinstance(n, ast.Assign) and isinstance(n.targets[0], ast.Subscript) and not isinstance(n.targets[0].slice, ast.Constant) \
                and is_type(n.targets[0].value) and from_kwargs(n.value):
            sites.append((n, n.value))
    for node, val in sites:
        st = node
        while st is not None and not isinstance(st, ast.stmt):
            st = par.get(st)
        ok = excludes_entity_keys(val) or (st is not None and (path_excludes(st) or any(
            excludes_entity_keys(lp.iter) for lp in ast.walk(v.node) if isinstance(lp, (ast.For, ast.AsyncFor)) and st in list(ast.walk(lp)))))
        res.inst(f"copy_to_parent:{node.lineno} overrides applied to the type's attributes leave out the entity's own keys: {ok}", nontrivial=True, ok=ok)
        if not ok:
            res.find("Workspace", "copy_to_parent", "overrides meant for the entity are applied to the attributes of its type as well", f"{fn.module.relpath}:{node.lineno}",
                     "a key that both the entity and its type have (name, description ...) is overridden in both: copy(parent=<other workspace>, name='X') "
                     "creates the TYPE of the copy with the name 'X' as well")
    return res


def rule_named_children(ctx, _flow) -> RuleResult:
    res = RuleResult(
        "C12.BYNAME",
        "C12",
        "a copy method leaves out children by their NAME only for names that the class itself gives to its link data (the string occurs in "
        "another method of the class or of its bases): a general-purpose class skipping 'Transmitter ID' drops a user's data of that name",
        floor=0,
    )
    p = ctx.p
    for fn, roots in copy_functions(ctx):
        if fn.cls is None:
            continue
        v, fl = _flow(ctx, fn)
        for lp in [n for n in ast.walk(v.node) if isinstance(n, (ast.For, ast.AsyncFor, ast.comprehension)) and isinstance(n.target, ast.Name)]:
            if not fl.mentions_attr(lp.iter, "children") or from_source(fl, lp.iter, roots, as_iter=True) is None:
                continue
            var = lp.target.id
            filters = lp.ifs if isinstance(lp, ast.comprehension) else lp.body  # a comprehension's conditions decide which children go on
            for t in [x for st in filters for x in ast.walk(st) if isinstance(x, ast.Compare) and len(x.ops) == 1]:
                left, right = t.left, t.comparators[0]
                names_side = next((b for a, b in ((left, right), (right, left))
                                   if any(isinstance(o, ast.Attribute) and o.attr == "name" and any(isinstance(r, ast.Name) and r.id == var for r in fl.origins_at(o.value))
                                          for o in fl.origins_at(a))), None)
                if names_side is None or not isinstance(t.ops[0], (ast.In, ast.NotIn, ast.Eq, ast.NotEq)):
                    continue
                consts = {names_side.value} if isinstance(names_side, ast.Constant) else certain_strings(names_side, p, fn.module, fn.cls, fl)
                consts = {c for c in consts if isinstance(c, str)}
                if not consts:
                    continue
                # does the test decide that the child is left out?  (guards a `continue`, or the copy call sits in the other branch)
                if not isinstance(lp, ast.comprehension) and par_if(v.node, t) is None:
                    # the outcome of the test held in a local (the result of an expanded helper) that decides a branch of the loop
                    held = {tg.id for st in ast.walk(lp) if isinstance(st, ast.Assign) and any(x is t for x in ast.walk(st.value)) for tg in st.targets if isinstance(tg, ast.Name)}
                    decides = any(isinstance(n2, ast.If) and any(isinstance(x, ast.Name) and (x.id in held or any(isinstance(o, ast.Name) and o.id in held for o in fl.origins(x)))
                                                                 for x in ast.walk(n2.test)) for st in lp.body for n2 in ast.walk(st))
                    if not decides:
                        continue
                own = set()
                for c in fn.cls.mro:
                    if isinstance(c, str):
                        continue
                    for m in list(c.methods.values()) + [x for pr in c.props.values() for x in (pr.getter, pr.setter) if x is not None]:
                        if m.name == fn.name or m.name.startswith("copy"):
                            continue
                        own |= _given_names(ctx, m)
                foreign = sorted(consts - own)
                ok = not foreign
                res.inst(f"{fn.qualname}:{t.lineno} children left out by name {sorted(consts)}: names of the class's own link data: {ok}", nontrivial=True, ok=ok)
                if not ok:
                    res.find(fn.cls.name, fn.name, "children named " + ", ".join(repr(x) for x in foreign) + " are not copied", f"{fn.module.relpath}:{t.lineno}",
                             f"{fn.cls.name} does not define data of that name itself (only some subclasses do): for every other {fn.cls.name} a child that happens to be "
                             "called so is silently missing from the copy")
    return res


def _given_names(ctx, m) -> set:
    """string constants a method USES as a name (creates / looks up / labels something with it) — not the ones it merely compares a
    name against: a skip list moved into a helper of the class does not make the names the class's own"""
    key = ("c12.given", id(m.node))
    if key not in ctx.cache:
        par = parents(m.node)
        out = set()
        for x in ast.walk(m.node):
            if isinstance(x, ast.Constant) and isinstance(x.value, str):
                up = par.get(x)
                while isinstance(up, (ast.List, ast.Tuple, ast.Set)):
                    up = par.get(up)
                if not isinstance(up, ast.Compare):
                    out.add(x.value)
        ctx.cache[key] = out
    return ctx.cache[key]


def par_if(root, test):
    """the If statement whose condition contains `test` and that decides a skip: its body is a bare `continue`, or it has both branches"""
    for n in ast.walk(root):
        if isinstance(n, ast.If) and any(x is test for x in ast.walk(n.test)):
            if (n.body and all(isinstance(x, ast.Continue) for x in n.body)) or n.orelse:
                return n
            if n.body and not n.orelse:
                return n
    return None


# ---------------------------------------------------------------------------------------------- the plain copy
def _plain_reachable(fl, fn_node, given=()):
    """CFG nodes that a call with every OPTION at its default None can reach: the tests `<option> is None` / `is not None` (and their
    and / or / not combinations) are decided while the option still holds its default; an assignment ends that knowledge."""
    from ..kinds import tv

    fl._reaching()
    g = fl._cfg
    a = fn_node.args
    pos = a.posonlyargs + a.args
    defaults = dict(zip([x.arg for x in pos][len(pos) - len(a.defaults):], a.defaults))
    defaults.update({k.arg: d for k, d in zip(a.kwonlyargs, a.kw_defaults) if d is not None})
    start = frozenset(n for n, d in defaults.items() if isinstance(d, ast.Constant) and d.value is None and n not in given)

    def is_none(e, state):
        return (isinstance(e, ast.Constant) and e.value is None) or (isinstance(e, ast.Name) and e.id in state)

    def learned(node, state):
        """names (and tuple positions: (name, i)) that this statement binds to None"""
        st = node.ast
        out = set()
        if node.kind == "stmt" and isinstance(st, ast.Assign) and len(st.targets) == 1:
            t, val = st.targets[0], st.value
            if isinstance(t, ast.Name):
                if is_none(val, state):
                    out.add(t.id)
                elif isinstance(val, ast.Tuple):
                    out |= {(t.id, i) for i, e in enumerate(val.elts) if is_none(e, state)}
                elif isinstance(val, ast.Name):
                    out |= {(t.id, k[1]) for k in state if isinstance(k, tuple) and k[0] == val.id}
            elif isinstance(t, ast.Tuple) and isinstance(val, ast.Name):
                out |= {e.id for i, e in enumerate(t.elts) if isinstance(e, ast.Name) and (val.id, i) in state}
            elif isinstance(t, ast.Tuple) and isinstance(val, ast.Tuple) and len(t.elts) == len(val.elts):
                out |= {e.id for e, x in zip(t.elts, val.elts) if isinstance(e, ast.Name) and is_none(x, state)}
        return out

    def killed(node):
        st = node.ast
        names = set()
        if node.kind == "stmt" and isinstance(st, (ast.Assign, ast.AnnAssign, ast.AugAssign)):
            for t in (st.targets if isinstance(st, ast.Assign) else [st.target]):
                names |= {x.id for x in ast.walk(t) if isinstance(x, ast.Name) and isinstance(x.ctx, ast.Store)}
        elif node.kind == "fornext" and st is not None:
            names |= {x.id for x in ast.walk(st) if isinstance(x, ast.Name)}
        elif node.kind == "with" and st is not None:
            names |= {x.id for it in st.items if it.optional_vars is not None for x in ast.walk(it.optional_vars) if isinstance(x, ast.Name)}
        if st is not None and not isinstance(st, list) and node.kind in ("stmt", "test", "return", "foriter"):
            names |= {x.target.id for x in ast.walk(st) if isinstance(x, ast.NamedExpr) and isinstance(x.target, ast.Name)}
        return names

    seen, todo = set(), [(g.entry, start)]
    while todo:
        node, state = todo.pop()
        if (node, state) in seen:
            continue
        seen.add((node, state))
        succ = node.succ
        if node.kind == "test" and any(isinstance(k, str) for k in state):
            verdict = tv(node.ast, "", {"notnone:" + n: False for n in state if isinstance(n, str)})
            if verdict is True:
                succ = [(m, lab) for m, lab in succ if lab != "false"]
            elif verdict is False:
                succ = [(m, lab) for m, lab in succ if lab != "true"]
        dead = killed(node)
        nxt = frozenset(k for k in state if (k if isinstance(k, str) else k[0]) not in dead) | frozenset(learned(node, state))
        for m, _lab in succ:
            todo.append((m, nxt))
    return {n for n, _s in seen}, fl._rd[1]


def rule_plain(ctx, _flow) -> RuleResult:
    res = RuleResult(
        "C12.PLAIN",
        "C12",
        "what a copy method hands from the source to the new entity by assignment (<new entity>.<attribute> = <value taken from the source>: "
        "link data, partner ...) is handed on the PLAIN copy as well: the statement can be reached when every option of the method "
        "(parameter with default None: mask, cell_mask ...) is left at its default — an option only restricts what is copied",
        floor=1,
    )
    names = _overridable(ctx)
    for fn, roots in copy_functions(ctx):
        if fn.cls is None:
            continue
        v, fl = _flow(ctx, fn)
        made = [c for c in ast.walk(v.node) if isinstance(c, ast.Call) and call_name(c) in COPY_CALLS]
        if not made:
            continue
        sites = []
        for st in ast.walk(v.node):
            if isinstance(st, ast.Assign) and len(st.targets) == 1 and isinstance(st.targets[0], ast.Attribute) and st.targets[0].attr in names:
                owner = st.targets[0].value
                if any(any(o is c for c in made) for o in fl.origins(owner)) and from_source(fl, owner, roots) is None and from_source(fl, st.value, roots) is not None:
                    sites.append(st)
        if not sites:
            continue
        reach, where = _plain_reachable(fl, v.node)
        for st in sites:
            node = where.get(id(st)) or where.get(id(st.value))
            ok = node is None or node in reach
            res.inst(f"{fn.qualname}:{st.lineno} <new entity>.{st.targets[0].attr} handed over on the plain copy too: {ok}", nontrivial=True, ok=ok)
            if not ok:
                res.find(fn.cls.name, fn.name, f"the {st.targets[0].attr} of the source reaches the copy only when an option is given", f"{fn.module.relpath}:{st.lineno}",
                         f"with every option at its default (None) the statement that hands the source's {st.targets[0].attr} to the new entity cannot be reached: a plain "
                         f"copy() comes out without it, although a masked one has it")
    return res


def rule_option(ctx, _flow) -> RuleResult:
    res = RuleResult(
        "C12.OPTION",
        "C12",
        "an option of a copy method (parameter with default None) that cuts the data of the CHILDREN (it flows into a keyword of a child's "
        "copy call) and from which the method computes a geometry override for the copy (an entry of the forwarded **kwargs) does both "
        "when it is the ONLY option given: with the other options at their default the override is still handed over — the children's "
        "data and the geometry of the copy are cut alike",
        floor=1,
    )
    from .c12 import _is_child

    names = _overridable(ctx)
    for fn, roots in copy_functions(ctx):
        if fn.cls is None or fn.node.args.kwarg is None:
            continue
        v, fl = _flow(ctx, fn)
        kw = fn.node.args.kwarg.arg
        a = fn.node.args
        pos = a.posonlyargs + a.args
        defaults = dict(zip([x.arg for x in pos][len(pos) - len(a.defaults):], a.defaults))
        options = [n for n, d in defaults.items() if isinstance(d, ast.Constant) and d.value is None]
        if not options:
            continue

        def depends(e, prm, depth=0, seen=None, fl=fl):
            seen = set() if seen is None else seen
            for x in ast.walk(e):
                if isinstance(x, ast.Name):
                    if x.id == prm:
                        return True
                    if x.id not in seen and depth < 8:
                        seen.add(x.id)
                        if any(depends(d, prm, depth + 1, seen) for d in fl.defs.get(x.id, [])):
                            return True
            return False

        child_calls = [c for c in ast.walk(v.node) if isinstance(c, ast.Call) and isinstance(c.func, ast.Attribute) and call_name(c) in COPY_CALLS and _is_child(fl, c.func.value)]
        over = [(attr, val, n) for attr, val, n, what in _override_sites(fl, v, fn, roots, names) if what.startswith("**")]
        for prm in options:
            cuts_children = [c for c in child_calls if any(depends(k.value, prm) for k in c.keywords)]
            cuts_geometry = [(attr, val, n) for attr, val, n in over if depends(val, prm)]
            if not cuts_children or not cuts_geometry:
                continue
            reach, where = _plain_reachable(fl, v.node, given=(prm,))
            live = lambda n: (where.get(id(n)) is None) or where.get(id(n)) in reach  # noqa: E731
            if not any(live(c) for c in cuts_children):
                continue
            ok = any(live(n) for _a, _v, n in cuts_geometry)
            attrs = sorted({a_ for a_, _v, _n in cuts_geometry})
            res.inst(f"{fn.qualname}: option {prm} given alone cuts the children's data and the {attrs} handed to the copy: {ok}", nontrivial=True, ok=ok)
            if not ok:
                res.find(fn.cls.name, fn.name, f"option {prm} given alone cuts the data of the children but not the {', '.join(attrs)} of the copy", fn.where,
                         f"with only {prm} given (the other options None) the children are copied with the mask derived from it, while no statement that hands the "
                         f"sub-sampled {', '.join(attrs)} to the copy can be reached: the copy keeps the full geometry with cut data")
    return res
