"""C12 — two structural clauses added after the second red-team round.

C12.SOURCE  "the source is unchanged": a copy method never writes INTO an object it obtained from the source (an attribute of the
            copied entity, of one of its children, of its partner ...) unless a copy was made in between.  Decided on the
            provenance of the written object: every binding that reaches the store is followed back; only a positive trace to the
            source reports (values of unknown origin — results of other calls, freshly built arrays — never do).
C12.PGROUP  "equal property groups": Workspace.copy_property_groups hands every persisted attribute of a property group (the values of
            PropertyGroup._attribute_map — the table the writer and the reader use) from the source group to the group it creates.
            Agreement of a table with the reads made on the source group; a read used only to decide a condition does not count.
"""

from __future__ import annotations

import ast

from ..model import AnalysisError, unparse
from ..report import RuleResult
from ..roles import const_values
from ._c12_flow import Flow, call_name, instance_facts, parents, test_facts

# methods / functions whose result may be the very object they are applied to (a view, or the operand itself)
ALIASING_METHODS = {"astype", "reshape", "ravel", "view", "squeeze", "transpose", "swapaxes", "get", "setdefault", "__getitem__", "items", "values", "keys"}
ALIASING_ATTRS = {"T", "flat", "real", "imag", "base"}
ALIASING_FUNCS = {"asarray", "asanyarray", "ascontiguousarray", "ravel", "atleast_1d", "atleast_2d", "atleast_3d", "squeeze", "reshape", "transpose",
                  "getattr", "iter", "reversed", "enumerate", "zip", "list", "tuple", "sorted"}
ELEMENTWISE = {"iter", "reversed", "enumerate", "zip", "list", "tuple", "sorted"}  # new container, same elements: only as the source of a loop
IN_PLACE_METHODS = {"update", "append", "extend", "insert", "remove", "pop", "popitem", "clear", "setdefault", "sort", "reverse", "fill", "put", "itemset", "resize", "partition"}
IN_PLACE_FUNCS = {"put", "place", "putmask", "copyto", "put_along_axis", "fill_diagonal"}  # numpy: first argument is written


def _copies(call) -> bool:
    """astype(...) without copy=False builds a new array"""
    return call_name(call) == "astype" and not any(k.arg == "copy" and isinstance(k.value, ast.Constant) and k.value.value is False for k in call.keywords)


def from_source(fl: Flow, e, roots, as_iter=False, _depth=0, _seen=None):
    """The chain of expressions (outermost first) by which `e` may be an object reachable from one of the `roots` (parameter names
    standing for the source) with no copy in between, else None."""
    seen = _seen if _seen is not None else set()
    if e is None or _depth > 12:
        return None
    for o in fl.origins_at(e):
        if id(o) in seen:
            continue
        seen.add(id(o))
        hit = None
        if isinstance(o, ast.Name):
            if o.id in roots:
                return [o]
            if o.id in fl.loops:
                for it in fl.iterated_over(o.id):
                    hit = from_source(fl, it, roots, True, _depth + 1, seen)
                    if hit:
                        break
        elif isinstance(o, ast.Attribute):
            hit = from_source(fl, o.value, roots, False, _depth + 1, seen)
        elif isinstance(o, ast.Subscript):
            hit = from_source(fl, o.value, roots, False, _depth + 1, seen)
        elif isinstance(o, ast.Starred):
            hit = from_source(fl, o.value, roots, as_iter, _depth + 1, seen)
        elif isinstance(o, (ast.ListComp, ast.SetComp, ast.GeneratorExp)) and as_iter:
            # a new container / stream of elements taken from the source: (child for child in self.children if ..)
            hit = from_source(fl, o.elt, roots, False, _depth + 1, seen)
        elif isinstance(o, ast.Call):
            nm = call_name(o)
            if isinstance(o.func, ast.Attribute) and nm in ALIASING_METHODS and not _copies(o):
                hit = from_source(fl, o.func.value, roots, False, _depth + 1, seen)
            if hit is None and nm in ALIASING_FUNCS and o.args and (as_iter or nm not in ELEMENTWISE) \
                    and (isinstance(o.func, ast.Name) or (isinstance(o.func, ast.Attribute) and isinstance(o.func.value, ast.Name) and o.func.value.id in ("np", "numpy"))):
                hit = from_source(fl, o.args[0], roots, as_iter, _depth + 1, seen)
        if hit:
            return [o] + hit
    return None


def _written_objects(node):
    """(expression whose value is written into, the writing node, description)"""
    for n in ast.walk(node):
        if isinstance(n, (ast.Assign, ast.AugAssign, ast.AnnAssign, ast.Delete)):
            tgs = n.targets if isinstance(n, (ast.Assign, ast.Delete)) else [n.target]
            for t in tgs:
                for x in ([t] if not isinstance(t, (ast.Tuple, ast.List)) else list(ast.walk(t))):
                    if isinstance(x, ast.Subscript) and isinstance(x.ctx, (ast.Store, ast.Del)):
                        yield x.value, n, "an entry of it is " + ("deleted" if isinstance(n, ast.Delete) else "assigned")
        elif isinstance(n, ast.Call):
            nm = call_name(n)
            if isinstance(n.func, ast.Attribute) and nm in IN_PLACE_METHODS and not (isinstance(n.func.value, ast.Name) and n.func.value.id in ("np", "numpy")):
                yield n.func.value, n, f".{nm}(...) edits it in place"
            elif nm in IN_PLACE_FUNCS and n.args and isinstance(n.func, ast.Attribute) and isinstance(n.func.value, ast.Name) and n.func.value.id in ("np", "numpy"):
                yield n.args[0], n, f"np.{nm}(...) writes into it"


FAMILY_CALLS = ("copy", "copy_to_parent", "copy_from_extent", "_super_copy")


def copy_functions(ctx):
    """[(FuncInfo, names of the parameters that stand for the source)] — every method of the entity family (and of the workspace) that
    takes part in copying: named copy / copy_* / *_copy, plus the HOOKS they delegate a step to: a method called on self that the
    normaliser could not expand (it is overridable: template method) and that is handed the copy in the making — with every override
    of it.  A hook's parameter stands for the source when the argument it receives does (the list of the source's children ...)."""
    if "c12.family" in ctx.cache:
        return ctx.cache["c12.family"]
    p = ctx.p
    out, seen = [], {}
    for K in p.subclasses(p.cls("Entity")):
        for c in K.mro:
            if isinstance(c, str):
                continue
            for fn in c.methods.values():
                if fn in seen or fn.self_name is None or fn.kind != "method":
                    continue
                if fn.name == "copy" or fn.name.startswith("copy_") or fn.name.endswith("_copy"):
                    seen[fn] = {fn.self_name}
                    out.append((fn, seen[fn]))
    named = len(out)
    ws = p.cls("Workspace")
    for name, idx in (("copy_to_parent", 1), ("copy_property_groups", 2)):
        fn = ws.methods.get(name)
        if fn is None or len(fn.params) <= idx:
            raise AnalysisError(f"Workspace.{name}: not found (or its source parameter moved)")
        out.append((fn, {fn.params[idx]}))
    ctx.cache["c12.family"] = out  # (visible to re-entrant calls while the hooks are collected)
    from .c12 import _flow

    work = list(out[:named])
    while work:
        fn, roots = work.pop()
        v, fl = _flow(ctx, fn)
        made = {id(c) for c in ast.walk(v.node) if isinstance(c, ast.Call) and call_name(c) in FAMILY_CALLS}
        for c in ast.walk(v.node):
            if not (isinstance(c, ast.Call) and isinstance(c.func, ast.Attribute) and isinstance(c.func.value, ast.Name) and c.func.value.id == fn.self_name):
                continue
            nm = c.func.attr
            if nm.startswith("__") or nm in FAMILY_CALLS or any(isinstance(a, ast.Starred) for a in c.args):
                continue
            args = list(c.args) + [k.value for k in c.keywords]
            if not any(id(o) in made for a in args for o in fl.origins(a)):
                continue  # not handed the new entity: not a step of the copy
            m = fn.cls.lookup(nm)
            if not m or m[1] != "method":
                continue
            targets = [m[2]] + [sub.methods[nm] for sub in p.subclasses(fn.cls, strict=True) if nm in sub.methods]
            for t in targets:
                if t.self_name is None:
                    continue
                prm = t.params[1:]
                bound = dict(zip(prm, c.args))
                bound.update({k.arg: k.value for k in c.keywords if k.arg in prm})
                troots = {t.self_name} | {name for name, a in bound.items() if from_source(fl, a, roots, as_iter=True) is not None}
                if t not in seen:
                    seen[t] = set(troots)
                    out.append((t, seen[t]))
                    work.append((t, seen[t]))
                elif troots - seen[t]:
                    seen[t] |= troots
                    work.append((t, seen[t]))
    return out


def rule_source(ctx, _flow) -> RuleResult:
    res = RuleResult(
        "C12.SOURCE",
        "C12",
        "no copy method (copy / copy_* of the entity classes, Workspace.copy_to_parent / copy_property_groups, with their helpers expanded) "
        "assigns an entry of, or edits in place, an object that it obtained from the source (attributes of the copied entity, of its "
        "children, of its partner — also through locals, views and no-copy conversions such as astype(copy=False)) — the source, its "
        "children and their cached arrays stay as they were",
        floor=10,
    )
    for fn, roots in copy_functions(ctx):
        v, fl = _flow(ctx, fn)
        n_writes = 0
        for obj, at, how in _written_objects(v.node):
            n_writes += 1
            chain = from_source(fl, obj, roots)
            ok = chain is None
            if not ok:
                origin = next((x for x in chain if isinstance(x, (ast.Attribute, ast.Subscript))), chain[-1])
                member = origin.attr if isinstance(origin, ast.Attribute) else "entry"
                via = next((call_name(x) for x in chain if isinstance(x, ast.Call)), None)
                res.inst(f"{fn.qualname}:{at.lineno} writes into an object of the source (.{member})", nontrivial=True, ok=False)
                res.find(fn.cls.name, fn.name, f"writes into the source's own .{member}" + (f" (reached through {via}, which does not copy)" if via else ""),
                         f"{fn.module.relpath}:{at.lineno}",
                         f"{how}, and the object is the one held by the source (its .{member}, read at line {getattr(origin, 'lineno', '?')}) — no copy is made "
                         "in between: after the copy the source entity / its child shows the edit (in memory, and in the file on its next save)")
            else:
                res.inst(f"{fn.qualname}:{at.lineno} writes into {unparse(obj)[:30]}: not an object of the source", nontrivial=True, ok=True)
        if n_writes == 0:
            res.inst(f"{fn.qualname}: no in-place write at all", ok=True)
    return res


# ---------------------------------------------------------------------------------------------- property groups
def _persisted_group_attributes(p):
    pg = p.cls("PropertyGroup")
    for c in pg.mro:
        if isinstance(c, str):
            continue
        a = c.class_assigns.get("_attribute_map")
        if a is not None and isinstance(a[0], ast.Dict):
            vals = [v.value for v in a[0].values if isinstance(v, ast.Constant) and isinstance(v.value, str)]
            if len(vals) == len(a[0].values) and vals:
                return vals
    raise AnalysisError("PropertyGroup._attribute_map: literal table of persisted attributes not found")


def rule_pgroup(ctx, _flow) -> RuleResult:
    res = RuleResult(
        "C12.PGROUP",
        "C12",
        "Workspace.copy_property_groups carries every persisted attribute of a property group (the values of PropertyGroup._attribute_map: "
        "association, name, uid, properties, property_group_type) from each source group over to the group it creates: each is read from "
        "the source group and used as a value (not only to decide a condition), or the group is handed on whole",
        floor=3,
    )
    p = ctx.p
    attrs = _persisted_group_attributes(p)
    cpg = p.func("Workspace.copy_property_groups")
    if len(cpg.params) < 3:
        raise AnalysisError("Workspace.copy_property_groups: parameters (entity, property_groups, data_map) not found")
    groups = cpg.params[-2]
    v, fl = _flow(ctx, cpg)
    par = parents(v.node)

    def is_source_group(e):
        return from_source(fl, e, {groups}) is not None and not (isinstance(e, ast.Name) and e.id == groups)

    def used_as_value(n):
        cur, child = par.get(n), n
        while cur is not None and not isinstance(cur, ast.stmt):
            if getattr(cur, "test", None) is child or (isinstance(cur, ast.comprehension) and child in cur.ifs) or isinstance(cur, ast.Compare):
                return False
            cur, child = par.get(cur), cur
        if isinstance(cur, (ast.If, ast.While, ast.Assert)) and cur.test is child:
            return False
        return True

    reads: dict = {}
    whole = []  # the source group handed on as a whole: to an un-expanded function, vars(), get_attributes(...)
    for n in ast.walk(v.node):
        if isinstance(n, ast.Attribute) and isinstance(n.ctx, ast.Load) and is_source_group(n.value):
            reads.setdefault(n.attr.lstrip("_"), []).append(n)
        elif isinstance(n, ast.Call):
            if call_name(n) == "getattr" and len(n.args) >= 2 and is_source_group(n.args[0]):
                # the attribute name may come from a literal table (`for key in ("name", ...)`): every name it can take is read
                names = const_values(n.args[1], v.node)
                if names is None or not all(isinstance(x, str) for x in names):
                    whole.append(n)  # a name computed at run time: cannot be told apart from a wholesale harvest
                else:
                    for nm in names:
                        reads.setdefault(nm.lstrip("_"), []).append(n)
            elif any(isinstance(a, ast.Name) and is_source_group(a) for a in list(n.args) + [k.value for k in n.keywords]) and call_name(n) not in ("isinstance", "getattr", "hasattr", "id", "type", "len"):
                whole.append(n)
    if not reads and not whole:
        raise AnalysisError("Workspace.copy_property_groups: no read of the source property groups found")
    for a in attrs:
        valued = [n for n in reads.get(a, []) if used_as_value(n)]
        ok = bool(valued) or bool(whole)
        res.inst(f"copy_property_groups: source group's {a} carried over: {ok}" + (" (group handed on whole)" if whole and not valued else ""), nontrivial=True, ok=ok)
        if not ok:
            res.find("Workspace", "copy_property_groups", f"the {a} of the source property group is not carried over", cpg.where,
                     f"PropertyGroup persists {', '.join(attrs)}; the copy is created without reading the source group's {a}, so it gets the constructor's "
                     f"default: the property groups of the copy are not equal to those of the source")
    return res


# ---------------------------------------------------------------------------------------------- nested metadata entries
META = ("metadata", "_metadata")
IMMUTABLE = {"str", "int", "float", "bool", "bytes", "complex", "UUID", "None", "NoneType", "type", "Number", "Real", "Integral", "Enum",
             "integer", "floating", "number", "bool_", "str_", "bytes_", "generic", "datetime", "date"}


def _entry_steps(chain) -> bool:
    """the provenance chain goes through the source's .metadata: the dict itself, or an entry taken out of it (subscript / get / items /
    values / loop variable) — either way the receiver gets objects that the source keeps holding"""
    return any(isinstance(x, ast.Attribute) and x.attr in META for x in chain)


def _truth_tested(test, is_subject) -> bool:
    """the condition uses <subject> as a truth value: the test itself, an operand of and / or / not"""
    if is_subject(test):
        return True
    if isinstance(test, ast.BoolOp):
        return any(_truth_tested(x, is_subject) for x in test.values)
    if isinstance(test, ast.UnaryOp) and isinstance(test.op, ast.Not):
        return _truth_tested(test.operand, is_subject)
    if isinstance(test, ast.Call) and isinstance(test.func, ast.Name) and test.func.id == "bool" and len(test.args) == 1:
        return _truth_tested(test.args[0], is_subject)
    return False


def rule_nested(ctx, _flow) -> RuleResult:
    res = RuleResult(
        "C12.NESTED",
        "C12",
        "in the copy methods, a value taken out of the SOURCE's metadata (an entry, a value of .items() / .values() / .get(..)) reaches the "
        "metadata of ANOTHER entity (a <x>.*metadata*(..) call, <x>.metadata = .., an entry store below <x>.metadata) only through a "
        "copying call (deepcopy ...) or under an isinstance guard admitting immutable scalars only — nested dicts / lists of the "
        "metadata are not shared between copy and source (entry by entry or through a dict comprehension); and whether an entry is "
        "transferred is decided by what it is (isinstance / is None), never by its truth value (0, False, '' are entries too)",
        floor=1,
    )
    for fn, roots in copy_functions(ctx):
        v, fl = _flow(ctx, fn)
        par = parents(v.node)

        def owner_of_metadata(e, fl=fl):
            """the expression <x> when e is <x>.metadata or something below it"""
            for o in fl.origins_at(e):
                while True:
                    if isinstance(o, ast.Subscript):
                        o = o.value
                    elif isinstance(o, ast.Call) and isinstance(o.func, ast.Attribute) and o.func.attr in ("get", "setdefault", "__getitem__"):
                        o = o.func.value
                    else:
                        break
                if isinstance(o, ast.Attribute) and o.attr in META:
                    return o.value
            return None

        sinks = []  # (owner expr, [value exprs], node, text)
        for n in ast.walk(v.node):
            if isinstance(n, ast.Call) and isinstance(n.func, ast.Attribute):
                if "metadata" in n.func.attr.lower() and (n.args or n.keywords):
                    sinks.append((n.func.value, list(n.args) + [k.value for k in n.keywords], n, f".{n.func.attr}(..)"))
                elif n.func.attr in ("update", "setdefault", "__setitem__") and (n.args or n.keywords):
                    own = owner_of_metadata(n.func.value)
                    if own is not None:
                        sinks.append((own, list(n.args) + [k.value for k in n.keywords], n, f".metadata ... .{n.func.attr}(..)"))
            elif isinstance(n, (ast.Assign, ast.AnnAssign, ast.AugAssign)) and n.value is not None:
                for t in (n.targets if isinstance(n, ast.Assign) else [n.target]):
                    if isinstance(t, ast.Attribute) and t.attr in META:
                        sinks.append((t.value, [n.value], n, f".{t.attr} = .."))
                    elif isinstance(t, ast.Subscript):
                        own = owner_of_metadata(t.value)
                        if own is not None:
                            sinks.append((own, [n.value], n, ".metadata[..] = .."))

        conds: dict = {}  # id(leaf) -> the comprehension filters under which the leaf is handed over

        def carried(e, fl=fl, _depth=0, conds=conds):
            """the values an expression hands over: the elements of container displays / comprehensions, else the value itself"""
            out = []
            for o in fl.origins_at(e):
                if _depth > 6:
                    out.append(o)
                elif isinstance(o, ast.Dict):
                    for val in o.values:
                        out += carried(val, fl, _depth + 1)
                elif isinstance(o, (ast.List, ast.Tuple, ast.Set)):
                    for val in o.elts:
                        out += carried(val, fl, _depth + 1)
                elif isinstance(o, ast.Starred):
                    out += carried(o.value, fl, _depth + 1)
                elif isinstance(o, ast.DictComp):
                    # {k: v for k, v in <mapping>.items() if ..}: what each entry hands over; its filters are conditions on the way
                    conds[id(o)] = [c for g in o.generators for c in g.ifs]
                    for leaf in carried(o.value, fl, _depth + 1):
                        conds.setdefault(id(leaf), []).extend(conds[id(o)])
                        out.append(leaf)
                elif isinstance(o, (ast.ListComp, ast.SetComp, ast.GeneratorExp)):
                    conds[id(o)] = [c for g in o.generators for c in g.ifs]
                    for leaf in carried(o.elt, fl, _depth + 1):
                        conds.setdefault(id(leaf), []).extend(conds[id(o)])
                        out.append(leaf)
                elif isinstance(o, ast.Call) and isinstance(o.func, ast.Name) and o.func.id == "dict":
                    for val in list(o.args) + [k.value for k in o.keywords]:
                        out += carried(val, fl, _depth + 1)  # dict(m) / dict(k=v): a new mapping holding the same values
                else:
                    out.append(o)
            return out

        def ident(o):
            return ("name", o.id) if isinstance(o, ast.Name) else id(o)

        for owner, values, node, text in sinks:
            if from_source(fl, owner, roots) is not None:
                continue  # the source's own metadata: not this clause
            st = node
            while st is not None and not isinstance(st, ast.stmt):
                st = par.get(st)
            shared = None
            for val in values:
                for leaf in carried(val):
                    chain = from_source(fl, leaf, roots)
                    if not chain or not _entry_steps(chain):
                        continue
                    me = {ident(o) for o in fl.origins_at(leaf)} | {ident(leaf)}
                    nm = leaf.id if isinstance(leaf, ast.Name) else None
                    facts = instance_facts(par, st, v.node, lambda e, me=me: bool({ident(o) for o in fl.origins_at(e)} & me), strict=False,
                                           rebinds=lambda x, nm=nm: nm is not None and isinstance(x, ast.Assign) and all(isinstance(t, ast.Name) and t.id == nm for t in x.targets)) or []
                    is_leaf = lambda e, me=me: bool({ident(o) for o in fl.origins_at(e)} & me)  # noqa: E731
                    for cond in conds.get(id(leaf), []):
                        facts = facts + (test_facts(cond, True, is_leaf, strict=False) or [])
                    if any(kind == "type" and names and names <= IMMUTABLE for kind, names in facts):
                        continue
                    shared = shared or (leaf, chain)
            # ... and whether an entry is transferred at all is decided by what it IS (isinstance, is None), never by its truthiness:
            # `if value` also turns away 0, 0.0, False, "" — entries the copy must have
            dropped = None
            for val in values:
                for leaf in carried(val):
                    lchain = from_source(fl, leaf, roots)
                    if lchain is None:
                        # a copy of the entry (deepcopy(value)): the entry itself is the argument
                        inner = [a for a in ast.walk(leaf) if isinstance(a, ast.Name)] if isinstance(leaf, ast.Call) else []
                        lchain = next((c for c in (from_source(fl, a, roots) for a in inner) if c and _entry_steps(c)), None)
                        subject = next((a for a in inner if from_source(fl, a, roots)), None)
                    else:
                        subject = leaf
                    if not lchain or not _entry_steps(lchain) or subject is None:
                        continue
                    me = {ident(o) for o in fl.origins_at(subject)} | {ident(subject)}
                    is_it = lambda e, me=me: isinstance(e, ast.Name) and bool(({ident(o) for o in fl.origins_at(e)} | {ident(e)}) & me)  # noqa: E731
                    tests = list(conds.get(id(leaf), []))
                    cur, child = par.get(st), st
                    while cur is not None and cur is not v.node:
                        if isinstance(cur, ast.If):
                            tests.append(cur.test)
                        blk = next((b for b in (getattr(cur, "body", None), getattr(cur, "orelse", None)) if isinstance(b, list) and child in b), None)
                        tests += [pv.test for pv in (blk[: blk.index(child)] if blk else []) if isinstance(pv, ast.If) and any(isinstance(x, (ast.Continue, ast.Return)) for x in ast.walk(pv))]
                        cur, child = par.get(cur), cur
                    if any(_truth_tested(t, is_it) for t in tests):
                        dropped = dropped or subject
            if dropped is not None:
                res.find(fn.cls.name, fn.name, f"entries of the source's metadata reach <other entity>{text} only when they are truthy", f"{fn.module.relpath}:{node.lineno}",
                         "the condition under which an entry is handed to the copy tests the entry's truth value: entries that are 0, 0.0, False or empty are "
                         "legitimate values of the source and are missing from the copy")
            ok = shared is None and dropped is None
            res.inst(f"{fn.qualname}:{node.lineno} <other entity>{text}: entries of the source's metadata handed over by reference: {shared is not None}"
                     + ("; only when truthy" if dropped is not None else ""), nontrivial=True, ok=ok)
            ok = shared is None
            if not ok:
                res.find(fn.cls.name, fn.name, f"entries of the source's metadata reach <other entity>{text} without a copy", f"{fn.module.relpath}:{node.lineno}",
                         "the value comes out of the source's metadata and is stored in the other entity's metadata as the same object (no deepcopy on the "
                         "way, no guard restricting it to immutable scalars): nested dicts / lists (e.g. the waveform of an EM survey) are shared, and "
                         "an edit of the copy (a setter editing the entry in place) shows in the source")
    return res
