"""C13 helper: normalised view of a method for one receiver class (template method / hook resolution).

The shared normaliser leaves `self.hook()` alone when some subclass overrides `hook`: for the static class of the method
the callee is not known.  The C13 rules ask their questions per class that uses a method (the classes whose lookup of
`mask_by_extent` finds it), and for one such class the callee is known: what `hook` resolves to on that class.  This
normaliser expands those calls too — also inside helpers that were themselves expanded (a template method pulled up into a
base class calling a hook pushed down) — and remembers which names it dispatched, so that a view can be shared by all the
receiver classes on which these names resolve to the same functions.
"""

from __future__ import annotations

import ast

from ..model import unparse
from ..normalize import Normalizer, rule_named_identifiers


class ReceiverNormalizer(Normalizer):
    def __init__(self, project, receiver, depth: int = 4):
        super().__init__(project, depth)
        self.receiver = receiver
        self.dispatched: dict = {}  # method name -> FuncInfo chosen on the receiver class

    def _callee(self, fn, call):
        t = super()._callee(fn, call)
        if t is not None or self.receiver is None:
            return t
        f = call.func
        if not (isinstance(f, ast.Attribute) and isinstance(f.value, ast.Name) and f.value.id in ("self", fn.self_name or "self")):
            return None
        name = f.attr
        if name.startswith("__") or (not name.startswith("_") and (not self.public or name in rule_named_identifiers())):
            return None
        m = self.receiver.lookup(name)
        if not (m and m[1] == "method"):
            return None
        target = m[2]
        if target.node is fn.node or target.kind not in ("method",):
            return None
        a = target.node.args
        if a.vararg or a.kwarg or any(isinstance(x, ast.Starred) for x in call.args) or any(k.arg is None for k in call.keywords):
            return None
        if any(unparse(d) not in ("staticmethod", "classmethod") for d in target.node.decorator_list):
            return None
        if any(isinstance(x, (ast.Yield, ast.YieldFrom, ast.Global, ast.Nonlocal, ast.FunctionDef, ast.Lambda)) for s in target.node.body for x in ast.walk(s)):
            return None
        self.dispatched[name] = target
        return target


def view_for(ctx, fn, receiver, key):
    """View of `fn` (a FuncInfo, possibly pre-processed; `key` identifies the original function) with self-calls resolved on
    `receiver`.  Cached in ctx.cache; shared between receiver classes that resolve the dispatched names alike (a view in
    which no name was dispatched does not depend on the receiver at all)."""
    slot = ctx.cache.setdefault(("c13-recv", key), [])
    for dispatched, v, _keep in slot:
        same = True
        for name, target in dispatched.items():
            m = receiver.lookup(name)
            same = same and bool(m) and m[1] == "method" and m[2] is target
        if same:
            return v
    norm = ReceiverNormalizer(ctx.p, receiver)
    if hasattr(ctx.norm, "_stored_attrs"):
        norm._stored_cache = ctx.norm._stored_attrs()  # a whole-package scan: done once by the shared normaliser
    v = norm.view(fn)
    slot.append((dict(norm.dispatched), v, (fn, norm)))
    return v
