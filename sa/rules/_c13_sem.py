"""C13 helpers: layout-independent facts about one function.

* `prepare(fn_node)`      copy with `return A if C else B` lowered to an if statement and every if / while test
                          alias-expanded (single-assignment locals replaced by their defining expressions)
* `PathFacts(fn_node)`    for every CFG node the set of clauses that hold on every path reaching it (guard clauses and
                          nested ifs, merged / split conditions and De Morgan forms give the same clauses)
* `taint(fn_node, seeds)` which of the seed names a local is computed from (zip / tuple targets matched elementwise)
* `names_from(fn_node, is_source)` locals computed (transitively) from an expression satisfying `is_source`

Nothing here knows local-variable spellings.
"""

from __future__ import annotations

import ast
import copy

from ..cfg import CFG, forward
from ..model import unparse
from ..normalize import expanded

ORDERING = (ast.Lt, ast.LtE, ast.Gt, ast.GtE)
NP_ORDERING = {"less": ast.Lt, "less_equal": ast.LtE, "greater": ast.Gt, "greater_equal": ast.GtE}
TRUTH_REDUCERS = {"any", "all"}


# ---------------------------------------------------------------------------------------------- aliases
def local_defs(fn_node) -> dict:
    """name -> its only defining expression.  As normalize.single_assignments, but the `_ret__iN = None` initialisers left
    by helper expansion do not count and `a, b = x, y` is read elementwise."""
    defs: dict = {}
    count: dict = {}

    def bump(name, k):
        count[name] = count.get(name, 0) + k

    for n in ast.walk(fn_node):
        if isinstance(n, (ast.Assign, ast.AnnAssign)) and n.value is not None:
            tgs = n.targets if isinstance(n, ast.Assign) else [n.target]
            for t in tgs:
                if isinstance(t, ast.Name):
                    if t.id.startswith("_ret__i") and isinstance(n.value, ast.Constant) and n.value.value is None:
                        continue
                    defs[t.id] = n.value
                    bump(t.id, 1)
                elif isinstance(t, (ast.Tuple, ast.List)) and isinstance(n.value, (ast.Tuple, ast.List)) and len(t.elts) == len(n.value.elts) \
                        and all(isinstance(e, ast.Name) for e in t.elts) and not any(isinstance(e, ast.Starred) for e in n.value.elts):
                    for a, b in zip(t.elts, n.value.elts):
                        defs[a.id] = b
                        bump(a.id, 1)
                else:
                    for x in ast.walk(t):
                        if isinstance(x, ast.Name) and isinstance(x.ctx, ast.Store):
                            bump(x.id, 2)
                    b = t
                    while isinstance(b, ast.Subscript):
                        b = b.value
                    if isinstance(b, ast.Name) and b is not t:
                        bump(b.id, 2)  # x[i] = v: x is not a plain alias of its first value any more
        elif isinstance(n, ast.With):
            for it in n.items:
                if isinstance(it.optional_vars, ast.Name):
                    defs[it.optional_vars.id] = it.context_expr
                    bump(it.optional_vars.id, 1)
        elif isinstance(n, ast.AugAssign):
            for x in ast.walk(n.target):
                if isinstance(x, ast.Name):
                    bump(x.id, 2)
        elif isinstance(n, (ast.For, ast.comprehension)):
            for x in ast.walk(n.target):
                if isinstance(x, ast.Name):
                    bump(x.id, 2)
        elif isinstance(n, ast.NamedExpr) and isinstance(n.target, ast.Name):
            bump(n.target.id, 2)
        elif isinstance(n, ast.ExceptHandler) and n.name:
            bump(n.name, 2)
    a = fn_node.args
    params = {x.arg for x in a.posonlyargs + a.args + a.kwonlyargs}
    return {k: v for k, v in defs.items() if count.get(k) == 1 and k not in params}


def ex(expr, fn_node, defs=None):
    """Alias-expanded copy of `expr`."""
    return expanded(expr, fn_node, defs if defs is not None else local_defs(fn_node))


def ext(expr, fn_node, defs=None) -> str:
    return unparse(ex(expr, fn_node, defs))


# ---------------------------------------------------------------------------------------------- lowering
class _Lower(ast.NodeTransformer):
    def visit_Return(self, node):
        v = node.value
        if isinstance(v, ast.IfExp):
            a = self.visit_Return(ast.copy_location(ast.Return(value=v.body), node))
            b = self.visit_Return(ast.copy_location(ast.Return(value=v.orelse), node))
            return ast.copy_location(ast.If(test=v.test, body=[a], orelse=[b]), node)
        return node

    def visit_Lambda(self, node):
        return node


_TERMINATORS = (ast.Return, ast.Raise, ast.Continue, ast.Break)


def _kill(env, names):
    if names:
        for k in [k for k, v in env.items() if k in names or any(isinstance(x, ast.Name) and x.id in names for x in ast.walk(v))]:
            del env[k]


def _sink(stmts, env):
    """Single-exit code made multi-exit: `if c: r = A` / `else: r = B` / `return r` becomes `return A` / `return B` inside the
    branches (the assignments stay), so that a rule sees under which conditions each value is returned.  `env` maps a local
    to the expression it currently holds (straight-line knowledge only; any other write forgets it)."""
    out = []
    stmts = list(stmts)
    i = 0
    while i < len(stmts):
        s = stmts[i]
        nxt = stmts[i + 1] if i + 1 < len(stmts) else None
        if isinstance(s, ast.If) and isinstance(nxt, ast.Return) and isinstance(nxt.value, ast.Name):
            body = list(s.body) + ([] if s.body and isinstance(s.body[-1], _TERMINATORS) else [copy.deepcopy(nxt)])
            orelse = list(s.orelse) + ([] if s.orelse and isinstance(s.orelse[-1], _TERMINATORS) else [copy.deepcopy(nxt)])
            s = ast.copy_location(ast.If(test=s.test, body=body, orelse=orelse), s)
            stmts = stmts[: i + 1]  # what followed the return was dead code
        if isinstance(s, ast.Return):
            if isinstance(s.value, ast.Name) and s.value.id in env:
                s = ast.copy_location(ast.Return(value=copy.deepcopy(env[s.value.id])), s)
            out.append(s)
            break
        if isinstance(s, ast.If):
            s.body = _sink(s.body, dict(env))
            s.orelse = _sink(s.orelse, dict(env))
            _kill(env, _stored(s))
        elif isinstance(s, (ast.For, ast.AsyncFor, ast.While, ast.With, ast.AsyncWith, ast.Try)):
            _kill(env, _stored(s))
            for fld in ("body", "orelse", "finalbody"):
                blk = getattr(s, fld, None)
                if isinstance(blk, list) and blk:
                    setattr(s, fld, _sink(blk, dict(env)))
            for h in getattr(s, "handlers", []) or []:
                h.body = _sink(h.body, dict(env))
        elif isinstance(s, (ast.FunctionDef, ast.AsyncFunctionDef, ast.ClassDef)):
            pass
        else:
            _kill(env, _stored(s))
            if isinstance(s, (ast.Assign, ast.AnnAssign)) and s.value is not None:
                tg = s.targets[0] if isinstance(s, ast.Assign) and len(s.targets) == 1 else getattr(s, "target", None)
                if isinstance(tg, ast.Name) and not any(isinstance(x, ast.Name) and x.id == tg.id for x in ast.walk(s.value)):
                    env[tg.id] = s.value
        out.append(s)
        i += 1
    return out


def _test_feeding(fn_node) -> set:
    """Locals whose value ends up in an if / while test (directly, or through a plain assignment to such a local)."""
    out = {x.id for n in ast.walk(fn_node) if isinstance(n, (ast.If, ast.While, ast.IfExp)) for x in ast.walk(n.test) if isinstance(x, ast.Name)}
    changed = True
    while changed:
        changed = False
        for n in ast.walk(fn_node):
            if isinstance(n, ast.Assign) and len(n.targets) == 1 and isinstance(n.targets[0], ast.Name) and n.targets[0].id in out:
                new = {x.id for x in ast.walk(n.value) if isinstance(x, ast.Name)} - out
                if new:
                    out |= new
                    changed = True
    return out


def _plain_assign(s):
    if isinstance(s, ast.Assign) and len(s.targets) == 1 and isinstance(s.targets[0], ast.Name):
        return s.targets[0].id
    return None


def _merge_decisions(stmts, feeding):
    """A condition computed in branches and tested later (`if a: ok = False` / `else: ok = f(x)` / `if not ok:` — what the
    expansion of a bool-returning helper looks like) becomes one conditional expression `ok = False if a else f(x)`, so that
    the later test can be read as a formula over the original conditions.  Only for locals that feed a test."""
    out = []
    for s in stmts:
        for fld in ("body", "orelse", "finalbody"):
            blk = getattr(s, fld, None)
            if isinstance(blk, list) and blk and isinstance(blk[0], ast.stmt):
                setattr(s, fld, _merge_decisions(blk, feeding))
        for h in getattr(s, "handlers", []) or []:
            h.body = _merge_decisions(h.body, feeding)
        if isinstance(s, ast.If) and len(s.body) == 1 and _plain_assign(s.body[0]) in feeding:
            nm = _plain_assign(s.body[0])
            used = any(isinstance(x, ast.Name) and x.id == nm for x in ast.walk(s.test))
            prev = out[-1] if out else None
            other = None
            if len(s.orelse) == 1 and _plain_assign(s.orelse[0]) == nm:
                other = s.orelse[0].value
            elif not s.orelse and prev is not None and _plain_assign(prev) == nm and not used:
                other = prev.value  # `ok = v0` / `if a: ok = v1`
                if not (nm.startswith("_ret__i") and isinstance(other, ast.Constant) and other.value is None):
                    out.pop()
                else:
                    other = None
            if other is not None and not used:
                val = ast.copy_location(ast.IfExp(test=s.test, body=s.body[0].value, orelse=other), s)
                s = ast.copy_location(ast.Assign(targets=[ast.Name(id=nm, ctx=ast.Store())], value=val, lineno=s.lineno), s)
        out.append(s)
    return out


def prepare(fn_node):
    """(copy of the function, its alias map): conditions decided in branches merged into conditional expressions, conditional
    returns lowered, single-exit results returned where they are decided, tests alias-expanded."""
    node = copy.deepcopy(fn_node)
    node.body = _merge_decisions(node.body, _test_feeding(node))
    node.body = _sink(node.body, {})
    node.body = [_Lower().visit(s) for s in node.body]
    defs = local_defs(node)
    for n in ast.walk(node):
        if isinstance(n, (ast.If, ast.While)):
            n.test = expanded(n.test, node, defs)
    ast.fix_missing_locations(node)
    return node, defs


# ---------------------------------------------------------------------------------------------- small predicates
def call_name(c):
    """Last component of the called function's name."""
    if not isinstance(c, ast.Call):
        return None
    f = c.func
    return f.attr if isinstance(f, ast.Attribute) else getattr(f, "id", None)


def is_reducer(e, names=TRUTH_REDUCERS):
    """`np.any(X)` / `any(X)` / `X.any()` (and all): returns (name, X) or None."""
    nm = call_name(e)
    if nm not in names:
        return None
    if isinstance(e.func, ast.Attribute) and not (isinstance(e.func.value, ast.Name) and e.func.value.id in ("np", "numpy")):
        return nm, e.func.value  # method form
    if e.args:
        return nm, e.args[0]
    return None


def is_none(e) -> bool:
    return isinstance(e, ast.Constant) and e.value is None


def mentions(e, names) -> bool:
    return any(isinstance(x, ast.Name) and x.id in names for x in ast.walk(e))


# ---------------------------------------------------------------------------------------------- clauses
class Atoms:
    """Registry text -> node of the atomic conditions met while converting tests to clauses."""

    def __init__(self):
        self.node: dict = {}
        self.names: dict = {}

    def lit(self, node, pol):
        t = unparse(node)
        if t not in self.node:
            self.node[t] = node
            self.names[t] = {x.id for x in ast.walk(node) if isinstance(x, ast.Name)}
        return (t, pol)


_POSITIVE = {ast.IsNot: ast.Is, ast.NotEq: ast.Eq, ast.NotIn: ast.In}


def clauses(test, pol: bool, atoms: Atoms, limit: int = 64) -> frozenset:
    """Conjunctive normal form of `test is pol`: frozenset of clauses, a clause is a frozenset of (atom text, polarity)."""
    if isinstance(test, ast.UnaryOp) and isinstance(test.op, ast.Not):
        return clauses(test.operand, not pol, atoms, limit)
    if isinstance(test, ast.UnaryOp) and isinstance(test.op, ast.Invert) and isinstance(test.operand, ast.Call) and is_reducer(test.operand):
        return clauses(test.operand, not pol, atoms, limit)  # ~np.any(x): numpy bools negate logically
    if isinstance(test, ast.Constant):
        # a true condition constrains nothing (no clause); a false one is the empty clause (nothing satisfies it)
        return frozenset() if bool(test.value) == pol else frozenset([frozenset()])
    if isinstance(test, ast.IfExp):
        # (a if c else b)  ==  (not c or a) and (c or b)
        c, a, b = test.test, test.body, test.orelse
        if not pol:
            a, b = (ast.copy_location(ast.UnaryOp(op=ast.Not(), operand=v), v) for v in (a, b))
        both = ast.BoolOp(op=ast.And(), values=[ast.BoolOp(op=ast.Or(), values=[ast.copy_location(ast.UnaryOp(op=ast.Not(), operand=c), c), a]),
                                                ast.BoolOp(op=ast.Or(), values=[c, b])])
        return clauses(ast.copy_location(both, test), True, atoms, limit)
    if isinstance(test, ast.BoolOp):
        parts = [clauses(v, pol, atoms, limit) for v in test.values]
        if isinstance(test.op, ast.And) == pol:
            return frozenset(c for part in parts for c in part)
        out = [frozenset()]
        for part in parts:
            out = [a | b for a in out for b in part]
            if len(out) > limit:
                return frozenset([frozenset([atoms.lit(test, pol)])])
        return frozenset(out)
    if isinstance(test, ast.Compare) and len(test.ops) == 1 and isinstance(test.ops[0], (ast.Is, ast.IsNot, ast.Eq, ast.NotEq)):
        left, right = test.left, test.comparators[0]
        if isinstance(left, ast.IfExp):
            # (a if c else b) is X  ==  (a is X) if c else (b is X): a value decided in branches, compared afterwards
            arms = [ast.copy_location(ast.Compare(left=v, ops=test.ops, comparators=test.comparators), test) for v in (left.body, left.orelse)]
            return clauses(ast.copy_location(ast.IfExp(test=left.test, body=arms[0], orelse=arms[1]), test), pol, atoms, limit)
        if isinstance(left, ast.Constant) and isinstance(right, ast.Constant) and (left.value is None or right.value is None):
            same = left.value is right.value
            truth = same if isinstance(test.ops[0], (ast.Is, ast.Eq)) else not same
            return frozenset() if truth == pol else frozenset([frozenset()])
    if isinstance(test, ast.Compare) and len(test.ops) == 1 and type(test.ops[0]) in _POSITIVE:
        pos = ast.copy_location(ast.Compare(left=test.left, ops=[_POSITIVE[type(test.ops[0])]()], comparators=test.comparators), test)
        return frozenset([frozenset([atoms.lit(pos, not pol)])])
    return frozenset([frozenset([atoms.lit(test, pol)])])


def _stored(node) -> set:
    out = set()
    if node is None:
        return out
    for n in (node if isinstance(node, list) else [node]):
        for x in ast.walk(n):
            if isinstance(x, ast.Name) and isinstance(x.ctx, (ast.Store, ast.Del)):
                out.add(x.id)
            elif isinstance(x, ast.Subscript) and isinstance(x.ctx, (ast.Store, ast.Del)):
                b = x
                while isinstance(b, ast.Subscript):
                    b = b.value
                if isinstance(b, ast.Name):
                    out.add(b.id)  # x[i] = v changes x
    return out


class PathFacts:
    """Clauses holding on every path from the entry to a CFG node (forward must-analysis over the prepared function)."""

    def __init__(self, fn_node, prepared=None):
        self.node, self.defs = prepared if prepared is not None else prepare(fn_node)
        self.atoms = Atoms()
        self.g = CFG(self.node)
        self._memo: dict = {}
        self._joins = 0
        self.IN = forward(self.g, frozenset(), self._transfer, self._join)

    def _join(self, a, b):
        """Clauses of (a OR b): the common clauses, and the pairwise unions of the others (so that `X is None` on one way
        in and `not f(X)` on the other still gives the clause {X is None, not f(X)}); small clauses only."""
        if frozenset() in a:
            return b
        if frozenset() in b:
            return a
        common = a & b
        self._joins += 1
        if a == b or self._joins > 4000:
            return common
        out = set(common)
        for x in a - common:
            for y in b - common:
                u = x | y
                if len(u) <= 4 and not any((t, not pol) in u for t, pol in u):
                    out.add(u)
        out = {c for c in out if not any(d < c for d in out)}
        return frozenset(out) if len(out) <= 48 else common

    def _cl(self, n, pol):
        k = (n.id, pol)
        if k not in self._memo:
            self._memo[k] = clauses(n.ast, pol, self.atoms)
        return self._memo[k]

    def _transfer(self, n, s):
        if n.kind == "test":
            return {"true": s | self._cl(n, True), "false": s | self._cl(n, False), None: s}
        if n.kind in ("stmt", "fornext", "with"):
            src = n.ast if n.kind != "with" else [it.optional_vars for it in n.ast.items if it.optional_vars is not None]
            killed = _stored(src)
            if killed:
                s = frozenset(c for c in s if not any(self.atoms.names.get(t, set()) & killed for t, _ in c))
        return s

    def at(self, n) -> frozenset:
        return self.IN.get(n, frozenset())

    def returns(self):
        """[(cfg node, ast.Return)] of the reachable explicit returns."""
        return [(n, n.stmt) for n in self.g.nodes if n.kind == "return" and n in self.IN]

    def fall_through(self):
        """[(cfg node, clauses)] for the ways of falling off the end of the function (implicit `return None`)."""
        out = []
        for pr, lab in self.g.exit.pred:
            if pr.kind in ("return", "withexit") or pr not in self.IN:
                continue
            o = self._transfer(pr, self.IN[pr])
            out.append((pr, o.get(lab, o.get(None)) if isinstance(o, dict) else o))
        return out

    def literal(self, lit):
        return self.atoms.node[lit[0]], lit[1]

    def around(self, expr) -> frozenset:
        """Clauses holding whenever the expression `expr` (a node of the prepared function) is evaluated."""
        if not hasattr(self, "_where"):
            self._where = {}

            def visit(x, n, extra):
                self._where.setdefault(id(x), (n, extra))
                if isinstance(x, ast.IfExp):  # the arms of a conditional expression are evaluated under its test
                    visit(x.test, n, extra)
                    visit(x.body, n, extra + ((x.test, True),))
                    visit(x.orelse, n, extra + ((x.test, False),))
                    return
                for ch in ast.iter_child_nodes(x):
                    visit(ch, n, extra)

            for n in self.g.nodes:
                src = n.ast
                if n.kind == "with":
                    src = [it.context_expr for it in n.ast.items]
                if src is None:
                    continue
                for part in (src if isinstance(src, list) else [src]):
                    visit(part, n, ())
        n, extra = self._where.get(id(expr), (None, ()))
        facts = self.at(n) if n is not None else frozenset()
        for test, pol in extra:
            facts = facts | clauses(expanded(test, self.node, self.defs), pol, self.atoms)
        return facts

    def known_truth(self, facts, name):
        """True / False when `facts` fix the truth value of the local or parameter `name`, "dead" when they fix both (the place
        cannot be reached), else None."""
        got = set()
        for clause in facts:
            if len(clause) == 1:
                node, pol = self.literal(next(iter(clause)))
                if isinstance(node, ast.Name) and node.id == name:
                    got.add(pol)
        if len(got) == 2 or frozenset() in facts:
            return "dead"
        return got.pop() if got else None


# ---------------------------------------------------------------------------------------------- value flow
def _bindings(fn_node):
    """(target names, source expression) pairs for every way a local gets a value; zip()/tuple sources matched elementwise."""
    def tnames(t):
        return {x.id for x in ast.walk(t) if isinstance(x, ast.Name)}

    def pairs(target, value, iterating):
        src = value
        if iterating and isinstance(value, ast.Call) and call_name(value) in ("zip", "enumerate") and isinstance(target, (ast.Tuple, ast.List)):
            if call_name(value) == "zip" and len(target.elts) == len(value.args):
                for t, v in zip(target.elts, value.args):
                    yield from pairs(t, v, True)
                return
            if call_name(value) == "enumerate" and len(target.elts) == 2 and value.args:
                yield from pairs(target.elts[1], value.args[0], True)
                return
        if not iterating and isinstance(target, (ast.Tuple, ast.List)) and isinstance(value, (ast.Tuple, ast.List)) and len(target.elts) == len(value.elts):
            for t, v in zip(target.elts, value.elts):
                yield from pairs(t, v, False)
            return
        base = target
        while isinstance(base, (ast.Subscript, ast.Starred)):
            base = base.value
        if isinstance(base, ast.Name):
            yield {base.id}, src
        elif isinstance(base, (ast.Tuple, ast.List)):
            yield tnames(base), src

    for n in ast.walk(fn_node):
        if isinstance(n, ast.Assign):
            for t in n.targets:
                yield from pairs(t, n.value, False)
        elif isinstance(n, ast.AnnAssign) and n.value is not None:
            yield from pairs(n.target, n.value, False)
        elif isinstance(n, ast.AugAssign):
            yield from pairs(n.target, n.value, False)
        elif isinstance(n, ast.NamedExpr):
            yield from pairs(n.target, n.value, False)
        elif isinstance(n, (ast.For, ast.comprehension)):
            yield from pairs(n.target, n.iter, True)
        elif isinstance(n, ast.With):
            for it in n.items:
                if it.optional_vars is not None:
                    yield from pairs(it.optional_vars, it.context_expr, False)


def taint(fn_node, seeds) -> dict:
    """local name -> subset of `seeds` (names) it is computed from."""
    t = {s: {s} for s in seeds}
    binds = list(_bindings(fn_node))
    changed = True
    while changed:
        changed = False
        for names, src in binds:
            got = set()
            for x in ast.walk(src):
                if isinstance(x, ast.Name) and x.id in t:
                    got |= t[x.id]
            for nm in names:
                if not got <= t.get(nm, set()):
                    t.setdefault(nm, set()).update(got)
                    changed = True
    return t


def taint_of(expr, t) -> set:
    out = set()
    for x in ast.walk(expr):
        if isinstance(x, ast.Name) and x.id in t:
            out |= t[x.id]
    return out


def names_from(fn_node, is_source) -> set:
    """Locals whose value is computed (transitively) from a sub-expression satisfying is_source(node)."""
    binds = list(_bindings(fn_node))
    out: set = set()
    changed = True
    while changed:
        changed = False
        for names, src in binds:
            if any(is_source(x) or (isinstance(x, ast.Name) and x.id in out) for x in ast.walk(src)):
                new = names - out
                if new:
                    out |= new
                    changed = True
    return out


# ---------------------------------------------------------------------------------------------- provenance on the object
def self_attr(x, sn):
    """Name of the attribute when `x` reads `self.<name>` / getattr(self, "<name>"[, default]), else None."""
    if isinstance(x, ast.Attribute) and isinstance(x.value, ast.Name) and x.value.id == sn and isinstance(x.ctx, ast.Load):
        return x.attr
    if isinstance(x, ast.Call) and isinstance(x.func, ast.Name) and x.func.id == "getattr" and len(x.args) >= 2 \
            and isinstance(x.args[0], ast.Name) and x.args[0].id == sn and isinstance(x.args[1], ast.Constant):
        return str(x.args[1].value)
    return None


def self_stores(fn_node, sn) -> dict:
    """attribute -> [value expressions] for `self.<attribute> = value` / setattr(self, "<attribute>", value) in the function."""
    out: dict = {}
    for n in ast.walk(fn_node):
        if isinstance(n, (ast.Assign, ast.AnnAssign, ast.AugAssign)) and getattr(n, "value", None) is not None:
            for t in (n.targets if isinstance(n, ast.Assign) else [n.target]):
                if isinstance(t, ast.Attribute) and isinstance(t.value, ast.Name) and t.value.id == sn:
                    out.setdefault(t.attr, []).append(n.value)
        elif isinstance(n, ast.Call) and isinstance(n.func, ast.Name) and n.func.id == "setattr" and len(n.args) == 3 \
                and isinstance(n.args[0], ast.Name) and n.args[0].id == sn and isinstance(n.args[1], ast.Constant):
            out.setdefault(str(n.args[1].value), []).append(n.args[2])
    return out


def provenance(fn_node, roots, sn) -> set:
    """Attributes of the object whose values flow into the expressions `roots`: followed backwards through local bindings and
    through attributes the function stores itself (a cache field filled a few lines above).  Conditions under which a value
    is chosen do not count, only what the value is computed from."""
    binds: dict = {}
    for names, src in _bindings(fn_node):
        for nm in names:
            binds.setdefault(nm, []).append(src)
    stores = self_stores(fn_node, sn)
    out, seen, work = set(), set(), list(roots)
    while work:
        e = work.pop()
        skip = set()
        for x in ast.walk(e):
            if id(x) in skip:
                continue
            if isinstance(x, ast.IfExp):
                skip |= {id(y) for y in ast.walk(x.test)}  # which arm is taken is a condition, not a value
                continue
            a = self_attr(x, sn)
            if a is not None:
                if a in stores:
                    if ("." + a) not in seen:
                        seen.add("." + a)
                        work += stores[a]
                else:
                    out.add(a)
            elif isinstance(x, ast.Name) and x.id in binds and x.id not in seen:
                seen.add(x.id)
                work += binds[x.id]
    return out
