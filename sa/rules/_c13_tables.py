"""C13 helper: dispatch through a table of callables written back as the if / elif chain it stands for.

    select = {A: self._by_vertices, B: self._by_cells}.get(self.kind)        if self.kind is A:
    if select is None:                                                ==>         return self._by_vertices(extent, inverse)
        return None                                                           elif self.kind is B: ...
    return select(extent, inverse)

The table may be a dict display in the function, a local bound once, or a module / class level constant; its values bound
methods, functions, unbound methods (called with an explicit self) or lambdas.  The rewriting happens before the normaliser
expands helpers, so that the callees end up expanded inside the branch that selects them and every path question is asked on
ordinary control flow.  A lookup that is not understood is left alone.
"""

from __future__ import annotations

import ast
import copy

from ..normalize import expanded
from ._c13_sem import is_none, local_defs


class Tables:
    def __init__(self, p, fn):
        self.p, self.fn = p, fn
        self.changed = False

    # ------------------------------------------------------------------ recognising a lookup
    def _display(self, d):
        """The dict display `d` stands for (a display, or a name / attribute bound once at module or class level to one)."""
        if isinstance(d, ast.Dict):
            return d
        if isinstance(d, ast.Name):
            r = self.p.resolve_name(self.fn.module, d.id)
            if r and r[0] == "assign" and isinstance(r[1][1], ast.Dict):
                return r[1][1]
        if isinstance(d, ast.Attribute) and isinstance(d.value, ast.Name):
            owner = None
            if self.fn.cls is not None and d.value.id in ("self", "cls", self.fn.self_name or ""):
                owner = self.fn.cls
            else:
                r = self.p.resolve_name(self.fn.module, d.value.id)
                if r and r[0] == "class":
                    owner = r[1]
            if owner is not None:
                m = owner.lookup(d.attr)
                if m and m[1] == "assign" and isinstance(m[2], ast.Dict):
                    return m[2]
        return None

    def lookup(self, e):
        """(key expression, [(key_i, value_i)], default | None when a miss raises) for `<table>.get(key[, default])` / `<table>[key]`."""
        x = expanded(e, self.node, self.defs)
        if isinstance(x, ast.Call) and isinstance(x.func, ast.Attribute) and x.func.attr == "get" and 1 <= len(x.args) <= 2 and not x.keywords:
            d, key, default = x.func.value, x.args[0], (x.args[1] if len(x.args) == 2 else ast.Constant(value=None))
        elif isinstance(x, ast.Subscript):
            d, key, default = x.value, x.slice, None
        else:
            return None
        d = self._display(d)
        if d is None or not d.keys or any(k is None for k in d.keys):
            return None
        if not all(isinstance(k, (ast.Constant, ast.Attribute, ast.Name)) for k in d.keys):
            return None
        return key, list(zip(d.keys, d.values)), default

    @staticmethod
    def _callable(v) -> bool:
        return isinstance(v, (ast.Attribute, ast.Name, ast.Lambda))

    # ------------------------------------------------------------------ building the chain
    @staticmethod
    def _test(key, k):
        op = ast.Eq() if isinstance(k, ast.Constant) else ast.Is()
        return ast.Compare(left=copy.deepcopy(key), ops=[op], comparators=[copy.deepcopy(k)])

    @staticmethod
    def _apply(v, call):
        """The expression `v(<arguments of call>)`; lambdas with plain positional parameters are applied on the spot."""
        if isinstance(v, ast.Lambda):
            a = v.args
            if not (a.vararg or a.kwarg or a.kwonlyargs or a.defaults or call.keywords) and len(a.args) == len(call.args) \
                    and not any(isinstance(x, ast.Starred) for x in call.args):
                sub = {prm.arg: arg for prm, arg in zip(a.args, call.args)}

                class S(ast.NodeTransformer):
                    def visit_Name(self, n):
                        return copy.deepcopy(sub[n.id]) if n.id in sub and isinstance(n.ctx, ast.Load) else n

                return S().visit(copy.deepcopy(v.body))
        return ast.Call(func=copy.deepcopy(v), args=copy.deepcopy(call.args), keywords=copy.deepcopy(call.keywords))

    def _arms(self, call):
        t = self.lookup(call.func) if isinstance(call, ast.Call) else None
        if t is None:
            return None
        key, pairs, default = t
        if not all(self._callable(v) for _, v in pairs) or not (default is None or is_none(default) or self._callable(default)):
            return None
        return key, [(k, self._apply(v, call)) for k, v in pairs], (self._apply(default, call) if default is not None and not is_none(default) else None)

    # ------------------------------------------------------------------ rewriting
    def rewrite(self, fn_node):
        """Copy of the function with the table dispatches written as chains (self.changed tells whether any was found)."""
        self.node = copy.deepcopy(fn_node)
        self.defs = local_defs(self.node)
        outer = self

        class T(ast.NodeTransformer):
            def _stmt(self, s):
                v = getattr(s, "value", None)
                arms = outer._arms(v) if v is not None else None
                if arms is None:
                    return self.generic_visit(s)
                key, pairs, default = arms
                outer.changed = True
                # a miss: the default callable, else what calling None / a missing key does — an exception
                last = [self._with(s, default)] if default is not None else [ast.Raise(exc=ast.Call(func=ast.Name(id="TypeError", ctx=ast.Load()), args=[], keywords=[]), cause=None)]
                for k, val in reversed(pairs):
                    last = [ast.If(test=outer._test(key, k), body=[self._with(s, val)], orelse=last)]
                for top in last:
                    for x in ast.walk(top):
                        if isinstance(x, (ast.expr, ast.stmt)) and not hasattr(x, "lineno"):
                            ast.copy_location(x, s)
                return last

            @staticmethod
            def _with(s, value):
                n = copy.copy(s)
                n.value = value
                return n

            visit_Return = visit_Assign = visit_AugAssign = visit_AnnAssign = visit_Expr = _stmt

            def visit_Call(self, node):
                self.generic_visit(node)
                arms = outer._arms(node)
                if arms is None:
                    return node
                key, pairs, default = arms
                outer.changed = True
                acc = default if default is not None else ast.Constant(value=None)
                for k, val in reversed(pairs):
                    acc = ast.IfExp(test=outer._test(key, k), body=val, orelse=acc)
                return ast.copy_location(acc, node)

            def visit_Compare(self, node):
                self.generic_visit(node)
                if len(node.ops) == 1 and isinstance(node.ops[0], (ast.Is, ast.IsNot)) and is_none(node.comparators[0]):
                    t = outer.lookup(node.left)
                    if t is not None and t[2] is not None and is_none(t[2]) and all(outer._callable(v) for _, v in t[1]):
                        key, pairs, _ = t
                        outer.changed = True
                        hits = [outer._test(key, k) for k, _ in pairs]
                        if isinstance(node.ops[0], ast.IsNot):
                            out = hits[0] if len(hits) == 1 else ast.BoolOp(op=ast.Or(), values=hits)
                        else:
                            miss = [ast.UnaryOp(op=ast.Not(), operand=h) for h in hits]
                            out = miss[0] if len(miss) == 1 else ast.BoolOp(op=ast.And(), values=miss)
                        return ast.copy_location(out, node)
                return node

        self.node.body = [y for s in self.node.body for y in _as_list(T().visit(s))]
        for x in ast.walk(self.node):
            if isinstance(x, (ast.expr, ast.stmt)) and not hasattr(x, "lineno"):
                ast.copy_location(x, fn_node)
        ast.fix_missing_locations(self.node)
        return self.node


def _as_list(x):
    return x if isinstance(x, list) else [x]
