"""C14 helpers: what a small converter function does to a value of a given KIND, decided without running anything.

A kind is a tag of a representative value of the property's domain: "None", "bool", "int", "float" (finite), "+inf", "-inf",
"str", ("tok", "<text>") for one particular string, "UUID", or a ClassInfo of the package (an instance of that class or of
a subclass).  NaN is not a kind: the property excludes it.

`KindEval.apply(fn, kind)` follows the body of `fn` (normalised view: helpers expanded, constants substituted) with its
first data parameter bound to a value of that kind; tests on the value are evaluated three-valued (isinstance / hasattr
against the class model, `is None`, comparisons with literals, numpy / math finiteness predicates); an undecided test
explores both branches.  The result is the set of outcomes {"pass" (the value itself is returned), "changed" (something
else is returned), "unknown"}.  `dict_mapper(value, table)` folds the table; calls to package functions are followed.
`KindEval.sink(fn, kind)` does the same for a dictionary walker (demote / stringify): the value variable of the loop (or
comprehension) over `<arg>.items()` is bound to the kind and the outcomes are what is stored / emitted for it.
"""

from __future__ import annotations

import ast

from ..model import ClassInfo, FuncInfo, unparse
from ._c14_sem import _callee, call_name, function_list

PASS, CHANGED, UNKNOWN = "pass", "changed", "unknown"
_LIVE = "live"  # marker inside env values: (LIVE, kind)

# builtin / stdlib type names -> kinds that are instances of it (every other kind is not)
_TYPE_KINDS = {
    "float": {"float", "+inf", "-inf"},
    "int": {"int", "bool"},
    "bool": {"bool"},
    "str": {"str", "tok"},
    "UUID": {"UUID"},
    "NoneType": {"None"},
    "Number": {"float", "+inf", "-inf", "int", "bool"},
    "Real": {"float", "+inf", "-inf", "int", "bool"},
}
_NEVER = {"dict", "list", "tuple", "set", "frozenset", "bytes", "bytearray", "Path", "PurePath", "BytesIO", "ndarray", "Callable", "Iterable", "Sequence", "Mapping"}
_NUMERIC = {"float", "+inf", "-inf", "int", "bool"}
_UUID_ATTRS = {"hex", "int", "bytes", "urn", "version", "fields", "variant", "node", "time"}
_PLAIN_BASES = {"object", "ABC", "AbstractContextManager", "Generic", "Protocol"}
_STR_BUILTINS = {"str", "repr", "format", "float", "int", "bool", "len", "UUID", "Path"}


def kind_name(k) -> str:
    if isinstance(k, ClassInfo):
        return k.name
    if isinstance(k, tuple):
        return repr(k[1])
    return {"+inf": "inf", "-inf": "-inf"}.get(k, k)


def _tag(k):
    return "tok" if isinstance(k, tuple) else k


def _and3(vals):
    if any(v is False for v in vals):
        return False
    return True if all(v is True for v in vals) else None


def _or3(vals):
    if any(v is True for v in vals):
        return True
    return False if all(v is False for v in vals) else None


class KindEval:
    def __init__(self, ctx):
        self.ctx = ctx
        self.p = ctx.p
        self.memo: dict = {}
        self.partial: dict = {}  # finiteness predicates met with a Python int on a feasible path: (view, line, name)

    # ------------------------------------------------------------------ three-valued tests
    def _kind_of(self, e, env):
        if isinstance(e, ast.Name):
            v = env.get(e.id)
            if isinstance(v, tuple) and v and v[0] == _LIVE:
                return v[1]
        return None

    def _isinstance(self, kind, tnode, fnctx):
        names = tnode.elts if isinstance(tnode, ast.Tuple) else [tnode]
        vals = []
        for n in names:
            nm = n.attr if isinstance(n, ast.Attribute) else getattr(n, "id", None)
            if nm is None:
                if isinstance(n, ast.Call) and call_name(n) == "type" and n.args and isinstance(n.args[0], ast.Constant) and n.args[0].value is None:
                    vals.append(kind == "None")
                else:
                    vals.append(None)
                continue
            if nm in _TYPE_KINDS:
                vals.append((not isinstance(kind, ClassInfo)) and _tag(kind) in _TYPE_KINDS[nm])
                continue
            if nm in _NEVER:
                vals.append(False)
                continue
            r = self.p.resolve_expr(fnctx.module, n) if fnctx is not None else None
            ci = r[1] if r and r[0] == "class" else None
            if ci is None:
                cands = self.p.by_name.get(nm, [])
                ci = cands[0] if len(cands) == 1 else None
            if ci is None:
                vals.append(None)
            elif not isinstance(kind, ClassInfo):
                vals.append(False)
            elif kind.is_subclass_of(ci):
                vals.append(True)
            elif ci.is_subclass_of(kind):
                vals.append(None)  # an instance of the kind may or may not be of the narrower class
            else:
                vals.append(False)
        return _or3(vals)

    def _hasattr(self, kind, name):
        if isinstance(kind, ClassInfo):
            if kind.lookup(name) is not None:
                return True
            # the class is modelled completely (no foreign base that could bring the attribute, no __getattr__) and has no
            # subclass defining it: its instances do not have the attribute
            closed = all((not isinstance(c, str)) or c in _PLAIN_BASES for c in kind.mro) and kind.lookup("__getattr__") is None
            if closed and not any(sub.lookup(name) is not None for sub in self.p.subclasses(kind, strict=True)):
                return False
            return None
        if kind == "UUID":
            return name in _UUID_ATTRS
        if kind in ("None", "bool", "int", "float", "+inf", "-inf", "str") or isinstance(kind, tuple):
            return False if not name.startswith("__") else None
        return None

    def tv(self, e, env, fnctx):
        if isinstance(e, ast.UnaryOp) and isinstance(e.op, ast.Not):
            v = self.tv(e.operand, env, fnctx)
            return None if v is None else not v
        if isinstance(e, ast.BoolOp):
            # left to right, stopping where python stops: operands behind a decided one are not evaluated
            stop = isinstance(e.op, ast.Or)
            vals = []
            for v in e.values:
                vals.append(self.tv(v, env, fnctx))
                if vals[-1] is stop:
                    break
            return _and3(vals) if isinstance(e.op, ast.And) else _or3(vals)
        if isinstance(e, ast.Name):
            v = env.get(e.id)
            if isinstance(v, tuple) and v and v[0] == "bool":
                return v[1]
            return None
        if isinstance(e, ast.Compare) and len(e.ops) == 1:
            op, l, r = e.ops[0], e.left, e.comparators[0]
            k = self._kind_of(l, env)
            if k is None and self._kind_of(r, env) is not None and isinstance(op, (ast.Eq, ast.NotEq, ast.Is, ast.IsNot)):
                l, r, k = r, l, self._kind_of(r, env)
            if k is None:
                return None
            neg = isinstance(op, (ast.IsNot, ast.NotEq, ast.NotIn))
            val = None
            if isinstance(op, (ast.Is, ast.IsNot)):
                if isinstance(r, ast.Constant) and r.value is None:
                    val = k == "None"
                elif (isinstance(r, ast.Attribute) and r.attr.lower() == "nan") or (isinstance(r, ast.Name) and r.id.lower() == "nan"):
                    val = False  # NaN is not a value of the domain
                elif isinstance(r, ast.Constant) and isinstance(r.value, bool):
                    val = None if k == "bool" else False
            elif isinstance(op, (ast.Eq, ast.NotEq)) and isinstance(r, ast.Constant):
                c = r.value
                if isinstance(k, tuple):
                    val = k[1] == c
                elif c is None:
                    val = k == "None"
                elif isinstance(c, str):
                    val = None if k == "str" else False
                elif k == "None" or isinstance(k, ClassInfo) or k == "UUID":
                    val = False
            elif isinstance(op, (ast.In, ast.NotIn)):
                elts = None
                if isinstance(r, (ast.List, ast.Tuple, ast.Set)) and all(isinstance(x, ast.Constant) for x in r.elts):
                    elts = [x.value for x in r.elts]
                elif isinstance(r, ast.Dict) and r.keys and all(isinstance(x, ast.Constant) for x in r.keys):
                    elts = [x.value for x in r.keys]
                if elts is not None:
                    if isinstance(k, tuple):
                        val = k[1] in elts
                    elif all(isinstance(x, str) for x in elts):
                        val = None if k == "str" else False
                    elif k == "None":
                        val = None in elts
            if val is None:
                return None
            return (not val) if neg else val
        if isinstance(e, ast.Call):
            nm = call_name(e)
            if nm == "isinstance" and len(e.args) == 2:
                k = self._kind_of(e.args[0], env)
                return None if k is None else self._isinstance(k, e.args[1], fnctx)
            if nm == "hasattr" and len(e.args) == 2 and isinstance(e.args[1], ast.Constant):
                k = self._kind_of(e.args[0], env)
                return None if k is None else self._hasattr(k, e.args[1].value)
            if nm in ("isfinite", "isnan", "isinf", "isposinf", "isneginf") and len(e.args) == 1:
                k = self._kind_of(e.args[0], env)
                if k == "int":
                    # not total on Python integers: numpy cannot coerce an int beyond 64 bits, math overflows beyond the floats
                    self.partial.setdefault((id(e), nm), (fnctx, getattr(e, "lineno", 0), nm))
                if k is None or k not in _NUMERIC:
                    return None
                return {"isfinite": k not in ("+inf", "-inf"), "isnan": False, "isinf": k in ("+inf", "-inf"),
                        "isposinf": k == "+inf", "isneginf": k == "-inf"}[nm]
            if nm == "bool" and len(e.args) == 1:
                return self.tv(e.args[0], env, fnctx)
        return None

    # ------------------------------------------------------------------ expressions
    def _tracked(self, e, env):
        return any(isinstance(x, ast.Name) and x.id in env for x in ast.walk(e))

    def _target(self, fnctx, call):
        """FuncInfo of a package function / method called (private helper, module function, cls / self method)."""
        t = _callee(self.p, fnctx, call)
        if t is not None:
            return t
        f = call.func
        if isinstance(f, ast.Name):
            r = self.p.resolve_name(fnctx.module, f.id)
            return r[1] if r and r[0] == "func" else None
        if isinstance(f, ast.Attribute) and isinstance(f.value, ast.Name):
            owner = None
            if fnctx.cls is not None and f.value.id in ("self", "cls", fnctx.self_name):
                owner = fnctx.cls
            else:
                r = self.p.resolve_name(fnctx.module, f.value.id)
                if r and r[0] == "class":
                    owner = r[1]
                elif r and r[0] == "module":
                    rr = self.p.resolve_name(r[1], f.attr)
                    return rr[1] if rr and rr[0] == "func" else None
            if owner is not None:
                m = owner.lookup(f.attr)
                if m and m[1] == "method":
                    return m[2]
        return None

    def expr(self, e, env, fnctx, depth):
        """outcome of an expression relative to the tracked value"""
        if isinstance(e, ast.Name):
            v = env.get(e.id)
            if v is None:
                return CHANGED if e.id not in env else UNKNOWN
            if isinstance(v, tuple) and v[0] == _LIVE:
                return PASS
            return CHANGED if v == CHANGED else UNKNOWN
        if isinstance(e, ast.IfExp):
            t = self.tv(e.test, env, fnctx)
            if t is True:
                return self.expr(e.body, env, fnctx, depth)
            if t is False:
                return self.expr(e.orelse, env, fnctx, depth)
            a, b = self.expr(e.body, env, fnctx, depth), self.expr(e.orelse, env, fnctx, depth)
            return a if a == b else UNKNOWN
        if isinstance(e, ast.Call):
            nm = call_name(e)
            args = list(e.args)
            if nm == "dict_mapper" and args:
                a0 = self.expr(args[0], env, fnctx, depth)
                if a0 != PASS:
                    return a0
                kind = self._kind_of(args[0], env)
                arg = args[1] if len(args) > 1 else next((k.value for k in e.keywords if k.arg in ("string_funcs", "funcs", "mappers")), None)
                tab = function_list(self.p, fnctx, arg) if arg is not None else None
                if tab is None or kind is None:
                    return UNKNOWN
                return self.fold(tab[0], kind, fnctx, depth)
            if not self._tracked(e, env):
                return CHANGED
            tgt = self._target(fnctx, e) if depth < 5 else None
            if tgt is not None and args and isinstance(args[0], ast.Name) and self._kind_of(args[0], env) is not None \
                    and not any(self._tracked(a, env) for a in args[1:]):
                o = self.apply(tgt, self._kind_of(args[0], env), depth + 1)
                return next(iter(o)) if len(o) == 1 else UNKNOWN
            if isinstance(e.func, ast.Name) and e.func.id in _STR_BUILTINS:
                return CHANGED
            if isinstance(e.func, ast.Attribute) and self._tracked(e.func.value, env) and not any(self._tracked(a, env) for a in args):
                return CHANGED  # a method of the value: value.decode(), value.strip()
            return UNKNOWN
        if isinstance(e, (ast.Attribute, ast.Subscript, ast.BinOp, ast.JoinedStr, ast.Constant, ast.List, ast.Tuple, ast.Dict, ast.Set,
                          ast.ListComp, ast.DictComp, ast.SetComp, ast.GeneratorExp, ast.Compare, ast.UnaryOp, ast.BoolOp)):
            if isinstance(e, ast.BoolOp):
                outs = {self.expr(v, env, fnctx, depth) for v in e.values}
                return next(iter(outs)) if len(outs) == 1 else UNKNOWN
            return CHANGED
        return UNKNOWN

    def fold(self, names, kind, fnctx, depth):
        """a value of the kind piped through the functions named, first to last"""
        for nm in names:
            r = self.p.resolve_name(fnctx.module, nm)
            f = r[1] if r and r[0] == "func" else None
            if f is None and fnctx.cls is not None:
                m = fnctx.cls.lookup(nm)
                f = m[2] if m and m[1] == "method" else None
            if f is None:
                cands = [m.functions[nm] for m in self.p.modules.values() if m.in_scope and nm in m.functions]
                f = cands[0] if len(cands) == 1 else None
            if f is None:
                return UNKNOWN
            o = self.apply(f, kind, depth + 1)
            if o == {PASS}:
                continue
            return CHANGED if o == {CHANGED} else UNKNOWN
        return PASS

    # ------------------------------------------------------------------ statements
    def block(self, stmts, env, fnctx, depth, outs, sink=False, budget=None):
        """Interpret a statement list; returns the environments that fall through its end."""
        envs = [env]
        for st in stmts:
            nxt = []
            for en in envs:
                nxt += self.stmt(st, en, fnctx, depth, outs, sink)
            envs = nxt[:64]
            if not envs:
                break
        return envs

    def stmt(self, st, env, fnctx, depth, outs, sink):
        if isinstance(st, ast.Return):
            outs.add(CHANGED if st.value is None else self.expr(st.value, env, fnctx, depth))
            return []
        if isinstance(st, (ast.Raise, ast.Continue, ast.Break)):
            return []
        if isinstance(st, ast.If):
            t = self.tv(st.test, env, fnctx)
            res = []
            if t is not False:
                res += self.block(st.body, dict(env), fnctx, depth, outs, sink)
            if t is not True:
                res += self.block(st.orelse, dict(env), fnctx, depth, outs, sink)
            return res
        if isinstance(st, (ast.Assign, ast.AnnAssign)) and st.value is not None:
            tgs = st.targets if isinstance(st, ast.Assign) else [st.target]
            o = self.expr(st.value, env, fnctx, depth) if self._tracked(st.value, env) else None
            new = dict(env)
            for t in tgs:
                if isinstance(t, ast.Name):
                    if o is None:
                        tvv = self.tv(st.value, env, fnctx) if isinstance(st.value, (ast.Call, ast.Compare, ast.BoolOp, ast.UnaryOp)) else None
                        if t.id in new or tvv is not None:
                            new[t.id] = ("bool", tvv) if tvv is not None else CHANGED
                    elif o == PASS:
                        k = self._kind_of(st.value, env)
                        new[t.id] = (_LIVE, k) if k is not None else UNKNOWN
                        if k is None and isinstance(st.value, ast.Call):
                            # f(value) that provably returns its argument: the result is the same value
                            a0 = st.value.args[0] if st.value.args else None
                            k0 = self._kind_of(a0, env) if a0 is not None else None
                            new[t.id] = (_LIVE, k0) if k0 is not None else UNKNOWN
                    else:
                        tvv = self.tv(st.value, env, fnctx)
                        new[t.id] = ("bool", tvv) if tvv is not None else o
                elif sink and isinstance(t, ast.Subscript) and o is not None:
                    outs.add(o)
            return [new]
        if isinstance(st, (ast.For, ast.AsyncFor, ast.While)):
            new = dict(env)
            if not isinstance(st, ast.While):
                for x in ast.walk(st.target):
                    if isinstance(x, ast.Name) and x.id in new:
                        new[x.id] = UNKNOWN
            res = self.block(st.body, dict(new), fnctx, depth, outs, sink)
            return [new] + res[:8]
        if isinstance(st, (ast.With, ast.AsyncWith)):
            return self.block(st.body, env, fnctx, depth, outs, sink)
        if isinstance(st, ast.Try):
            res = self.block(st.body, dict(env), fnctx, depth, outs, sink)
            for h in st.handlers:
                res += self.block(h.body, dict(env), fnctx, depth, outs, sink)
            out = []
            for en in res:
                out += self.block(st.orelse + st.finalbody, en, fnctx, depth, outs, sink) if (st.orelse or st.finalbody) else [en]
            return out
        if isinstance(st, ast.AugAssign) and isinstance(st.target, ast.Name) and st.target.id in env:
            new = dict(env)
            new[st.target.id] = CHANGED
            return [new]
        return [env]

    # ------------------------------------------------------------------ entry points
    def _data_param(self, v: FuncInfo):
        ps = [x for x in v.params if not (v.cls is not None and v.kind != "staticmethod" and x == v.params[0])]
        return ps[0] if ps else None

    def apply(self, fn: FuncInfo, kind, depth=0) -> frozenset:
        key = (id(fn.node), kind)
        if key in self.memo:
            return self.memo[key]
        self.memo[key] = frozenset([UNKNOWN])  # recursion guard
        v = self.ctx.view(fn) if hasattr(self.ctx, "view") else fn
        prm = self._data_param(v)
        outs: set = set()
        if prm is None or depth > 6:
            outs.add(UNKNOWN)
        else:
            rest = self.block(v.node.body, {prm: (_LIVE, kind)}, v, depth, outs)
            if rest:
                outs.add(CHANGED)  # falls off the end: returns None
        self.memo[key] = frozenset(outs)
        return self.memo[key]

    def sink(self, fn: FuncInfo, kind, depth=0) -> frozenset:
        """Outcomes for a value of the kind held under a key of the dictionary a walker (demote / stringify) is given."""
        v = self.ctx.view(fn) if hasattr(self.ctx, "view") else fn
        prm = self._data_param(v)
        outs: set = set()
        found = False

        def items_of(it):
            return isinstance(it, ast.Call) and isinstance(it.func, ast.Attribute) and it.func.attr == "items" and unparse(it.func.value) == prm

        for n in ast.walk(v.node):
            if isinstance(n, ast.For) and items_of(n.iter) and isinstance(n.target, ast.Tuple) and len(n.target.elts) == 2 and isinstance(n.target.elts[1], ast.Name):
                found = True
                self.block(n.body, {n.target.elts[1].id: (_LIVE, kind)}, v, depth, outs, sink=True)
            elif isinstance(n, (ast.DictComp, ast.ListComp, ast.GeneratorExp)) and n.generators and items_of(n.generators[0].iter) \
                    and isinstance(n.generators[0].target, ast.Tuple) and len(n.generators[0].target.elts) == 2 and isinstance(n.generators[0].target.elts[1], ast.Name):
                found = True
                val = n.value if isinstance(n, ast.DictComp) else (n.elt.elts[1] if isinstance(n.elt, ast.Tuple) and len(n.elt.elts) == 2 else n.elt)
                outs.add(self.expr(val, {n.generators[0].target.elts[1].id: (_LIVE, kind)}, v, depth))
        if not found:
            # a thin wrapper: `return other(var)`
            for r in ast.walk(v.node):
                if isinstance(r, ast.Return) and isinstance(r.value, ast.Call) and r.value.args and unparse(r.value.args[0]) == prm:
                    tgt = self._target(v, r.value)
                    if tgt is not None and tgt.node is not fn.node and depth < 4:
                        return self.sink(tgt, kind, depth + 1)
            return frozenset([UNKNOWN])
        return frozenset(outs) if outs else frozenset([UNKNOWN])
