"""C14 helpers: facts about the mapper functions and the pipeline functions that do not depend on how the code is spelled.

* `Flow` — reaching definitions on the CFG of one function; `resolve(expr)` replaces a local by the expression that
  defines it AT THAT POINT (works for re-bound names: `x = demote(u); x = stringify(x); dump(x)`), so aliases, temporaries
  and values read once into a local compare equal to the direct form.
* `closure` — a function together with the private helpers it calls (transitively), each with hoisted literal
  constants substituted: a site is searched in the function AND the helpers extracted from it.
* `function_list` — the ordered list of functions a `dict_mapper(value, <list>)` argument denotes (literal, local,
  module / class constant, copies, concatenations).
* `result_leaves`, `compared_tokens`, `bool_table` — what a small mapper returns / which constants it recognises /
  the truth table of a condition over named atoms.
"""

from __future__ import annotations

import ast
import copy
import itertools

from ..cfg import CFG, forward
from ..model import AnalysisError, FuncInfo, unparse


# ------------------------------------------------------------------------------------------------ reaching definitions
class _State:
    """name -> set of definition ids (wrapped: cfg.forward gives plain dicts another meaning)"""

    __slots__ = ("d",)

    def __init__(self, d):
        self.d = d

    def __eq__(self, other):
        return isinstance(other, _State) and self.d == other.d

    def __ne__(self, other):
        return not self.__eq__(other)

    __hash__ = None


class Flow:
    """Reaching definitions of the simple locals of one function (statement-level CFG, union at joins)."""

    def __init__(self, fn_node):
        self.fn = fn_node
        self.g = CFG(fn_node)
        self.defs: list = []  # (name, expr | None, cfg node)
        self.at: dict = {}  # id(ast node) -> cfg node evaluating it
        self.comp_bound: set = set()
        a = fn_node.args
        self.params = [x.arg for x in a.posonlyargs + a.args + a.kwonlyargs] + [x.arg for x in (a.vararg, a.kwarg) if x]
        for n in ast.walk(fn_node):
            if isinstance(n, ast.comprehension):
                self.comp_bound |= {x.id for x in ast.walk(n.target) if isinstance(x, ast.Name)}
        gen: dict = {}
        for node in self.g.nodes:
            out = []
            for part in self._parts(node):
                for x in ast.walk(part):
                    self.at.setdefault(id(x), node)
            src = node.ast
            if node.kind == "stmt" and isinstance(src, (ast.Assign, ast.AnnAssign)) and src.value is not None:
                for t in (src.targets if isinstance(src, ast.Assign) else [src.target]):
                    if isinstance(t, ast.Name):
                        out.append((t.id, src.value))
                    else:
                        out += [(x.id, None) for x in ast.walk(t) if isinstance(x, ast.Name) and isinstance(x.ctx, ast.Store)]
            elif node.kind == "stmt" and isinstance(src, ast.AugAssign):
                out += [(x.id, None) for x in ast.walk(src.target) if isinstance(x, ast.Name)]
            elif node.kind == "fornext":
                out += [(x.id, None) for x in ast.walk(src) if isinstance(x, ast.Name)]
            elif node.kind == "with":
                for it in src.items:
                    if isinstance(it.optional_vars, ast.Name):
                        out.append((it.optional_vars.id, it.context_expr))
                    elif it.optional_vars is not None:
                        out += [(x.id, None) for x in ast.walk(it.optional_vars) if isinstance(x, ast.Name)]
            elif node.kind == "except" and getattr(src, "name", None):
                out.append((src.name, None))
            for part in self._parts(node):
                for x in ast.walk(part):
                    if isinstance(x, ast.NamedExpr) and isinstance(x.target, ast.Name):
                        out.append((x.target.id, None))
            ids = []
            for nm, e in out:
                self.defs.append((nm, e, node))
                ids.append(len(self.defs) - 1)
            gen[node] = ids
        init = {}
        for prm in self.params:
            self.defs.append((prm, None, self.g.entry))
            init[prm] = frozenset([len(self.defs) - 1])

        def transfer(node, st):
            if not gen[node]:
                return st
            new = dict(st.d)
            for i in gen[node]:
                new[self.defs[i][0]] = frozenset([i])
            return _State(new)

        def join(a_, b_):
            if a_ == b_:
                return a_
            out = dict(a_.d)
            for k, v in b_.d.items():
                out[k] = out.get(k, frozenset()) | v
            return _State(out)

        self.IN = {n: s.d for n, s in forward(self.g, _State(init), transfer, join).items()}

    @staticmethod
    def _parts(node):
        src = node.ast
        if src is None or isinstance(src, list):
            return []
        if node.kind == "with":
            return [it.context_expr for it in src.items]
        if node.kind == "except":
            return [src.type] if getattr(src, "type", None) is not None else []
        if node.kind == "def":
            return []
        return [src]

    def node_of(self, expr):
        return self.at.get(id(expr))

    def definition(self, name_node, at=None):
        """(defining expression, cfg node of the definition) of a Name load when exactly one simple binding reaches it."""
        at = at or self.node_of(name_node)
        if at is None or name_node.id in self.comp_bound:
            return None
        ds = self.IN.get(at, {}).get(name_node.id)
        if not ds or len(ds) != 1:
            return None
        nm, e, dn = self.defs[next(iter(ds))]
        return (e, dn) if e is not None else None

    def resolve(self, expr, at=None, _depth=0):
        """`expr` with every local that has ONE reaching simple definition replaced (recursively) by that definition."""
        at = at or self.node_of(expr)
        if at is None or _depth > 8:
            return expr
        flow = self

        class R(ast.NodeTransformer):
            def visit_Name(self, n):
                if isinstance(n.ctx, ast.Load):
                    d = flow.definition(n, at)
                    if d is not None:
                        return ast.copy_location(flow.resolve(copy.deepcopy(d[0]), d[1], _depth + 1), n)
                return n

        return R().visit(copy.deepcopy(expr))

    def text(self, expr, at=None) -> str:
        return unparse(self.resolve(expr, at))


def flow_of(ctx, fn: FuncInfo) -> Flow:
    key = ("c14.flow", id(fn.node))
    if key not in ctx.cache:
        ctx.cache[key] = Flow(fn.node)
    return ctx.cache[key]


# ------------------------------------------------------------------------------------------------ helpers of a function
def call_name(c) -> str | None:
    f = c.func
    return f.attr if isinstance(f, ast.Attribute) else getattr(f, "id", None)


def _callee(p, fn: FuncInfo, call):
    """FuncInfo of a private helper (`self._h` / `cls._h` / `Class._h` / module-level `_h`) called from fn."""
    f = call.func
    name = call_name(call)
    if not name or not name.startswith("_") or name.startswith("__"):
        return None
    if isinstance(f, ast.Attribute) and isinstance(f.value, ast.Name):
        owner = None
        if fn.cls is not None and f.value.id in ("self", "cls", fn.self_name):
            owner = fn.cls
        else:
            r = p.resolve_name(fn.module, f.value.id)
            if r and r[0] == "class":
                owner = r[1]
        if owner is not None:
            m = owner.lookup(name)
            if m and m[1] == "method":
                return m[2]
            if m and m[1] == "prop":
                return m[2].getter
    elif isinstance(f, ast.Name):
        r = p.resolve_name(fn.module, name)
        if r and r[0] == "func":
            return r[1]
    return None


def raw_closure(p, fn: FuncInfo, depth: int = 4) -> list:
    """fn and the private helpers it reaches (FuncInfo as parsed: source positions are those of the files)."""
    out, todo = [fn], [(fn, 0)]
    while todo:
        cur, lvl = todo.pop(0)
        if lvl >= depth:
            continue
        for c in ast.walk(cur.node):
            tgt = None
            if isinstance(c, ast.Call):
                tgt = _callee(p, cur, c)
            elif isinstance(c, ast.Attribute) and isinstance(c.ctx, ast.Load) and isinstance(c.value, ast.Name) and c.attr.startswith("_") \
                    and not c.attr.startswith("__") and cur.cls is not None and c.value.id in ("self", "cls", cur.self_name):
                m = cur.cls.lookup(c.attr)  # a private property read
                if m and m[1] == "prop":
                    tgt = m[2].getter
            if tgt is not None and all(tgt.node is not o.node for o in out):
                out.append(tgt)
                todo.append((tgt, lvl + 1))
    return out


def closure(ctx, fn: FuncInfo, inline: bool = False) -> list:
    """Views (hoisted constants substituted; helpers NOT expanded unless inline) of fn and of its private helpers."""
    return [ctx.view(f, inline=inline) if hasattr(ctx, "view") else f for f in raw_closure(ctx.p, fn)]


# ------------------------------------------------------------------------------------------------ lists of functions
def _local_value(fn_node, name):
    """The expression(s) a local name is bound to by simple assignments in fn (any position)."""
    vals = []
    for n in ast.walk(fn_node):
        if isinstance(n, (ast.Assign, ast.AnnAssign)) and n.value is not None:
            for t in (n.targets if isinstance(n, ast.Assign) else [n.target]):
                if isinstance(t, ast.Name) and t.id == name:
                    vals.append(n.value)
        elif isinstance(n, ast.NamedExpr) and isinstance(n.target, ast.Name) and n.target.id == name:
            vals.append(n.value)
    return vals


def function_list(p, fn: FuncInfo, expr, _depth=0):
    """(names, literal node, module of the literal) for an expression denoting a fixed ordered list of functions:
    a list / tuple literal of names, a local / module constant / class constant bound to one, `list(x)`, `tuple(x)`,
    `x.copy()`, `[*x, f]`, `x + [f]`.  None when the expression is something else (a parameter, a computed list)."""
    if _depth > 6:
        return None
    if isinstance(expr, (ast.List, ast.Tuple)):
        names = []
        for e in expr.elts:
            if isinstance(e, ast.Starred):
                sub = function_list(p, fn, e.value, _depth + 1)
                if sub is None:
                    return None
                names += sub[0]
            elif isinstance(e, (ast.Name, ast.Attribute)):
                r = p.resolve_expr(fn.module, e)
                names.append(r[1].name if r and r[0] == "func" else (e.id if isinstance(e, ast.Name) else e.attr))
            else:
                return None
        return names, expr, fn.module
    if isinstance(expr, ast.BinOp) and isinstance(expr.op, ast.Add):
        l, r = function_list(p, fn, expr.left, _depth + 1), function_list(p, fn, expr.right, _depth + 1)
        return (l[0] + r[0], expr, fn.module) if l and r else None
    if isinstance(expr, ast.Call):
        nm = call_name(expr)
        if isinstance(expr.func, ast.Name) and nm in ("list", "tuple") and len(expr.args) == 1 and not expr.keywords:
            return function_list(p, fn, expr.args[0], _depth + 1)
        if isinstance(expr.func, ast.Attribute) and nm == "copy" and not expr.args:
            return function_list(p, fn, expr.func.value, _depth + 1)
        if nm in ("copy", "deepcopy") and len(expr.args) == 1:
            return function_list(p, fn, expr.args[0], _depth + 1)
        # a function of the package that only returns the table
        tgt = _callee(p, fn, expr)
        if tgt is None and isinstance(expr.func, ast.Name):
            r = p.resolve_name(fn.module, expr.func.id)
            tgt = r[1] if r and r[0] == "func" else None
        if tgt is not None and not expr.args and not expr.keywords:
            rets = [x for x in ast.walk(tgt.node) if isinstance(x, ast.Return)]
            if len(rets) == 1 and rets[0].value is not None:
                return function_list(p, tgt, rets[0].value, _depth + 1)
        return None
    if isinstance(expr, ast.Name):
        if expr.id in fn.params:
            return None
        vals = _local_value(fn.node, expr.id)
        if vals:
            got = [function_list(p, fn, v, _depth + 1) for v in vals]
            if all(g is not None for g in got) and all(g[0] == got[0][0] for g in got):
                return got[0]
            return None
        r = p.resolve_name(fn.module, expr.id)
        if r and r[0] == "assign":
            mod, v = r[1]
            holder = FuncInfo(name=fn.name, module=mod, node=ast.parse("def _(): pass").body[0])
            got = function_list(p, holder, v, _depth + 1)
            return (got[0], got[1], mod) if got else None
        return None
    if isinstance(expr, ast.Attribute) and isinstance(expr.value, ast.Name):
        owner = None
        if fn.cls is not None and expr.value.id in ("self", "cls", fn.self_name):
            owner = fn.cls
        else:
            r = p.resolve_name(fn.module, expr.value.id)
            if r and r[0] == "class":
                owner = r[1]
        if owner is not None:
            m = owner.lookup(expr.attr)
            if m and m[1] == "assign" and m[2] is not None:
                holder = FuncInfo(name=fn.name, module=m[0].module, node=ast.parse("def _(): pass").body[0], cls=m[0])
                got = function_list(p, holder, m[2], _depth + 1)
                return (got[0], got[1], m[0].module) if got else None
    return None


def applied_lists(p, fn: FuncInfo, applier: str = "dict_mapper") -> list:
    """Every fixed function list that fn (or a private helper of it) hands to `applier(value, <list>)`, or pipes a value
    through itself (`for f in <list>: v = f(v)`): [(names, literal node, module, owner FuncInfo)]."""
    out = []
    for f in raw_closure(p, fn):
        for c in ast.walk(f.node):
            if isinstance(c, ast.Call) and call_name(c) == applier:
                arg = c.args[1] if len(c.args) > 1 else next((k.value for k in c.keywords if k.arg in ("string_funcs", "funcs", "mappers")), None)
                if arg is None:
                    raise AnalysisError(f"{f.where}: {applier}(...) call at line {c.lineno} without a function list")
                got = function_list(p, f, arg)
                if got is None:
                    raise AnalysisError(f"{f.where}: unrecognised mapper list `{unparse(arg)[:60]}` handed to {applier} at line {c.lineno}")
                out.append(got + (f,))
            elif isinstance(c, ast.For) and isinstance(c.target, ast.Name):
                called = any(isinstance(x, ast.Call) and isinstance(x.func, ast.Name) and x.func.id == c.target.id for s in c.body for x in ast.walk(s))
                got = function_list(p, f, c.iter) if called else None
                if got is not None:
                    out.append(got + (f,))
    return out


# ------------------------------------------------------------------------------------------------ small mappers
def result_leaves(fn_node, flow: Flow | None = None) -> list:
    """The alternatives a function can return: returned expressions with locals resolved and conditional expressions
    split into their branches."""
    flow = flow or Flow(fn_node)
    out = []

    def split(e):
        if isinstance(e, ast.IfExp):
            split(e.body)
            split(e.orelse)
        elif isinstance(e, ast.BoolOp):
            for v in e.values:
                split(v)
        else:
            out.append(e)

    for r in ast.walk(fn_node):
        if isinstance(r, ast.Return):
            if r.value is None:
                out.append(ast.Constant(value=None))
                continue
            e = r.value
            # a local returned: every definition reaching the return is an alternative
            if isinstance(e, ast.Name) and flow.node_of(e) is not None and e.id not in flow.comp_bound:
                ds = flow.IN.get(flow.node_of(e), {}).get(e.id) or ()
                exprs = [flow.defs[i] for i in ds]
                if exprs and all(x[1] is not None for x in exprs):
                    for _nm, de, dn in exprs:
                        split(flow.resolve(de, dn))
                    continue
                if any(x[1] is not None for x in exprs):
                    for _nm, de, dn in exprs:
                        split(flow.resolve(de, dn) if de is not None else e)
                    continue
            split(flow.resolve(e))
    return out


def _const_elts(node):
    if isinstance(node, (ast.List, ast.Tuple, ast.Set)) and all(isinstance(e, ast.Constant) for e in node.elts):
        return [e.value for e in node.elts]
    if isinstance(node, ast.Dict) and node.keys and all(isinstance(k, ast.Constant) for k in node.keys):
        return [k.value for k in node.keys]
    return None


def mentions(expr, name) -> bool:
    return any(isinstance(x, ast.Name) and x.id == name for x in ast.walk(expr))


def compared_tokens(fn_node, prm: str, flow: Flow | None = None) -> list:
    """Constants the parameter (or a local derived from it) is compared with by value: `p == c`, `c == p`, `p in [c, ..]`,
    `p in {c: ..}`, `{c: ..}.get(p, ..)`, `{c: ..}[p]` — in order of first appearance, without duplicates."""
    flow = flow or Flow(fn_node)
    toks = []

    def same_value(e):
        """the parameter itself, possibly re-spelled (str(p), p.decode(..), p.strip())"""
        if isinstance(e, ast.Name):
            return e.id == prm
        if isinstance(e, ast.Call) and isinstance(e.func, ast.Name) and e.func.id == "str" and len(e.args) == 1:
            return same_value(e.args[0])
        if isinstance(e, ast.Call) and isinstance(e.func, ast.Attribute) and e.func.attr in ("decode", "strip"):
            return same_value(e.func.value)
        return False

    def is_prm(e):
        if isinstance(e, ast.Name):
            return e.id == prm or same_value(flow.resolve(e))
        return same_value(e)

    def add(vals):
        for v in vals:
            if v not in toks:
                toks.append(v)

    for n in ast.walk(fn_node):
        if isinstance(n, ast.Compare) and len(n.ops) == 1:
            l, r, op = n.left, n.comparators[0], n.ops[0]
            if isinstance(op, (ast.Eq, ast.NotEq)):
                if is_prm(l) and isinstance(r, ast.Constant):
                    add([r.value])
                elif is_prm(r) and isinstance(l, ast.Constant):
                    add([l.value])
            elif isinstance(op, (ast.In, ast.NotIn)) and is_prm(l):
                cont = r if _const_elts(r) is not None else flow.resolve(r)
                if _const_elts(cont) is not None:
                    add(_const_elts(cont))
        elif isinstance(n, ast.Call) and isinstance(n.func, ast.Attribute) and n.func.attr == "get" and n.args and is_prm(n.args[0]):
            cont = flow.resolve(n.func.value)
            if isinstance(cont, ast.Dict) and _const_elts(cont) is not None:
                add(_const_elts(cont))
        elif isinstance(n, ast.Subscript) and isinstance(n.ctx, ast.Load) and is_prm(n.slice):
            cont = flow.resolve(n.value)
            if isinstance(cont, ast.Dict) and _const_elts(cont) is not None:
                add(_const_elts(cont))
    return toks


def str_constants(expr) -> set:
    return {c.value for c in ast.walk(expr) if isinstance(c, ast.Constant) and isinstance(c.value, str)}


# ------------------------------------------------------------------------------------------------ conditions
class NotBoolean(Exception):
    pass


def bool_table(test, atom_of):
    """(atoms, function) for a condition built from not / and / or / `is True|False` / `== True|False` over leaves for which
    atom_of(leaf) gives a name; the function maps an assignment {atom: bool} to the value of the condition.
    Raises NotBoolean when a leaf is not an atom."""
    atoms: list = []

    def build(e):
        if isinstance(e, ast.UnaryOp) and isinstance(e.op, ast.Not):
            f = build(e.operand)
            return lambda env: not f(env)
        if isinstance(e, ast.BoolOp):
            fs = [build(v) for v in e.values]
            if isinstance(e.op, ast.And):
                return lambda env: all(f(env) for f in fs)
            return lambda env: any(f(env) for f in fs)
        if isinstance(e, ast.Compare) and len(e.ops) == 1 and isinstance(e.comparators[0], ast.Constant) and isinstance(e.comparators[0].value, bool) \
                and isinstance(e.ops[0], (ast.Is, ast.IsNot, ast.Eq, ast.NotEq)):
            f = build(e.left)
            want = e.comparators[0].value
            same = isinstance(e.ops[0], (ast.Is, ast.Eq))
            return lambda env: (bool(f(env)) == want) == same
        if isinstance(e, ast.Call) and isinstance(e.func, ast.Name) and e.func.id == "bool" and len(e.args) == 1:
            return build(e.args[0])
        a = atom_of(e)
        if a is None:
            raise NotBoolean(unparse(e)[:60])
        if a not in atoms:
            atoms.append(a)
        return lambda env: env[a]

    return atoms, build(test)


def assignments(atoms):
    for vals in itertools.product((False, True), repeat=len(atoms)):
        yield dict(zip(atoms, vals))
