"""Semantic predicates of the C15 rules, built on the path unfolding of _c15_sym (nothing is executed).

* `dependency_table(fn_node)`  — the truth table of `dependency_requires_value` over its elementary conditions,
  compared with the documented rule; layout, local names, guard clauses, De Morgan, xor-style negation do not matter.
* `silent_kinds(...)`          — value kinds for which AssociationValidator.validate can return without the
  membership check (three-valued isinstance facts on the paths).
* `layers(expr)`               — the precedence layers of a merged mapping (`{**a, **b}`, `dict(a, **b)`, `a | b`,
  copy / deepcopy wrappers, `x.update(b)` as unfolded by the executor): later layers win.
"""

from __future__ import annotations

import ast
import itertools

from ..model import AnalysisError, unparse
from ._c15_sym import Executor, key_of

# --------------------------------------------------------------------------------------------- (a) dependency rule

_SPEC_LEAVES = ("opt", "dt", "state:enabled", "state:value", "has_opt", "form_enabled")


def _const_str(e):
    return e.value if isinstance(e, ast.Constant) and isinstance(e.value, str) else None


class _Forms:
    """Recognise the two forms the function reads, structurally, in expressions whose locals were substituted:
    the parameter's own form `u[p]` and the driving parameter's form `u[u[p]["dependency"]]`."""

    def __init__(self, u, p):
        self.u, self.p = u, p

    def own(self, e):
        return isinstance(e, ast.Subscript) and isinstance(e.value, ast.Name) and e.value.id == self.u and isinstance(e.slice, ast.Name) and e.slice.id == self.p

    def dep_name(self, e):
        if isinstance(e, ast.Subscript) and self.own(e.value) and _const_str(e.slice) == "dependency":
            return True
        return isinstance(e, ast.Call) and isinstance(e.func, ast.Attribute) and e.func.attr == "get" and self.own(e.func.value) and bool(e.args) \
            and _const_str(e.args[0]) == "dependency"

    def driver(self, e):
        return isinstance(e, ast.Subscript) and isinstance(e.value, ast.Name) and e.value.id == self.u and self.dep_name(e.slice)

    def which(self, e):
        return "form" if self.own(e) else "driver" if self.driver(e) else None

    def read(self, e):
        """(which form, member, how, default expr | None) for `X.get("m"[, d])`, `X["m"]`, `"m" in X`, `truth(u, name, "m")`."""
        if isinstance(e, ast.Call) and isinstance(e.func, ast.Attribute) and e.func.attr == "get" and e.args and _const_str(e.args[0]) is not None:
            w = self.which(e.func.value)
            if w:
                return (w, e.args[0].value, "get", e.args[1] if len(e.args) > 1 else None)
        if isinstance(e, ast.Subscript) and _const_str(e.slice) is not None:
            w = self.which(e.value)
            if w:
                return (w, e.slice.value, "item", None)
        if isinstance(e, ast.Compare) and len(e.ops) == 1 and isinstance(e.ops[0], ast.In) and _const_str(e.left) is not None:
            w = self.which(e.comparators[0])
            if w:
                return (w, e.left.value, "in", None)
        if isinstance(e, ast.Call) and isinstance(e.func, ast.Name) and e.func.id == "truth" and len(e.args) == 3 and _const_str(e.args[2]) is not None \
                and isinstance(e.args[0], ast.Name) and e.args[0].id == self.u:
            w = "form" if isinstance(e.args[1], ast.Name) and e.args[1].id == self.p else "driver" if self.dep_name(e.args[1]) else None
            if w:
                return (w, e.args[2].value, "get", ast.Constant(value=False))
        return None

    def leaf(self, e):
        """(leaf key, negated) for the elementary conditions of the documented rule, else None."""
        if isinstance(e, ast.Compare) and len(e.ops) == 1 and isinstance(e.ops[0], (ast.Eq, ast.Is)):
            a, b = e.left, e.comparators[0]
            if _const_str(a) is not None:
                a, b = b, a
            r = self.read(a)
            if r and r[0] == "form" and r[1] == "dependencyType" and r[2] in ("get", "item") and _const_str(b) in ("enabled", "disabled"):
                if r[2] == "get" and _const_str(r[3]) != "enabled":
                    return (f"dt:default={unparse(r[3]) if r[3] is not None else 'None'}:{b.value}", False)
                return ("dt", b.value == "disabled")
        r = self.read(e)
        if r is None:
            return None
        w, m, how, dflt = r
        if w == "driver":
            if m == "optional" and how in ("get", "item"):
                if how == "item" or dflt is None or (isinstance(dflt, ast.Constant) and not dflt.value):
                    return ("opt", False)
                return (f"opt:default={unparse(dflt)}", False)
            if how == "in":
                return ("opt_in" if m == "optional" else f"in:{m}:driver", False)
            if how == "get" and isinstance(dflt, ast.Constant) and dflt.value is True:
                return (f"state:{m}", False)
            return (f"state:{m}:{'item' if how == 'item' else 'default=' + (unparse(dflt) if dflt is not None else 'None')}", False)
        if how == "in":
            return ("has_opt" if m == "optional" else f"in:{m}:form", False)
        if m == "enabled" and how == "item":
            return ("form_enabled", False)
        return (f"form:{m}:{how}" + (f":default={unparse(dflt)}" if dflt is not None else ""), False)


def _boolish(e) -> bool:
    return isinstance(e, (ast.Compare, ast.BoolOp)) or (isinstance(e, ast.UnaryOp) and isinstance(e.op, ast.Not)) or \
        (isinstance(e, ast.Constant) and isinstance(e.value, bool)) or \
        (isinstance(e, ast.Call) and isinstance(e.func, ast.Name) and e.func.id == "bool")


def evalb(e, val, leaf):
    """Truthiness of `e` under the assignment `val` (leaf key -> bool); sub-expressions are all evaluated (no short
    circuit) so that a recording assignment sees every leaf."""
    lf = leaf(e)
    if lf is not None:
        return val[lf[0]] != lf[1]
    if isinstance(e, ast.Constant):
        return bool(e.value)
    if isinstance(e, ast.UnaryOp) and isinstance(e.op, ast.Not):
        return not evalb(e.operand, val, leaf)
    if isinstance(e, ast.BoolOp):
        vs = [evalb(v, val, leaf) for v in e.values]
        return all(vs) if isinstance(e.op, ast.And) else any(vs)
    if isinstance(e, ast.BinOp) and isinstance(e.op, (ast.BitAnd, ast.BitOr, ast.BitXor)):
        a, b = evalb(e.left, val, leaf), evalb(e.right, val, leaf)
        return (a and b) if isinstance(e.op, ast.BitAnd) else (a or b) if isinstance(e.op, ast.BitOr) else (a != b)
    if isinstance(e, ast.IfExp):
        t, a, b = evalb(e.test, val, leaf), evalb(e.body, val, leaf), evalb(e.orelse, val, leaf)
        return a if t else b
    if isinstance(e, ast.Call) and isinstance(e.func, ast.Name) and e.func.id == "bool" and len(e.args) == 1:
        return evalb(e.args[0], val, leaf)
    if isinstance(e, ast.Compare) and len(e.ops) == 1 and isinstance(e.ops[0], (ast.Eq, ast.NotEq, ast.Is, ast.IsNot)):
        a, b = e.left, e.comparators[0]
        same = isinstance(e.ops[0], (ast.Eq, ast.Is))
        for x, y in ((a, b), (b, a)):
            if isinstance(y, ast.Constant) and isinstance(y.value, bool) and (leaf(x) is not None or _boolish(x)):
                return (evalb(x, val, leaf) == y.value) == same
        if _boolish(a) and _boolish(b):
            return (evalb(a, val, leaf) == evalb(b, val, leaf)) == same
    k = "x:" + key_of(e)
    if isinstance(val, _Recorder):
        val.exprs[k] = e
    return val[k]


def _driver_member(k):
    """Member of the driving form a non-documented elementary condition reads, else None."""
    if k == "opt_in" or k.startswith("opt:"):
        return "optional"
    if k.startswith("state:"):
        return k.split(":")[1]
    if k.startswith("in:") and k.endswith(":driver"):
        return k.split(":")[1]
    return None


class _Recorder(dict):
    exprs: dict

    def __init__(self):
        super().__init__()
        self.exprs = {}

    def __missing__(self, k):
        self[k] = False
        return False


class DependencyVerdict:
    def __init__(self):
        self.paths = 0
        self.leaves: list = []
        self.selector: list = []  # [(construct, message)]
        self.polarity: list = []
        self.other: list = []


def dependency_table(fn_node, resolver=None, opaque=lambda call: False) -> DependencyVerdict:
    """Compare `dependency_requires_value` with the documented rule on every assignment of its elementary conditions:

        state    = driver.get("enabled", True) if driver.get("optional") else driver.get("value", True)
        required = state if dependencyType (default "enabled") == "enabled" else not state
        result   = form["enabled"] if ("optional" in form and required) else required
    """
    a = fn_node.args
    ps = [x.arg for x in a.posonlyargs + a.args]
    if len(ps) < 2:
        raise AnalysisError("dependency_requires_value: (ui_json, parameter) signature not recognised")
    forms = _Forms(ps[0], ps[1])
    outs = Executor(resolver).run(fn_node)
    v = DependencyVerdict()
    v.paths = len(outs)
    if not any(o.kind == "return" for o in outs):
        raise AnalysisError("dependency_requires_value: no returning path")
    rec = _Recorder()
    for o in outs:
        for e, _ in o.conds:
            evalb(e, rec, forms.leaf)
        if o.kind == "return" and o.value is not None:
            evalb(o.value, rec, forms.leaf)
    extra = sorted(k for k in rec if k not in _SPEC_LEAVES)
    leaves = list(_SPEC_LEAVES) + extra
    v.leaves = leaves
    if len(leaves) > 13:
        raise AnalysisError(f"dependency_requires_value: {len(leaves)} elementary conditions — not enumerated")

    def spec(val, sel_inv=False, pol_inv=False):
        s = val["state:enabled"] if val["opt"] != sel_inv else val["state:value"]
        if val["dt"] == pol_inv:
            s = not s
        return val["form_enabled"] if (val["has_opt"] and s) else s

    table = {}
    for bits in itertools.product((False, True), repeat=len(leaves)):
        val = dict(zip(leaves, bits))
        if val.get("opt_in") is False and val["opt"]:
            continue  # a truthy member is present
        res = set()
        for o in outs:
            if all(evalb(e, val, forms.leaf) == pol for e, pol in o.conds):
                if o.kind == "return":
                    res.add(evalb(o.value, val, forms.leaf) if o.value is not None else False)
                elif o.kind == "fall":
                    res.add(False)
                else:
                    res.add("raise")
        if not res:
            raise AnalysisError("dependency_requires_value: an assignment of the conditions follows no path (conditions not understood)")
        if len(res) > 1:
            raise AnalysisError("dependency_requires_value: paths are not disjoint (loop / handler in the rule: not understood)")
        table[bits] = (val, res.pop())

    def differs(**kw):
        return [val for val, r in table.values() if r != spec(val, **kw)]

    bad = differs()
    if not bad:
        return v

    def depends(leaf_name):
        i = leaves.index(leaf_name)
        for bits, (_, r) in table.items():
            other = bits[:i] + (not bits[i],) + bits[i + 1:]
            if other in table and table[other][1] != r:
                return True
        return False

    foreign = [k for k in extra if depends(k)]
    witness = ", ".join(f"{k}={'T' if x else 'F'}" for k, x in bad[0].items() if k in _SPEC_LEAVES or k in foreign)
    if foreign:
        sel = [k for k in foreign if _driver_member(k) is not None]
        dts = [k for k in foreign if k.startswith("dt:")]
        rest = [k for k in foreign if k not in sel and k not in dts]
        if sel:
            members = sorted({_driver_member(k) for k in sel})
            v.selector.append((f"the state selector consults {members}",
                               f"the driver's state depends on {sel} (differs from the documented rule for {witness})"))
        if dts:
            v.polarity.append(("dependencyType polarity / default changed", f"dependencyType is read as {dts} (differs for {witness})"))
        for k in rest:
            for c in ast.walk(rec.exprs.get(k, ast.Constant(value=None))):
                if isinstance(c, ast.Call) and opaque(c):
                    raise AnalysisError(f"dependency_requires_value: the result depends on `{unparse(c.func)}(..)`, a helper that could not be unfolded")
        if rest:
            v.other.append(("the requirement depends on conditions outside the documented rule",
                            f"{[k.split(':', 1)[0] + ':' + k.split(':', 1)[1][:40] for k in rest]} decide the result (differs for {witness})"))
        return v
    if not differs(sel_inv=True):
        v.selector.append(("the state selector is inverted", "an optional driver is read through its value and a checkbox through `enabled`"))
    elif not differs(pol_inv=True):
        v.polarity.append(("dependencyType polarity / default changed",
                           "an 'enabled' dependency must require the value when the driver is on, a 'disabled' one when it is off (default 'enabled')"))
    elif not differs(sel_inv=True, pol_inv=True):
        v.selector.append(("the state selector is inverted", "an optional driver is read through its value and a checkbox through `enabled`"))
        v.polarity.append(("dependencyType polarity / default changed", "polarity swapped"))
    elif not depends("opt"):
        v.selector.append(("the state selector does not consult the driver's `optional` member",
                           f"the driver's state is read from the same member whatever `optional` says (differs for {witness})"))
    elif not depends("dt"):
        v.polarity.append(("dependencyType polarity / default changed", f"the result no longer depends on dependencyType (differs for {witness})"))
    else:
        v.other.append(("the requirement differs from the documented dependency rule", f"differs for {witness}"))
    return v


# --------------------------------------------------------------------------------------------- (c) the switch hierarchy

class HierarchyVerdict:
    def __init__(self):
        self.paths = 0
        self.leaves: list = []
        self.full = False  # the whole hierarchy was compared (deciders present as calls, other conditions are predicates of the form)
        self.enabled_unguarded = None  # witness: the form's own `enabled` decides although the form carries no `optional`
        self.differs = None  # witness: differs from the documented hierarchy


def requires_table(fn_node, deciders: dict, resolver=None) -> HierarchyVerdict:
    """`requires_value` on every assignment of its elementary conditions.

    deciders: function name -> 'group_req' | 'dep_req' (calls `f(ui_json, parameter)` that stay elementary conditions).

    Clause N (always decided, whatever was inlined or extracted): the form's own `enabled` member influences the result only
    when the form carries an `optional` member.
    Clause H (decided when the two deciders are still calls and every other condition is a predicate of the form alone): for
    each value of those predicates the function is the documented hierarchy

        False if "group" in form and not group switch  else  dependency rule if "dependency" in form
        else  own `enabled` (default True) if "optional" in form  else  True

    or constantly True (not a form)."""
    a = fn_node.args
    ps = [x.arg for x in a.posonlyargs + a.args]
    if len(ps) < 2:
        raise AnalysisError("requires_value: (ui_json, parameter) signature not recognised")
    forms = _Forms(ps[0], ps[1])

    def leaf(e):
        if isinstance(e, ast.Call) and isinstance(e.func, ast.Name) and e.func.id in deciders and not e.keywords and len(e.args) == 2 \
                and all(isinstance(x, ast.Name) for x in e.args) and [x.id for x in e.args] == ps[:2]:
            return (deciders[e.func.id], False)
        r = forms.read(e)
        if r is None or r[0] != "form":
            return None
        _, m, how, dflt = r
        if how == "in":
            return ({"group": "has_group", "dependency": "has_dep", "optional": "has_opt"}.get(m, f"in:{m}"), False)
        if m == "enabled":
            if how == "get" and isinstance(dflt, ast.Constant) and dflt.value is True:
                return ("enabled", False)
            return (f"enabled:{how}" + (f":default={unparse(dflt)}" if dflt is not None else ""), False)
        return None

    outs = Executor(resolver).run(fn_node)
    v = HierarchyVerdict()
    v.paths = len(outs)
    if not any(o.kind == "return" for o in outs):
        raise AnalysisError("requires_value: no returning path")
    rec = _Recorder()
    for o in outs:
        for e, _ in o.conds:
            evalb(e, rec, leaf)
        if o.kind == "return" and o.value is not None:
            evalb(o.value, rec, leaf)
    spec_leaves = ("has_group", "group_req", "has_dep", "dep_req", "has_opt", "enabled")
    extra = sorted(k for k in rec if k not in spec_leaves)
    leaves = list(spec_leaves) + extra
    v.leaves = leaves
    if len(leaves) > 14:
        raise AnalysisError(f"requires_value: {len(leaves)} elementary conditions — not enumerated")
    table = {}
    for bits in itertools.product((False, True), repeat=len(leaves)):
        val = dict(zip(leaves, bits))
        res = set()
        for o in outs:
            if all(evalb(e, val, leaf) == pol for e, pol in o.conds):
                if o.kind == "return":
                    res.add(evalb(o.value, val, leaf) if o.value is not None else False)
                else:
                    res.add(False if o.kind == "fall" else "raise")
        if len(res) != 1:
            raise AnalysisError("requires_value: the paths do not partition the conditions (loop / handler in the rule: not understood)")
        table[bits] = res.pop()

    def show(bits):
        return ", ".join(f"{k}={'T' if x else 'F'}" for k, x in zip(leaves, bits) if not k.startswith("x:"))

    # N: without an `optional` member the own `enabled` reads decide nothing
    i_opt = leaves.index("has_opt")
    for i, k in enumerate(leaves):
        if not (k == "enabled" or k.startswith("enabled:")):
            continue
        for bits, r in table.items():
            if not bits[i_opt] and not bits[i]:
                other = bits[:i] + (True,) + bits[i + 1:]
                if table[other] != r:
                    v.enabled_unguarded = show(bits)
                    break
        if v.enabled_unguarded:
            break
    # H
    foreign = [k for k in extra if k.startswith("x:")]

    def form_predicate(k):
        """`f(form)` / `f(form, <things that mention neither ui_json nor the parameter>)`, e.g. is-a-form tests, isinstance(form, dict)"""
        e = rec.exprs.get(k)
        if not (isinstance(e, ast.Call) and isinstance(e.func, ast.Name) and e.args and forms.own(e.args[0]) and not e.keywords):
            return False
        return not any(isinstance(y, ast.Name) and y.id in ps[:2] for x in e.args[1:] for y in ast.walk(x))

    def depends(k):
        i = leaves.index(k)
        return any(table[b] != table[b[:i] + (not b[i],) + b[i + 1:]] for b in table)

    v.full = depends("group_req") and depends("dep_req") and all(k.startswith("x:") and form_predicate(k) for k in extra)
    if v.full and not v.enabled_unguarded:
        def hier(val):
            if val["has_group"] and not val["group_req"]:
                return False
            if val["has_dep"]:
                return val["dep_req"]
            return val["enabled"] if val["has_opt"] else True

        n_spec = len(spec_leaves)
        by_g: dict = {}
        for bits, r in table.items():
            by_g.setdefault(bits[n_spec:], []).append((bits, r))
        some_h = False
        for g, rows in by_g.items():
            is_h = all(r == hier(dict(zip(leaves, bits))) for bits, r in rows)
            is_true = all(r is True for _, r in rows)
            some_h = some_h or is_h
            if not (is_h or is_true):
                bad = next(bits for bits, r in rows if r != hier(dict(zip(leaves, bits))))
                v.differs = show(bad) + f" -> {table[bad]}"
                break
        if not some_h and v.differs is None:
            v.differs = "no form follows the hierarchy"
    return v


# --------------------------------------------------------------------------------------------- (d) the group switch

def _member_read(e):
    """member name for `X["m"]` / `X.get("m"[, d])`, else None."""
    if isinstance(e, ast.Subscript) and _const_str(e.slice) is not None:
        return e.slice.value
    if isinstance(e, ast.Call) and isinstance(e.func, ast.Attribute) and e.func.attr == "get" and e.args and _const_str(e.args[0]) is not None:
        return e.args[0].value
    return None


def group_switch_denials(fn_node, resolver=None, member="groupOptional"):
    """Paths of `group_requires_value` on which the requirement can be denied (a falsy result) although no VALUE of a
    `groupOptional` member was read and found truthy — the switch of a group is the value of that member, not its presence.
    Returns (witnesses, number of paths, number of value reads seen)."""
    def leaf(e):
        m = _member_read(e)
        if m == member:
            return ("B:" + key_of(e), False)
        if m is not None:
            return ("M:" + m + ":" + key_of(e), False)
        return None

    outs = Executor(resolver).run(fn_node)
    if not any(o.kind == "return" for o in outs):
        raise AnalysisError("group_requires_value: no returning path")
    bad, nreads = [], set()
    for o in outs:
        if o.kind not in ("return", "fall"):
            continue
        rec = _Recorder()
        for e, _ in o.conds:
            evalb(e, rec, leaf)
        if o.value is not None:
            evalb(o.value, rec, leaf)
        nreads |= {k for k in rec if k.startswith("B:")}
        free = [k for k in rec if not k.startswith("B:")]
        if len(free) > 14:
            raise AnalysisError("group_requires_value: too many elementary conditions on one path")
        for bits in itertools.product((False, True), repeat=len(free)):
            val = dict(zip(free, bits))
            val.update({k: False for k in rec if k.startswith("B:")})
            if not all(evalb(e, val, leaf) == pol for e, pol in o.conds):
                continue
            r = evalb(o.value, val, leaf) if o.value is not None else False
            if not r:
                members = sorted({k.split(":")[1] for k in free if k.startswith("M:")})
                bad.append((getattr(o.stmt, "lineno", fn_node.lineno), members))
                break
    return bad, len(outs), len(nreads)


# --------------------------------------------------------------------------------------------- (e) per-pair membership

def _strip_iter(it):
    """(iterated expression, wrapper) for enumerate(S..) / zip(..) / list(S) / sorted(S) / tuple(S)."""
    if isinstance(it, ast.Call) and isinstance(it.func, ast.Name) and it.args:
        if it.func.id == "enumerate":
            return it.args[0], "enumerate"
        if it.func.id == "zip":
            return it, "zip"
        if it.func.id in ("list", "sorted", "tuple", "iter", "reversed"):
            return _strip_iter(it.args[0])
    return it, None


def pair_membership_sites(K, methods, table_attr="validations"):
    """Membership tests (`in` / `not in`) evaluated per element of `self.<table_attr>` (a collection of (a, b) pairs) in the given
    methods of class K, with the set of pair components {0, 1} each test depends on.  A test that looks at one component of the
    pair only (the other side being computed once for all pairs) has lost the pairing.
    Returns [(lineno, components used)]."""
    from ..normalize import expanded, single_assignments

    sites = []

    def is_table(e, sn):
        return isinstance(e, ast.Attribute) and e.attr == table_attr and isinstance(e.value, ast.Name) and e.value.id == sn

    def bind(target, how, roles):
        """roles: name -> 'pair' | frozenset of components"""
        if isinstance(target, ast.Name):
            roles[target.id] = how
        elif isinstance(target, (ast.Tuple, ast.List)) and how == "pair" and len(target.elts) == 2:
            for i, t in enumerate(target.elts):
                if isinstance(t, ast.Name):
                    roles[t.id] = frozenset({i})
        elif isinstance(target, (ast.Tuple, ast.List)):
            for t in target.elts:
                bind(t, how if how != "pair" else frozenset({0, 1}), roles)

    def loop_roles(target, it, sn, fn_node, defs):
        base, wrap = _strip_iter(expanded(it, fn_node, defs))
        roles: dict = {}
        if wrap == "enumerate" and isinstance(target, (ast.Tuple, ast.List)) and len(target.elts) == 2:
            inner, _ = _strip_iter(base)
            if is_table(inner, sn):
                bind(target.elts[0], frozenset({0, 1}), roles)
                bind(target.elts[1], "pair", roles)
        elif wrap == "zip" and isinstance(target, (ast.Tuple, ast.List)) and len(target.elts) == len(base.args):
            if any(is_table(_strip_iter(a)[0], sn) for a in base.args):
                for t, a in zip(target.elts, base.args):
                    bind(t, "pair" if is_table(_strip_iter(a)[0], sn) else frozenset({0, 1}), roles)
        elif is_table(base, sn):
            bind(target, "pair", roles)
        return roles

    def components(e, roles):
        used = set()

        def go(n):
            if isinstance(n, ast.Subscript) and isinstance(n.value, ast.Name) and roles.get(n.value.id) == "pair" \
                    and isinstance(n.slice, ast.Constant) and n.slice.value in (0, 1, -1, -2):
                used.add(n.slice.value % 2)
                return
            if isinstance(n, ast.Name) and n.id in roles:
                used.update({0, 1} if roles[n.id] == "pair" else roles[n.id])
                return
            for c in ast.iter_child_nodes(n):
                go(c)

        go(e)
        return used

    def scan(region, roles, fn, depth=0):
        """membership tests in `region` (list of nodes) under the roles; helper calls that receive pair components are followed once."""
        found = False
        fn_node = fn.node
        defs = single_assignments(fn_node)
        for top in region:
            for n in ast.walk(top):
                if isinstance(n, ast.Compare) and any(isinstance(o, (ast.In, ast.NotIn)) for o in n.ops):
                    used = components(expanded(n, fn_node, defs), roles)
                    if used:
                        sites.append((n.lineno, used))
                        found = True
        if found or depth > 0:
            return found
        for top in region:
            for n in ast.walk(top):
                if isinstance(n, ast.Call) and isinstance(n.func, ast.Attribute) and isinstance(n.func.value, ast.Name) and n.func.value.id == fn.self_name:
                    m = K.lookup(n.func.attr)
                    if not (m and m[1] == "method"):
                        continue
                    callee = m[2]
                    prm = callee.params[1:] if callee.kind != "staticmethod" else callee.params
                    sub = {}
                    for name, arg in list(zip(prm, n.args)) + [(kw.arg, kw.value) for kw in n.keywords if kw.arg]:
                        if isinstance(arg, ast.Name) and roles.get(arg.id) == "pair":
                            sub[name] = "pair"
                        else:
                            c = components(arg, roles)
                            if c:
                                sub[name] = frozenset(c)
                    if sub and scan(callee.node.body, sub, callee, depth + 1):
                        found = True
        return found

    for fn in methods:
        sn = fn.self_name
        if sn is None:
            continue
        defs = single_assignments(fn.node)
        for n in ast.walk(fn.node):
            if isinstance(n, (ast.ListComp, ast.SetComp, ast.GeneratorExp, ast.DictComp)):
                roles: dict = {}
                for g in n.generators:
                    roles.update(loop_roles(g.target, g.iter, sn, fn.node, defs))
                if roles:
                    region = [n.key, n.value] if isinstance(n, ast.DictComp) else [n.elt]
                    scan(region + [c for g in n.generators for c in g.ifs], roles, fn)
            elif isinstance(n, ast.For):
                roles = loop_roles(n.target, n.iter, sn, fn.node, defs)
                if roles:
                    scan(n.body, roles, fn)
    return sites


# --------------------------------------------------------------------------------------------- (f) exempted elements

def _filtered_loop(loop):
    """(iterated expression, [guard conditions on the loop variable that an element must satisfy to enter the body]) with `filter(f, X)`,
    `(v for v in X if c)` / `[v for v in X if c]` in the iterator written out."""
    import copy

    it, guards = loop.iter, []
    tgt = loop.target
    while True:
        if isinstance(it, ast.Call) and isinstance(it.func, ast.Name) and it.func.id == "filter" and len(it.args) == 2:
            f = it.args[0]
            elem = copy.deepcopy(tgt)
            for x in ast.walk(elem):
                if hasattr(x, "ctx"):
                    x.ctx = ast.Load()
            if isinstance(f, ast.Constant) and f.value is None:
                guards.append(elem)
            elif isinstance(f, ast.Lambda) and len(f.args.args) == 1 and isinstance(tgt, ast.Name):
                body = copy.deepcopy(f.body)
                for x in ast.walk(body):
                    if isinstance(x, ast.Name) and x.id == f.args.args[0].arg:
                        x.id = tgt.id
                guards.append(body)
            else:
                guards.append(ast.Call(func=f, args=[elem], keywords=[]))
            it = it.args[1]
            continue
        if isinstance(it, (ast.GeneratorExp, ast.ListComp)) and len(it.generators) == 1 and isinstance(it.elt, ast.Name) \
                and isinstance(it.generators[0].target, ast.Name) and it.elt.id == it.generators[0].target.id and isinstance(tgt, ast.Name):
            g = it.generators[0]
            for c in g.ifs:
                c = copy.deepcopy(c)
                for x in ast.walk(c):
                    if isinstance(x, ast.Name) and x.id == g.target.id:
                        x.id = tgt.id
                guards.append(c)
            it = g.iter
            continue
        return it, guards


def element_exemptions(fn_node):
    """For every loop of the function that inspects its elements with a check that can raise: the conditions under which an element
    ends its iteration WITHOUT having passed such a check.  Returns [(lineno, [offending condition kinds])] — an element may be
    exempted because it `is None`, not because it is falsy / satisfies some wider test — and the number of loops examined."""
    bad, nloops = [], 0
    for loop in ast.walk(fn_node):
        if not (isinstance(loop, ast.For) and isinstance(loop.target, ast.Name)):
            continue
        if not any(isinstance(x, ast.Raise) for x in ast.walk(ast.Module(body=loop.body, type_ignores=[]))):
            continue
        _, guards = _filtered_loop(loop)
        var = loop.target.id
        body = list(loop.body)
        for gd in reversed(guards):
            body = [ast.copy_location(ast.If(test=ast.UnaryOp(op=ast.Not(), operand=gd), body=[ast.Continue()], orelse=[]), loop)] + body
        ast.fix_missing_locations(ast.Module(body=body, type_ignores=[]))
        outs = Executor().run_body(body, __import__("sa.rules._c15_sym", fromlist=["State"]).State({}))

        def mentions(e):
            return any(isinstance(x, ast.Name) and x.id == var for x in ast.walk(e))

        def none_test(e):
            return isinstance(e, ast.Compare) and len(e.ops) == 1 and isinstance(e.ops[0], ast.Is) and isinstance(e.left, ast.Name) and e.left.id == var \
                and isinstance(e.comparators[0], ast.Constant) and e.comparators[0].value is None

        raising = [[(k, pol) for k, _, pol in o.state.conds] for o in outs if o.kind == "raise"]
        if not any(mentions(e) for o in outs if o.kind == "raise" for e, _ in o.conds):
            continue  # the raising checks do not look at the element
        nloops += 1
        for o in outs:
            if o.kind not in ("fall", "continue"):
                continue
            seq = [(k, pol) for k, _, pol in o.state.conds]
            # a check passed: a condition on the element whose other outcome raises at once
            passed = any(mentions(e) and not none_test(e) and seq[:i] + [(k, not pol)] in raising for i, (k, e, pol) in enumerate(o.state.conds))
            if passed:
                continue
            wide = [unparse(e).replace(var, "<element>") + ("" if pol else " is falsy") for _, e, pol in o.state.conds
                    if mentions(e) and not none_test(e)]
            if wide:
                bad.append((loop.lineno, wide))
    return bad, nloops


# --------------------------------------------------------------------------------------------- (b) association kinds

def _names(t):
    els = t.elts if isinstance(t, ast.Tuple) else [t]
    return [n.attr if isinstance(n, ast.Attribute) else getattr(n, "id", None) for n in els]


def silent_kinds(p, fn_node, vparam, valid_param, kinds, valid_kinds):
    """(kinds of `value` for which a normal exit is reachable without a check that inspects the value and can raise, number of paths)."""
    outs = Executor().run(fn_node)

    def klass(name):
        cs = [c for c in p.classes if c.name == name]
        return cs[0] if len(cs) == 1 else None

    def related(name, kind):
        """'is' (every `kind` object is a `name`), 'maybe' (some are), None (disjoint)."""
        if name == kind or name == "object":
            return "is"
        kc, nc = klass(kind), klass(name)
        if kc is not None and any(getattr(b, "name", b) == name for b in kc.mro):
            return "is"
        if nc is not None and any(getattr(b, "name", b) == kind for b in nc.mro):
            return "maybe"
        return None

    def tv3(e, kind):
        if isinstance(e, ast.Call) and isinstance(e.func, ast.Name) and e.func.id == "isinstance" and len(e.args) == 2 and isinstance(e.args[0], ast.Name):
            var, names = e.args[0].id, _names(e.args[1])
            if None in names:
                return None
            if var == vparam:
                rel = [related(n, kind) for n in names]
                return True if "is" in rel else None if "maybe" in rel else False
            if var == valid_param:
                if all(any(related(n, k) == "is" for n in names) for k in valid_kinds):
                    return True
                if not any(related(n, k) for n in names for k in valid_kinds):
                    return False
            return None
        if isinstance(e, ast.Compare) and len(e.ops) == 1 and isinstance(e.ops[0], ast.Is) and isinstance(e.comparators[0], ast.Constant) \
                and e.comparators[0].value is None:
            # the value / the parent are present, and so is an attribute read from the value (its identifier)
            root, hops = e.left, 0
            while isinstance(root, ast.Attribute):
                root, hops = root.value, hops + 1
            if isinstance(root, ast.Name) and (root.id == vparam or (root.id == valid_param and hops == 0)):
                return False
        if isinstance(e, ast.Call) and isinstance(e.func, ast.Name) and e.func.id == "hasattr" and len(e.args) == 2 and isinstance(e.args[0], ast.Name) \
                and e.args[0].id == vparam and isinstance(e.args[1], ast.Constant):
            kc = klass(kind)
            if kc is not None and kc.lookup(str(e.args[1].value)) is not None:
                return True
        return None

    def kind_test(e):
        return (isinstance(e, ast.Call) and isinstance(e.func, ast.Name) and e.func.id in ("isinstance", "hasattr")) or \
            (isinstance(e, ast.Compare) and isinstance(e.ops[0], ast.Is))

    raising = [{(k, pol) for k, _, pol in o.state.conds} for o in outs if o.kind == "raise"]

    def checked(o):
        for k, e, pol in o.state.conds:
            if kind_test(e) or not any(isinstance(x, ast.Name) and x.id == vparam for x in ast.walk(e)):
                continue
            if any((k, not pol) in r for r in raising):
                return True
        return False

    silent = set()
    for kind in kinds:
        for o in outs:
            if o.kind == "raise" or checked(o):
                continue
            if all(tv3(e, kind) in (None, pol) for e, pol in o.conds):
                silent.add(kind)
                break
    return sorted(silent), len(outs)


# --------------------------------------------------------------------------------------------- shared mutable objects

_FRESH_CALLS = {"list", "dict", "set", "tuple", "sorted", "deepcopy", "copy", "frozenset", "reversed"}


def objects_of(e, depth=0):
    """The objects an expression (locals substituted; local containers as merged literals) may evaluate to: element look-ups into
    literals / merges are resolved (`{**a, "k": v}["k"]` is v), conditional expressions fork, copies stay as they are."""
    if depth > 12:
        return [e]
    if isinstance(e, ast.IfExp):
        return objects_of(e.body, depth + 1) + objects_of(e.orelse, depth + 1)
    if isinstance(e, ast.BoolOp):
        return [o for v in e.values for o in objects_of(v, depth + 1)]
    key = None
    if isinstance(e, ast.Subscript):
        base, key = e.value, e.slice
    elif isinstance(e, ast.Call) and isinstance(e.func, ast.Attribute) and e.func.attr in ("get", "setdefault", "pop") and e.args:
        base, key = e.func.value, e.args[0]
    if key is None:
        return [e]
    out = []
    for b in objects_of(base, depth + 1):
        if isinstance(b, ast.Dict):
            for k, v in reversed(list(zip(b.keys, b.values))):
                if k is None:
                    if isinstance(v, ast.Dict) or not isinstance(v, (ast.Constant,)):
                        out += objects_of(ast.Subscript(value=v, slice=key, ctx=ast.Load()), depth + 1)
                    continue
                if key_of(k) == key_of(key):
                    out += objects_of(v, depth + 1)
                    break  # the latest entry under this key
                if isinstance(k, ast.Constant) and isinstance(key, ast.Constant):
                    continue
                out += objects_of(v, depth + 1)  # may be the same key
        else:
            out.append(ast.Subscript(value=b, slice=key, ctx=ast.Load()))
        if isinstance(e, ast.Call) and len(e.args) > 1:
            out += objects_of(e.args[1], depth + 1)
    return out


def shared_root(p, mod, cls, o, params=()):
    """Name of the module-level / class-level MUTABLE container the object `o` is (or is an element of), else None."""
    def mutable(v):
        if isinstance(v, (ast.List, ast.Dict, ast.Set, ast.ListComp, ast.DictComp, ast.SetComp)):
            return True
        return isinstance(v, ast.Call) and (getattr(v.func, "id", None) or getattr(v.func, "attr", None)) in ("list", "dict", "set", "defaultdict", "OrderedDict", "deque")

    while True:
        if isinstance(o, ast.Call):
            f = o.func
            nm = f.attr if isinstance(f, ast.Attribute) else getattr(f, "id", None)
            if nm in _FRESH_CALLS or (isinstance(f, ast.Attribute) and nm in ("copy", "keys", "values", "items")):
                return None
            return None
        if isinstance(o, ast.Subscript):
            o = o.value
            continue
        break
    if isinstance(o, ast.Name) and o.id not in params and "§" not in o.id:
        r = p.resolve_name(mod, o.id)
        if r and r[0] == "assign" and mutable(r[1][1]):
            return o.id
    if isinstance(o, ast.Attribute) and isinstance(o.value, ast.Name):
        owner = None
        if cls is not None and o.value.id in ("self", "cls"):
            owner = cls
        else:
            r = p.resolve_name(mod, o.value.id)
            if r and r[0] == "class":
                owner = r[1]
        if owner is not None:
            for c in owner.mro:
                if not isinstance(c, str) and o.attr in c.class_assigns:
                    v = c.class_assigns[o.attr][0]
                    return f"{c.name}.{o.attr}" if v is not None and mutable(v) else None
    return None


# --------------------------------------------------------------------------------------------- context managers

def expand_context_managers(fn_node, K, sn, depth=0):
    """Copy of the function in which `with self.<m>(..):` on a @contextmanager generator method of the class is replaced by the
    generator's body with the `with` block in the place of its single `yield` (set-up before, clean-up after, the try / finally or
    except around the yield kept): what the override / restore idiom does is then visible to path rules whether it is written in
    line or as a reusable context manager."""
    import copy

    def generator(call):
        f = call.func
        if not (isinstance(f, ast.Attribute) and isinstance(f.value, ast.Name) and f.value.id == sn and K is not None):
            return None
        m = K.lookup(f.attr)
        if not (m and m[1] == "method"):
            return None
        g = m[2]
        if not any(unparse(d).split(".")[-1] == "contextmanager" for d in g.node.decorator_list):
            return None
        ys = [x for x in ast.walk(g.node) if isinstance(x, (ast.Yield, ast.YieldFrom))]
        if len(ys) != 1 or isinstance(ys[0], ast.YieldFrom):
            return None
        if g.node.args.vararg or g.node.args.kwarg or any(isinstance(a, ast.Starred) for a in call.args):
            return None
        return g

    counter = [0]

    def inline(g, call, as_var, body):
        counter[0] += 1
        tag = f"__cm{depth}_{counter[0]}"
        gnode = copy.deepcopy(g.node)
        gself = g.params[0] if g.params else None
        bound = {x.id for x in ast.walk(gnode) if isinstance(x, ast.Name) and isinstance(x.ctx, ast.Store)} | set(g.params)
        ren = {b: (sn if b == gself else b + tag) for b in bound}
        for x in ast.walk(gnode):
            if isinstance(x, ast.Name) and x.id in ren:
                x.id = ren[x.id]
        pre = []
        prm = g.params[1:]
        a = gnode.args
        defaults = dict(zip([x.arg for x in (a.posonlyargs + a.args)][len(a.posonlyargs + a.args) - len(a.defaults):], a.defaults))
        args = dict(zip(prm, call.args))
        args.update({kw.arg: kw.value for kw in call.keywords if kw.arg})
        for nm in prm:
            val = args.get(nm, defaults.get(nm))
            if val is None:
                return None
            pre.append(ast.copy_location(ast.Assign(targets=[ast.Name(id=nm + tag, ctx=ast.Store())], value=copy.deepcopy(val), lineno=call.lineno), call))
        done = [False]

        def put(stmts):
            out = []
            for st in stmts:
                y = None
                if isinstance(st, ast.Expr) and isinstance(st.value, ast.Yield):
                    y = st.value
                elif isinstance(st, ast.Assign) and isinstance(st.value, ast.Yield):
                    y = st.value
                if y is not None:
                    done[0] = True
                    if as_var is not None:
                        val = y.value if y.value is not None else ast.Constant(value=None)
                        out.append(ast.copy_location(ast.Assign(targets=[copy.deepcopy(as_var)], value=val, lineno=st.lineno), st))
                    out += body
                    continue
                if isinstance(st, (ast.For, ast.While, ast.FunctionDef, ast.AsyncFunctionDef)) and any(isinstance(x, ast.Yield) for x in ast.walk(st)):
                    raise ValueError("yield in a loop")
                for fld in ("body", "orelse", "finalbody"):
                    blk = getattr(st, fld, None)
                    if isinstance(blk, list) and blk and isinstance(blk[0], ast.stmt):
                        setattr(st, fld, put(blk))
                for h in getattr(st, "handlers", []) or []:
                    h.body = put(h.body)
                out.append(st)
            return out

        try:
            stmts = put([x for x in gnode.body if not (isinstance(x, ast.Expr) and isinstance(x.value, ast.Constant) and isinstance(x.value.value, str))])
        except ValueError:
            return None
        return pre + stmts if done[0] else None

    def block(stmts):
        out = []
        for st in stmts:
            for fld in ("body", "orelse", "finalbody"):
                blk = getattr(st, fld, None)
                if isinstance(blk, list) and blk and isinstance(blk[0], ast.stmt):
                    setattr(st, fld, block(blk))
            for h in getattr(st, "handlers", []) or []:
                h.body = block(h.body)
            if isinstance(st, ast.With) and st.items and isinstance(st.items[0].context_expr, ast.Call):
                g = generator(st.items[0].context_expr)
                if g is not None:
                    inner = st.body if len(st.items) == 1 else [ast.copy_location(ast.With(items=st.items[1:], body=st.body), st)]
                    rep = inline(g, st.items[0].context_expr, st.items[0].optional_vars, inner)
                    if rep is not None:
                        out += block(rep) if depth < 3 else rep
                        continue
            out.append(st)
        return out

    node = copy.deepcopy(fn_node)
    node.body = block(node.body)
    ast.fix_missing_locations(node)
    return node


# --------------------------------------------------------------------------------------------- merged mappings

def layers(e):
    """Precedence layers of a mapping expression, lowest first (a later layer overrides an earlier one)."""
    if isinstance(e, ast.Dict):
        out = []
        for k, v in zip(e.keys, e.values):
            out += layers(v) if k is None else [v]
        return out or [e]
    if isinstance(e, ast.BinOp) and isinstance(e.op, ast.BitOr):
        return layers(e.left) + layers(e.right)
    if isinstance(e, ast.Call):
        f = e.func
        nm = f.attr if isinstance(f, ast.Attribute) else getattr(f, "id", None)
        if nm == "dict" and isinstance(f, ast.Name) and len(e.args) <= 1:
            out = layers(e.args[0]) if e.args else []
            for kw in e.keywords:
                out += layers(kw.value) if kw.arg is None else [kw.value]
            return out or [e]
        if nm in ("deepcopy", "copy") and len(e.args) == 1 and not e.keywords and (isinstance(f, ast.Name) or (isinstance(f.value, ast.Name) and f.value.id == "copy")):
            return layers(e.args[0])
        if nm == "copy" and isinstance(f, ast.Attribute) and not e.args:
            return layers(f.value)
        if nm == "ChainMap":
            out = []
            for x in reversed(e.args):
                out += layers(x)
            return out or [e]
    return [e]
