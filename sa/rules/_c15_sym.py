"""Small symbolic executor over function bodies (C15 rules) — nothing is executed.

A function body is unfolded into its PATHS.  Along a path every local is replaced by the expression it holds at that
point (flow-sensitive substitution: aliases, temporaries, accumulators and renamed locals disappear), every branch
condition is decomposed into ATOMS (`not`, `and` / `or`, conditional expressions, `bool(..)`, `!=` / `not in` /
`is not` are undone), and a conditional expression in a value forks the path like the `if` statement it abbreviates.
So a rule can ask what a function returns / stores under which elementary conditions, whatever the layout of the
code: nested ifs or guard clauses, accumulator or early return, De Morgan, merged or split conditions, if-expression
or if-statement, two-entry table or if-expression.

Loops are unrolled zero and one time with the loop variables bound to an element of what is iterated (enough for the
provenance questions asked here); `try` bodies are followed with the handlers forked from the state before the body.
"""

from __future__ import annotations

import ast
import copy

from ..model import AnalysisError, unparse

MAX_PATHS = 4000


class State:
    __slots__ = ("env", "conds", "events")

    def __init__(self, env=None, conds=(), events=()):
        self.env = dict(env or {})
        self.conds = tuple(conds)
        self.events = tuple(events)

    def fork(self):
        return State(self.env, self.conds, self.events)

    def known(self, key):
        for k, _, pol in self.conds:
            if k == key:
                return pol
        return None


class Outcome:
    """kind: 'return' | 'raise' | 'fall';  value: returned / raised expression (locals substituted) or None."""

    __slots__ = ("kind", "value", "state", "stmt")

    def __init__(self, kind, value, state, stmt=None):
        self.kind, self.value, self.state, self.stmt = kind, value, state, stmt

    @property
    def conds(self):
        """[(atom expression, truth on this path)]"""
        return [(e, pol) for _, e, pol in self.state.conds]

    @property
    def events(self):
        return self.state.events


def key_of(e) -> str:
    return ast.dump(e, annotate_fields=False, include_attributes=False)


def _comp_bound(n) -> set:
    out = set()
    if isinstance(n, (ast.ListComp, ast.SetComp, ast.GeneratorExp, ast.DictComp)):
        for g in n.generators:
            out |= {x.id for x in ast.walk(g.target) if isinstance(x, ast.Name)}
    elif isinstance(n, ast.Lambda):
        a = n.args
        out |= {x.arg for x in a.posonlyargs + a.args + a.kwonlyargs}
    return out


def subst(e, env):
    """`e` with every local of `env` replaced by the expression it holds (names bound by a comprehension / lambda
    inside `e` are left alone)."""
    if e is None or not env:
        return copy.deepcopy(e)

    def go(n, shadow):
        if isinstance(n, ast.Name):
            if isinstance(n.ctx, ast.Load) and n.id in env and n.id not in shadow:
                return ast.copy_location(copy.deepcopy(env[n.id]), n)
            return n
        sh = shadow | _comp_bound(n)
        for fld, val in ast.iter_fields(n):
            if isinstance(val, ast.AST):
                setattr(n, fld, go(val, sh))
            elif isinstance(val, list):
                setattr(n, fld, [go(x, sh) if isinstance(x, ast.AST) else x for x in val])
        return n

    return go(copy.deepcopy(e), frozenset())


def _table_to_ifexp(e):
    """`{True: a, False: b}[bool(t)]`, `(b, a)[bool(t)]`, `(b, a)[int(bool(t))]`  ->  `a if t else b`."""
    if not isinstance(e, ast.Subscript):
        return None
    idx = e.slice
    while isinstance(idx, ast.Call) and isinstance(idx.func, ast.Name) and idx.func.id == "int" and len(idx.args) == 1:
        idx = idx.args[0]
    if isinstance(idx, ast.Call) and isinstance(idx.func, ast.Name) and idx.func.id == "bool" and len(idx.args) == 1:
        t = idx.args[0]
    elif isinstance(idx, (ast.Compare, ast.BoolOp)) or (isinstance(idx, ast.UnaryOp) and isinstance(idx.op, ast.Not)):
        t = idx
    else:
        return None
    if isinstance(e.value, ast.Dict) and len(e.value.keys) == 2 and all(isinstance(k, ast.Constant) and isinstance(k.value, bool) for k in e.value.keys):
        d = {k.value: v for k, v in zip(e.value.keys, e.value.values)}
        if set(d) == {True, False}:
            return ast.copy_location(ast.IfExp(test=t, body=d[True], orelse=d[False]), e)
    if isinstance(e.value, (ast.Tuple, ast.List)) and len(e.value.elts) == 2:
        return ast.copy_location(ast.IfExp(test=t, body=e.value.elts[1], orelse=e.value.elts[0]), e)
    return None


def fold(e):
    """Constant folding of what a substituted table look-up leaves behind: `"k" in {literal}`, `{literal}["k"]`,
    comparisons of two constants."""
    if e is None:
        return e

    def lit_keys(c):
        if isinstance(c, ast.Dict) and all(isinstance(k, ast.Constant) for k in c.keys):
            return [k.value for k in c.keys]
        if isinstance(c, (ast.List, ast.Tuple, ast.Set)) and all(isinstance(k, ast.Constant) for k in c.elts):
            return [k.value for k in c.elts]
        return None

    class F(ast.NodeTransformer):
        def visit_Compare(self, n):
            self.generic_visit(n)
            if len(n.ops) == 1 and isinstance(n.left, ast.Constant):
                c = n.comparators[0]
                if isinstance(n.ops[0], (ast.In, ast.NotIn)) and lit_keys(c) is not None:
                    r = n.left.value in lit_keys(c)
                    return ast.copy_location(ast.Constant(value=r if isinstance(n.ops[0], ast.In) else not r), n)
                if isinstance(n.ops[0], (ast.Eq, ast.NotEq)) and isinstance(c, ast.Constant):
                    r = n.left.value == c.value
                    return ast.copy_location(ast.Constant(value=r if isinstance(n.ops[0], ast.Eq) else not r), n)
                if isinstance(n.ops[0], (ast.Is, ast.IsNot)) and isinstance(c, ast.Constant) and (n.left.value is None or c.value is None):
                    r = n.left.value is c.value
                    return ast.copy_location(ast.Constant(value=r if isinstance(n.ops[0], ast.Is) else not r), n)
            return n

        def visit_Subscript(self, n):
            self.generic_visit(n)
            if isinstance(n.ctx, ast.Load) and isinstance(n.value, ast.Dict) and not isinstance(n.slice, ast.Slice):
                # the latest entry stored under this very key (constant or symbolic) — `{**x, k: v}[k]` is v
                want = key_of(n.slice)
                for k, v in reversed(list(zip(n.value.keys, n.value.values))):
                    if k is None:
                        if isinstance(v, ast.Dict) and not v.keys:
                            continue
                        break
                    if key_of(k) == want:
                        return v
                    if not (isinstance(k, ast.Constant) and isinstance(n.slice, ast.Constant)):
                        break  # may or may not be the same key
            return n

        def visit_Lambda(self, n):
            return n

    return F().visit(e)


MUTATING_METHODS = {"append", "extend", "insert", "remove", "pop", "clear", "update", "setdefault", "sort", "reverse", "popitem", "add", "discard",
                    "__setitem__", "__delitem__", "difference_update", "intersection_update", "symmetric_difference_update"}
RAISED = "raise"  # third 'truth value' of split(): evaluating the condition raised (an unfolded helper raised)


class Executor:
    """resolver(call) -> ast.FunctionDef | None: functions whose calls are unfolded in place (straight-line / branching
    bodies only); the default unfolds nothing."""

    def __init__(self, resolver=None, max_depth=3):
        self.resolver = resolver or (lambda call: None)
        self.max_depth = max_depth
        self.count = 0

    # ------------------------------------------------------------------ conditions
    def split(self, e, st):
        """[(truth, state)] — `e` decomposed into atoms appended to the state's path condition."""
        if isinstance(e, ast.UnaryOp) and isinstance(e.op, ast.Not):
            return [(b if b == RAISED else not b, s) for b, s in self.split(e.operand, st)]
        if isinstance(e, ast.BoolOp):
            stop_on = isinstance(e.op, ast.Or)  # value that ends the evaluation
            res, pending = [], [st]
            for v in e.values:
                nxt = []
                for s in pending:
                    for b, s2 in self.split(v, s):
                        if b == RAISED or b == stop_on:
                            res.append((b, s2))
                        else:
                            nxt.append(s2)
                pending = nxt
            return res + [(not stop_on, s) for s in pending]
        if isinstance(e, ast.IfExp):
            out = []
            for b, s in self.split(e.test, st):
                out += [(RAISED, s)] if b == RAISED else self.split(e.body if b else e.orelse, s)
            return out
        if isinstance(e, ast.Call) and isinstance(e.func, ast.Name) and e.func.id == "bool" and len(e.args) == 1 and not e.keywords:
            return self.split(e.args[0], st)
        if isinstance(e, ast.Constant):
            return [(bool(e.value), st)]
        t = _table_to_ifexp(e)
        if t is not None:
            return self.split(t, st)
        flip = False
        if isinstance(e, ast.Compare) and len(e.ops) == 1 and isinstance(e.ops[0], (ast.NotEq, ast.NotIn, ast.IsNot)):
            pos = {ast.NotEq: ast.Eq, ast.NotIn: ast.In, ast.IsNot: ast.Is}[type(e.ops[0])]()
            e = ast.copy_location(ast.Compare(left=e.left, ops=[pos], comparators=e.comparators), e)
            flip = True
        out = []
        for e2, s in self.lift(e, st):
            if e2 is RAISED:
                out.append((RAISED, s))
                continue
            if e2 is not e and _decomposable(e2):  # a call unfolded (or a table look-up folded) into something that is not an atom
                out += [(b if b == RAISED else b != flip, s2) for b, s2 in self.split(e2, s)]
                continue
            k = key_of(e2)
            kn = s.known(k)
            if kn is not None:
                out.append((kn != flip, s))
                continue
            for pol in (True, False):
                s2 = s.fork()
                s2.conds = s2.conds + ((k, e2, pol),)
                out.append((pol != flip, s2))
        self._budget(len(out))
        return out

    def _budget(self, n):
        self.count += n
        if self.count > MAX_PATHS * 8:
            raise AnalysisError("symbolic execution: too many paths")

    # ------------------------------------------------------------------ values
    def lift(self, e, st, depth=0):
        """[(expression without conditional sub-expressions / unfolded calls, state)]."""
        if e is None:
            return [(None, st)]
        e = fold(e)
        target = None

        def find(n):
            nonlocal target
            if target is not None or isinstance(n, (ast.Lambda, ast.ListComp, ast.SetComp, ast.GeneratorExp, ast.DictComp)):
                return
            if isinstance(n, ast.IfExp) or _table_to_ifexp(n) is not None:
                target = n
                return
            for c in ast.iter_child_nodes(n):
                find(c)
                if target is not None:
                    return
            if isinstance(n, ast.Call) and depth < self.max_depth and self.resolver(n) is not None:
                target = n

        find(e)
        if target is None:
            return [(e, st)]

        def replaced(new):
            if target is e:
                return copy.deepcopy(new)
            # the tree may be shared with other paths: work on a copy, locating the target by position
            root = copy.deepcopy(e)
            _set_at(root, _path_to(e, target), copy.deepcopy(new))
            return root

        out = []
        if isinstance(target, ast.Call):
            fdef = self.resolver(target)
            for oc in self.call(fdef, target, st, depth + 1):
                if oc.kind == "raise":
                    out.append((RAISED, State(st.env, oc.state.conds, oc.state.events)))
                    continue
                val = oc.value if oc.value is not None else ast.Constant(value=None)
                s = State(st.env, oc.state.conds, oc.state.events)
                out += self.lift(replaced(val), s, depth)
            return out
        ife = target if isinstance(target, ast.IfExp) else _table_to_ifexp(target)
        for b, s in self.split(ife.test, st):
            out += [(RAISED, s)] if b == RAISED else self.lift(replaced(ife.body if b else ife.orelse), s, depth)
        return out

    def call(self, fdef, call, st, depth):
        receiver = None
        if isinstance(fdef, tuple):  # (definition, expression bound to the first parameter) for bound methods
            fdef, receiver = fdef
        if receiver is not None:
            call = ast.Call(func=call.func, args=[receiver] + list(call.args), keywords=call.keywords)
        a = fdef.args
        params = [x.arg for x in a.posonlyargs + a.args + a.kwonlyargs]
        defaults = dict(zip([x.arg for x in (a.posonlyargs + a.args)][len(a.posonlyargs + a.args) - len(a.defaults):], a.defaults))
        for k, d in zip(a.kwonlyargs, a.kw_defaults):
            if d is not None:
                defaults[k.arg] = d
        env = {}
        for prm, arg in zip(params, call.args):
            env[prm] = arg
        for kw in call.keywords:
            if kw.arg is not None:
                env[kw.arg] = kw.value
        for prm in params:
            if prm not in env:
                env[prm] = defaults.get(prm, ast.Name(id=f"{prm}§unbound", ctx=ast.Load()))
        inner = State(env, st.conds, st.events)
        return self.run_body(fdef.body, inner, depth)

    # ------------------------------------------------------------------ statements
    def run(self, fn_node, env=None):
        """All outcomes of the function (parameters stay symbolic under their own names)."""
        return self.run_body(fn_node.body, State(env or {}), 0)

    def run_body(self, stmts, st, depth=0):
        falls, done = self.block(stmts, [st], depth)
        return done + [Outcome("fall", None, s) for s in falls]

    def block(self, stmts, states, depth):
        """(states falling off the end, outcomes that left: return / raise / break / continue)."""
        done = []
        for s in stmts:
            nxt = []
            for st in states:
                f, d = self.stmt(s, st, depth)
                nxt += f
                done += d
            states = nxt
            self._budget(len(states))
            if len(states) > MAX_PATHS:
                raise AnalysisError("symbolic execution: too many paths")
            if not states:
                break
        return states, done

    def _assign(self, target, value, st, stmt):
        if isinstance(target, ast.Name):
            st.env[target.id] = value
        elif isinstance(target, (ast.Tuple, ast.List)):
            if isinstance(value, (ast.Tuple, ast.List)) and len(value.elts) == len(target.elts) and not any(isinstance(x, ast.Starred) for x in target.elts):
                for t, v in zip(target.elts, value.elts):
                    self._assign(t, v, st, stmt)
            else:
                for i, t in enumerate(target.elts):
                    tt = t.value if isinstance(t, ast.Starred) else t
                    self._assign(tt, ast.Subscript(value=value, slice=ast.Constant(value=i), ctx=ast.Load()), st, stmt)
        elif isinstance(target, ast.Subscript) and isinstance(target.value, ast.Name) and _fresh(st.env.get(target.value.id)):
            # element store into a local container: the container now holds the value with precedence
            nm = target.value.id
            st.events = st.events + (("mutate", st.env[nm], None, stmt),)
            st.env[nm] = ast.Dict(keys=[None, subst(target.slice, st.env)], values=[st.env[nm], value])
        elif isinstance(target, ast.Subscript) and isinstance(target.value, ast.Subscript) and _fresh(st.env.get(getattr(_root(target), "id", None))):
            # x[k1][k2] = v on a local container: x[k1] becomes {**x[k1], k2: v}
            inner = fold(subst(_as_load(target.value), st.env))
            st.events = st.events + (("mutate", inner, None, stmt),)
            self._assign(target.value, ast.Dict(keys=[None, subst(target.slice, st.env)], values=[inner, value]), st, stmt)
        else:
            if isinstance(target, ast.Subscript):
                st.events = st.events + (("mutate", subst(_as_load(target.value), st.env), None, stmt),)
            st.events = st.events + (("store", subst(target, st.env), value, stmt),)

    def _mutation(self, call, st):
        """`x.update(b)` / `x[k].update(b)` on a local container: modelled as a re-binding `x = {**x, **b}`."""
        f = call.func
        if not (isinstance(f, ast.Attribute) and f.attr == "update" and len(call.args) == 1 and not call.keywords):
            return False
        recv = f.value
        arg = subst(call.args[0], st.env)
        if isinstance(recv, ast.Name) and _fresh(st.env.get(recv.id)):
            st.env[recv.id] = ast.Dict(keys=[None, None], values=[st.env[recv.id], arg])
            return True
        if isinstance(recv, ast.Subscript) and isinstance(recv.value, ast.Name) and _fresh(st.env.get(recv.value.id)):
            nm = recv.value.id
            inner = ast.Dict(keys=[None, None], values=[subst(recv, st.env), arg])
            st.env[nm] = ast.Dict(keys=[None, subst(recv.slice, st.env)], values=[st.env[nm], inner])
            return True
        return False

    def _values(self, expr, st, depth, stmt):
        """([(value, state)], [outcomes of the paths on which evaluating the value raised])."""
        vals, raised = [], []
        for v, s2 in self.lift(subst(expr, st.env), st, depth):
            if v is RAISED:
                raised.append(Outcome("raise", None, s2, stmt))
            else:
                vals.append((v, s2.fork()))
        return vals, raised

    def stmt(self, s, st, depth):
        if isinstance(s, (ast.Assign, ast.AnnAssign)):
            if s.value is None:
                return [st], []
            vals, raised = self._values(s.value, st, depth, s)
            for v, s2 in vals:
                for t in (s.targets if isinstance(s, ast.Assign) else [s.target]):
                    self._assign(t, v, s2, s)
            return [s2 for _, s2 in vals], raised
        if isinstance(s, ast.AugAssign):
            vals, raised = self._values(s.value, st, depth, s)
            for v, s2 in vals:
                cur = fold(subst(ast.copy_location(_as_load(s.target), s.target), s2.env))
                s2.events = s2.events + (("mutate", cur, None, s),)  # in place for lists / dicts / sets
                self._assign(s.target, ast.BinOp(left=cur, op=s.op, right=v), s2, s)
            return [s2 for _, s2 in vals], raised
        if isinstance(s, ast.Expr):
            vals, raised = self._values(s.value, st, depth, s)
            for v, s2 in vals:
                if isinstance(v, ast.Call) and isinstance(v.func, ast.Attribute) and v.func.attr in MUTATING_METHODS:
                    s2.events = s2.events + (("mutate", v.func.value, None, s),)
                if isinstance(s.value, ast.Call) and self._mutation(s.value, s2):
                    pass
                elif isinstance(v, ast.Call):
                    s2.events = s2.events + (("call", v, None, s),)
            return [s2 for _, s2 in vals], raised
        if isinstance(s, ast.Return):
            vals, raised = self._values(s.value, st, depth, s) if s.value is not None else ([(None, st)], [])
            return [], [Outcome("return", v, s2, s) for v, s2 in vals] + raised
        if isinstance(s, ast.Raise):
            return [], [Outcome("raise", subst(s.exc, st.env), st, s)]
        if isinstance(s, ast.Assert):
            falls, done = [], []
            for b, s2 in self.split(subst(s.test, st.env), st):
                if b is True:
                    falls.append(s2)
                else:
                    done.append(Outcome("raise", None, s2, s))
            return falls, done
        if isinstance(s, ast.If):
            falls, done = [], []
            for b, s2 in self.split(subst(s.test, st.env), st):
                if b == RAISED:
                    done.append(Outcome("raise", None, s2, s))
                    continue
                f, d = self.block(s.body if b else s.orelse, [s2.fork()], depth)
                falls += f
                done += d
            return falls, done
        if isinstance(s, ast.For) and literal_elements(subst(s.iter, st.env)) is not None:
            # a loop over a literal table (after substitution of hoisted constants): unrolled exactly, element by element
            states, done, after = [st.fork()], [], []
            for el in literal_elements(subst(s.iter, st.env)):
                nxt = []
                for s2 in states:
                    s2 = s2.fork()
                    self._assign(s.target, el, s2, None)
                    f, d = self.block(s.body, [s2], depth)
                    nxt += f
                    for oc in d:
                        if oc.kind == "continue":
                            nxt.append(oc.state)
                        elif oc.kind == "break":
                            after.append(oc.state)
                        else:
                            done.append(oc)
                states = nxt
            if s.orelse:
                states, d = self.block(s.orelse, states, depth)
                done += d
            return states + after, done
        if isinstance(s, (ast.For, ast.AsyncFor, ast.While)):
            falls, done = [st.fork()], []  # zero iterations
            if isinstance(s, ast.While):
                entered = [s2 for b, s2 in self.split(subst(s.test, st.env), st) if b is True]
            else:
                s2 = st.fork()
                it = subst(s.iter, st.env)
                self._bind_loop(s.target, it, s2)
                entered = [s2]
            for s2 in entered:
                f, d = self.block(s.body, [s2.fork()], depth)
                falls += f
                for oc in d:
                    if oc.kind in ("break", "continue"):
                        falls.append(oc.state)
                    else:
                        done.append(oc)
            if s.orelse:
                f, d = self.block(s.orelse, falls, depth)
                return f, done + d
            return falls, done
        if isinstance(s, ast.Break):
            return [], [Outcome("break", None, st, s)]
        if isinstance(s, ast.Continue):
            return [], [Outcome("continue", None, st, s)]
        if isinstance(s, (ast.With, ast.AsyncWith)):
            s2 = st.fork()
            for it in s.items:
                if it.optional_vars is not None:
                    self._assign(it.optional_vars, subst(it.context_expr, s2.env), s2, s)
            return self.block(s.body, [s2], depth)
        if isinstance(s, ast.Try):
            f, done = self.block(s.body, [st.fork()], depth)
            if s.orelse:
                f, d = self.block(s.orelse, f, depth)
                done += d
            for h in s.handlers:
                hs = st.fork()
                if h.name:
                    hs.env[h.name] = ast.Name(id=f"{h.name}§exc", ctx=ast.Load())
                hf, hd = self.block(h.body, [hs], depth)
                f += hf
                done += hd
            if s.finalbody:
                f, d = self.block(s.finalbody, f, depth)
                done += d
            return f, done
        if isinstance(s, ast.Delete):
            for t in s.targets:
                if isinstance(t, ast.Name):
                    st.env.pop(t.id, None)
            return [st], []
        # pass, import, global, nested definitions, ...
        return [st], []

    def _bind_loop(self, target, it, st):
        """Loop variables: an element of what is iterated.  `for k, v in d.items()` binds v to `d[k§]`."""
        base = it
        if isinstance(it, ast.Call) and isinstance(it.func, ast.Attribute) and it.func.attr in ("items", "values", "keys") and not it.args:
            base = it.func.value
            names = [t for t in (target.elts if isinstance(target, (ast.Tuple, ast.List)) else [target])]
            if it.func.attr == "items" and len(names) == 2 and isinstance(names[0], ast.Name):
                k = ast.Name(id=f"{names[0].id}§", ctx=ast.Load())
                st.env[names[0].id] = k
                self._assign(names[1], ast.Subscript(value=base, slice=k, ctx=ast.Load()), st, None)
                return
        for i, x in enumerate(x for x in ast.walk(target) if isinstance(x, ast.Name)):
            st.env[x.id] = ast.Subscript(value=base, slice=ast.Name(id=f"{x.id}§", ctx=ast.Load()), ctx=ast.Load())


def literal_elements(it, limit=16):
    """Elements a `for` yields when it iterates a literal list / tuple / dict (`d`, `d.keys()`, `d.values()`, `d.items()`), else None."""
    how = None
    if isinstance(it, ast.Call) and isinstance(it.func, ast.Attribute) and it.func.attr in ("items", "keys", "values") and not it.args and not it.keywords:
        how, it = it.func.attr, it.func.value
    if isinstance(it, ast.Dict) and all(k is not None for k in it.keys) and len(it.keys) <= limit:
        if how == "items":
            return [ast.Tuple(elts=[k, v], ctx=ast.Load()) for k, v in zip(it.keys, it.values)]
        return list(it.values) if how == "values" else list(it.keys)
    if how is None and isinstance(it, (ast.List, ast.Tuple)) and len(it.elts) <= limit and not any(isinstance(x, ast.Starred) for x in it.elts):
        return list(it.elts)
    return None


def _root(t):
    while isinstance(t, (ast.Subscript, ast.Attribute)):
        t = t.value
    return t


def _fresh(v) -> bool:
    """The local holds a container created here (literal, constructor / copy call, merge), not an alias of an object that
    exists outside (attribute, element, parameter): stores through an alias are events on the aliased object."""
    if isinstance(v, ast.Call) and isinstance(v.func, ast.Attribute) and v.func.attr in ("get", "setdefault", "pop", "__getitem__"):
        return False  # an element of the receiver
    return v is not None and not isinstance(v, (ast.Attribute, ast.Subscript, ast.Name, ast.Constant))


def _decomposable(e) -> bool:
    return isinstance(e, (ast.BoolOp, ast.IfExp, ast.Constant)) or (isinstance(e, ast.UnaryOp) and isinstance(e.op, ast.Not)) or (
        isinstance(e, ast.Call) and isinstance(e.func, ast.Name) and e.func.id == "bool" and len(e.args) == 1)


def _as_load(t):
    t = copy.deepcopy(t)
    for x in ast.walk(t):
        if hasattr(x, "ctx"):
            x.ctx = ast.Load()
    return t


def _path_to(root, target):
    """Field path from root to the node `target` (identity)."""
    if root is target:
        return []
    for fld, val in ast.iter_fields(root):
        if isinstance(val, ast.AST):
            p = _path_to(val, target)
            if p is not None:
                return [(fld, None)] + p
        elif isinstance(val, list):
            for i, x in enumerate(val):
                if isinstance(x, ast.AST):
                    p = _path_to(x, target)
                    if p is not None:
                        return [(fld, i)] + p
    return None


def _set_at(root, path, new):
    node = root
    for fld, i in path[:-1]:
        node = getattr(node, fld) if i is None else getattr(node, fld)[i]
    fld, i = path[-1]
    if i is None:
        setattr(node, fld, new)
    else:
        getattr(node, fld)[i] = new


def text(e) -> str:
    return unparse(e) if e is not None else "None"
