"""C16 helpers: what the locals of a function stand for (so that a rule can compare meaning, not spelling).

* `Locals(fn_node)` — definitions of the locals with element-wise tuple unpacking (`a, b = (x, y)`), `expand(expr)`
  replaces every local bound exactly once by its defining expression (recursively): temporaries, aliases and values
  read once into a local disappear.
* `unrolled(fn_node)` — a copy of the function in which loops over a literal table (`for k, a in (("VERTEX", "n_vertices"), ..)`,
  `for k, a in {..}.items()`) are replaced by one copy of the body per row with the row's constants substituted, and
  `getattr(x, "name")` by `x.name` — the table form and the spelled-out form of the same statements compare equal.
* `iterates(expr, coll_text, lc)` — does `expr` enumerate the elements of the collection (directly, through list() / enumerate()
  / a filtering comprehension / an alias)?

Nothing is executed.
"""

from __future__ import annotations

import ast
import copy
import re

from ..model import unparse

_RET = re.compile(r"^_ret__i\d+$")


def _is_none(e) -> bool:
    return isinstance(e, ast.Constant) and e.value is None


def _record_arg(call, fields, name):
    """The argument of a record construction that becomes the field `name`, else None."""
    if not fields or name not in fields or any(isinstance(a, ast.Starred) for a in call.args) or any(k.arg is None for k in call.keywords):
        return None
    i = fields.index(name)
    if i < len(call.args):
        return call.args[i]
    for k in call.keywords:
        if k.arg == name:
            return k.value
    return getattr(fields, "defaults", {}).get(name)  # a field left to its (constant) default


class _Fields(list):
    defaults: dict = {}


def record_fields(p, module):
    """call -> the field names (in order) of the NamedTuple / dataclass the call constructs, for classes of the package."""
    cache: dict = {}

    def of_class(ci):
        if ci.node is None:
            return None
        named = any(unparse(b).split(".")[-1] == "NamedTuple" for b in ci.node.bases)
        data = any(unparse(d.func if isinstance(d, ast.Call) else d).split(".")[-1] == "dataclass" for d in ci.node.decorator_list)
        if not (named or data) or any(isinstance(x, ast.FunctionDef) and x.name in ("__init__", "__new__", "__post_init__") for x in ci.node.body):
            return None
        decl = [x for x in ci.node.body if isinstance(x, ast.AnnAssign) and isinstance(x.target, ast.Name) and "ClassVar" not in unparse(x.annotation)]
        out = _Fields(x.target.id for x in decl)
        out.defaults = {x.target.id: x.value for x in decl if isinstance(x.value, ast.Constant)}
        return out

    def fields(call):
        f = call.func
        if not isinstance(f, ast.Name):
            return None
        if f.id not in cache:
            r = p.resolve_name(module, f.id)
            cache[f.id] = of_class(r[1]) if r and r[0] == "class" else None
        return cache[f.id]

    return fields


class Locals:
    def __init__(self, fn_node, fields=None):
        self.node = fn_node
        self.fields = fields  # call -> [field names] when the call constructs a record (NamedTuple / dataclass), else None
        a = fn_node.args
        self.params = {x.arg for x in a.posonlyargs + a.args + a.kwonlyargs}
        if a.vararg:
            self.params.add(a.vararg.arg)
        if a.kwarg:
            self.params.add(a.kwarg.arg)
        self._phis: dict = {}
        self._unpacked: list = []
        self.defs: dict = {}  # name -> [defining expression]
        self.augs: dict = {}  # name -> [AugAssign]
        self.opaque: set = set()  # re-bound by a loop / with / except / walrus / starred or nested unpacking / del
        for n in ast.walk(fn_node):
            if isinstance(n, (ast.Assign, ast.AnnAssign)) and n.value is not None:
                for t in (n.targets if isinstance(n, ast.Assign) else [n.target]):
                    self._bind(t, n.value)
            elif isinstance(n, ast.AugAssign):
                if isinstance(n.target, ast.Name):
                    self.augs.setdefault(n.target.id, []).append(n)
            elif isinstance(n, (ast.For, ast.AsyncFor, ast.comprehension)):
                self._opaque(n.target)
            elif isinstance(n, (ast.With, ast.AsyncWith)):
                for it in n.items:
                    if it.optional_vars is not None:
                        self._opaque(it.optional_vars)
            elif isinstance(n, ast.NamedExpr):
                self._opaque(n.target)
            elif isinstance(n, ast.ExceptHandler) and n.name:
                self.opaque.add(n.name)
            elif isinstance(n, ast.Delete):
                for t in n.targets:
                    self._opaque(t)
        # locals whose object is changed in place (`x[k] = ..`, `x[k] += ..`, `x.append(..)`): the name stands for the object
        self.mutated: set = set()
        for n in ast.walk(fn_node):
            if isinstance(n, (ast.Subscript, ast.Attribute)) and isinstance(n.ctx, (ast.Store, ast.Del)) and isinstance(n.value, ast.Name):
                self.mutated.add(n.value.id)
            elif isinstance(n, ast.Call) and isinstance(n.func, ast.Attribute) and isinstance(n.func.value, ast.Name) \
                    and n.func.attr in ("append", "extend", "insert", "update", "setdefault", "pop", "clear", "add", "remove", "sort"):
                self.mutated.add(n.func.value.id)
        for _ in range(4):  # through aliases: `counts = table; counts[k] += 1` changes `table`
            for nm in list(self.mutated):
                for v in self.defs.get(nm, []):
                    if isinstance(v, ast.Name):
                        self.mutated.add(v.id)
        # the result variable of an expanded helper: `_ret = None` followed by the assignment(s) standing for `return`
        for nm, vals in self.defs.items():
            if _RET.match(nm) and len(vals) > 1:
                rest = [v for v in vals if not _is_none(v)]
                if rest:
                    self.defs[nm] = rest
        # `a, b = pair` where pair is bound once to a tuple display (the result of an expanded helper returning two values)
        pending, self._unpacked = self._unpacked, []
        for target, value in pending:
            d = self.defs.get(value.id, [])
            if len(d) == 1 and isinstance(d[0], (ast.Tuple, ast.List)) and len(d[0].elts) == len(target.elts) and value.id not in self.opaque \
                    and value.id not in self.augs and value.id not in self.params and not any(isinstance(e, ast.Starred) for e in d[0].elts):
                self._bind(target, d[0])
            else:
                self._opaque(target)
        for target, _v in self._unpacked:
            self._opaque(target)
        self._collected()

    def _collected(self):
        """`rows = []; ...: rows.append(e)` (the only change ever made to rows) followed by `for r in rows:` — r stands for e: an
        eager pipeline stage (collect, then place) reads like the single loop it was split from."""
        appends: dict = {}
        other: set = set()
        stores: dict = {}
        for n in ast.walk(self.node):
            if isinstance(n, ast.Call) and isinstance(n.func, ast.Attribute) and isinstance(n.func.value, ast.Name):
                if n.func.attr == "append" and len(n.args) == 1 and not n.keywords:
                    appends.setdefault(n.func.value.id, []).append(n.args[0])
                elif n.func.attr in ("extend", "insert", "update", "setdefault", "pop", "clear", "add", "remove", "sort", "reverse"):
                    other.add(n.func.value.id)
            elif isinstance(n, (ast.Subscript, ast.Attribute)) and isinstance(n.ctx, (ast.Store, ast.Del)) and isinstance(n.value, ast.Name):
                other.add(n.value.id)
            elif isinstance(n, ast.Name) and isinstance(n.ctx, (ast.Store, ast.Del)):
                stores[n.id] = stores.get(n.id, 0) + 1
        for n in ast.walk(self.node):
            if not (isinstance(n, ast.For) and isinstance(n.iter, ast.Name)):
                continue
            lst = n.iter.id
            for _ in range(4):  # through plain aliases (`result = rows`)
                d = self.defs.get(lst, [])
                if len(d) == 1 and isinstance(d[0], ast.Name) and lst not in self.params and lst not in self.augs and lst not in self.opaque and stores.get(lst) in (1, 2):
                    lst = d[0].id
                else:
                    break
            d = self.defs.get(lst, [])
            empty = len(d) == 1 and ((isinstance(d[0], ast.List) and not d[0].elts) or (isinstance(d[0], ast.Call) and unparse(d[0].func) == "list" and not d[0].args))
            if not empty or lst in other or lst in self.params or lst in self.augs or lst in self.opaque or len(appends.get(lst, [])) != 1 or stores.get(lst) != 1:
                continue
            names = [x.id for x in ast.walk(n.target) if isinstance(x, ast.Name)]
            if any(stores.get(nm) != 1 or nm in self.params for nm in names):
                continue
            before = {k: list(v) for k, v in self.defs.items()}
            self.opaque -= set(names)
            self._bind(n.target, appends[lst][0])
            if any(nm in self.opaque for nm in names):  # could not be bound element-wise
                self.defs = before
                self.opaque |= set(names)

    def _opaque(self, target):
        for x in ast.walk(target):
            if isinstance(x, ast.Name):
                self.opaque.add(x.id)

    def _bind(self, target, value):
        if isinstance(target, ast.Name):
            self.defs.setdefault(target.id, []).append(value)
        elif isinstance(target, (ast.Tuple, ast.List)) and isinstance(value, (ast.Tuple, ast.List)) and len(target.elts) == len(value.elts) \
                and not any(isinstance(e, ast.Starred) for e in list(target.elts) + list(value.elts)):
            for t, v in zip(target.elts, value.elts):
                self._bind(t, v)
        elif isinstance(target, (ast.Tuple, ast.List)) and isinstance(value, ast.Name) and not any(isinstance(e, ast.Starred) for e in target.elts):
            self._unpacked.append((target, value))  # `a, b = pair`: decided when every definition is known
        elif isinstance(target, (ast.Tuple, ast.List, ast.Starred)):
            self._opaque(target)
        # stores into attributes / subscripts bind no local

    def is_local(self, name: str) -> bool:
        return name in self.defs or name in self.augs or name in self.opaque or name in self.params

    def single(self, name: str):
        """The only defining expression of a local bound exactly once (not a parameter, not re-bound any other way), else None."""
        if name in self.params or name in self.opaque or name in self.augs:
            return None
        vals = self.defs.get(name)
        if vals and len(vals) > 1 and name not in self.mutated:
            return self._phi(name)
        if not vals or len(vals) != 1:
            return None
        # a container built here has an identity of its own (it is filled / updated later): the name stands for the object, not for the display
        if isinstance(vals[0], (ast.Dict, ast.List, ast.Set, ast.ListComp, ast.DictComp, ast.SetComp)):
            return None
        if name in self.mutated and not isinstance(vals[0], ast.Name):
            return None
        return vals[0]

    def _phi(self, name: str):
        """`if c: x = a  else: x = b` (an if / elif / else chain assigning the local once per branch, and nowhere else) is the
        conditional expression `a if c else b`."""
        if name in self._phis:
            return self._phis[name]
        vals = self.defs.get(name, [])

        def simple_def(stmts):
            found = [s for s in stmts if isinstance(s, (ast.Assign, ast.AnnAssign)) and s.value is not None
                     and any(isinstance(t, ast.Name) and t.id == name for t in (s.targets if isinstance(s, ast.Assign) else [s.target]))]
            return found[0].value if len(found) == 1 else None

        def chain(st):
            """(expression, number of definitions used)"""
            a = simple_def(st.body)
            if a is None:
                return None
            if len(st.orelse) == 1 and isinstance(st.orelse[0], ast.If) and simple_def(st.orelse) is None:
                sub = chain(st.orelse[0])
                if sub is None:
                    return None
                b, used = sub
            else:
                b, used = simple_def(st.orelse), 1
                if b is None:
                    return None
            return ast.copy_location(ast.IfExp(test=st.test, body=a, orelse=b), st), used + 1

        out = None
        for n in ast.walk(self.node):
            if isinstance(n, ast.If):
                c = chain(n)
                if c is not None and c[1] == len(vals) and all(any(v is x for x in ast.walk(c[0])) for v in vals):
                    out = c[0]
                    break
        self._phis[name] = out
        return out

    def value_of(self, name: str):
        """Like single(), but a container display that is never changed in place is a plain value too."""
        d = self.single(name)
        if d is None and name not in self.params and name not in self.opaque and name not in self.augs and name not in self.mutated:
            vals = self.defs.get(name)
            if vals and len(vals) == 1:
                return vals[0]
        return d

    def sources(self, name: str) -> list:
        """Every expression that flows into the local by assignment: [(expr, additive?)] — an augmented assignment with an
        operator other than + is reported as not additive."""
        out = [(v, True) for v in self.defs.get(name, [])]
        for a in self.augs.get(name, []):
            out.append((a.value, isinstance(a.op, ast.Add)))
        return out

    def expand(self, expr, _seen=frozenset(), _depth=0):
        if expr is None or _depth > 12:
            return expr
        lc = self

        class E(ast.NodeTransformer):
            def visit_Name(self, n):
                if isinstance(n.ctx, ast.Load) and n.id not in _seen:
                    d = lc.single(n.id)
                    if d is not None:
                        return ast.copy_location(lc.expand(d, _seen | {n.id}, _depth + 1), n)
                return n

            def visit_Attribute(self, n):
                # `Record(a, b).second` is `b`
                self.generic_visit(n)
                if isinstance(n.value, ast.Call) and lc.fields is not None and isinstance(n.ctx, ast.Load):
                    got = _record_arg(n.value, lc.fields(n.value), n.attr)
                    if got is not None:
                        return ast.copy_location(got, n)
                return n

            def visit_Subscript(self, n):
                # `(a, b)[1]` / `Record(a, b)[1]` is `b`
                self.generic_visit(n)
                if isinstance(n.ctx, ast.Load) and isinstance(n.slice, ast.Constant) and isinstance(n.slice.value, int) and not isinstance(n.slice.value, bool):
                    i = n.slice.value
                    if isinstance(n.value, (ast.Tuple, ast.List)) and not any(isinstance(e, ast.Starred) for e in n.value.elts) and -len(n.value.elts) <= i < len(n.value.elts):
                        return ast.copy_location(n.value.elts[i], n)
                    if isinstance(n.value, ast.Call) and lc.fields is not None:
                        fl = lc.fields(n.value)
                        if fl and -len(fl) <= i < len(fl):
                            got = _record_arg(n.value, fl, fl[i])
                            if got is not None:
                                return ast.copy_location(got, n)
                return n

        return E().visit(copy.deepcopy(expr))

    def text(self, expr) -> str:
        return unparse(self.expand(expr))


# ---------------------------------------------------------------------- literal loops
def _cellv(e) -> bool:
    """A table cell that can stand for the loop variable wherever it is used: a constant, a name / attribute chain, a lambda,
    an attrgetter(..) call."""
    if isinstance(e, (ast.Constant, ast.Lambda, ast.Name, ast.Attribute)):
        return True
    return isinstance(e, ast.Call) and unparse(e.func).split(".")[-1] == "attrgetter" and all(isinstance(a, ast.Constant) for a in e.args) and not e.keywords


def _rows(it, resolve=None):
    """The rows of a literal table an expression enumerates: [[cell, ...]], or None.  `resolve` gives the value a module /
    class level name is bound to (a hoisted table)."""
    def look(e):
        if resolve is not None and isinstance(e, (ast.Name, ast.Attribute)):
            v = resolve(e)
            return v if v is not None else e
        return e

    def row(e):
        if isinstance(e, (ast.Tuple, ast.List)):
            return list(e.elts) if e.elts and all(_cellv(x) for x in e.elts) else None
        return [e] if _cellv(e) else None

    it = look(it)
    if isinstance(it, (ast.Tuple, ast.List, ast.Set)) and it.elts:
        rows = [row(e) for e in it.elts]
        return rows if all(r is not None for r in rows) else None
    if isinstance(it, ast.Dict) and it.keys and all(isinstance(k, ast.Constant) for k in it.keys):
        return [[k] for k in it.keys]
    if isinstance(it, ast.Call) and isinstance(it.func, ast.Attribute) and not it.args and not it.keywords:
        d = look(it.func.value)
        if isinstance(d, ast.Dict) and d.keys and all(isinstance(k, ast.Constant) for k in d.keys):
            if it.func.attr == "keys":
                return [[k] for k in d.keys]
            if all(_cellv(v) for v in d.values):
                if it.func.attr == "items":
                    return [[k, v] for k, v in zip(d.keys, d.values)]
                if it.func.attr == "values":
                    return [[v] for v in d.values]
    if isinstance(it, ast.Call) and isinstance(it.func, ast.Name) and it.func.id in ("list", "tuple", "iter") and len(it.args) == 1 and not it.keywords:
        return _rows(it.args[0], resolve)
    return None


def _own_jumps(body) -> bool:
    """break / continue belonging to this loop (not to a nested one)."""
    def rec(stmts):
        for s in stmts:
            if isinstance(s, (ast.Break, ast.Continue)):
                return True
            if isinstance(s, (ast.For, ast.AsyncFor, ast.While)):
                if rec(s.orelse):
                    return True
                continue
            if isinstance(s, (ast.FunctionDef, ast.AsyncFunctionDef, ast.ClassDef)):
                continue
            for fld in ("body", "orelse", "finalbody"):
                blk = getattr(s, fld, None)
                if isinstance(blk, list) and blk and isinstance(blk[0], ast.stmt) and rec(blk):
                    return True
            for h in getattr(s, "handlers", []) or []:
                if rec(h.body):
                    return True
        return False

    return rec(body)


class _Fold(ast.NodeTransformer):
    """getattr(x, "name") / getattr(x, "name", <constant>) / attrgetter("name")(x) -> x.name;  (lambda a: e)(x) -> e[a := x]"""

    def visit_Call(self, n):
        self.generic_visit(n)
        if isinstance(n.func, ast.Name) and n.func.id == "getattr" and len(n.args) in (2, 3) and not n.keywords \
                and isinstance(n.args[1], ast.Constant) and isinstance(n.args[1].value, str) and n.args[1].value.isidentifier() \
                and (len(n.args) == 2 or isinstance(n.args[2], ast.Constant)):
            return ast.copy_location(ast.Attribute(value=n.args[0], attr=n.args[1].value, ctx=ast.Load()), n)
        f = n.func
        if isinstance(f, ast.Call) and unparse(f.func).split(".")[-1] == "attrgetter" and len(f.args) == 1 and not f.keywords and len(n.args) == 1 and not n.keywords \
                and isinstance(f.args[0], ast.Constant) and isinstance(f.args[0].value, str) and f.args[0].value.isidentifier():
            return ast.copy_location(ast.Attribute(value=n.args[0], attr=f.args[0].value, ctx=ast.Load()), n)
        if isinstance(f, ast.Lambda) and not n.keywords and not any(isinstance(a, ast.Starred) for a in n.args):
            a = f.args
            if not (a.vararg or a.kwarg or a.kwonlyargs or a.defaults or a.posonlyargs) and len(a.args) == len(n.args) \
                    and all(isinstance(x, (ast.Name, ast.Attribute, ast.Constant)) for x in n.args):
                sub = {p.arg: x for p, x in zip(a.args, n.args)}

                class S(ast.NodeTransformer):
                    def visit_Name(self, m):
                        return ast.copy_location(copy.deepcopy(sub[m.id]), m) if m.id in sub and isinstance(m.ctx, ast.Load) else m

                    def visit_Lambda(self, m):
                        return m  # an inner lambda may re-bind the name

                return ast.copy_location(S().visit(copy.deepcopy(f.body)), n)
        return n


def unrolled(fn_node, resolve=None):
    """Copy of the function with loops over literal tables unrolled and constant getattr folded."""
    node = copy.deepcopy(fn_node)
    counter = [0]

    def names_in(x, ctx=None):
        return [m.id for m in ast.walk(x) if isinstance(m, ast.Name) and (ctx is None or isinstance(m.ctx, ctx))]

    def unroll(loop):
        rows = _rows(loop.iter, resolve)
        if rows is None or loop.orelse or _own_jumps(loop.body):
            return None
        tg = loop.target
        tnames = [tg.id] if isinstance(tg, ast.Name) else ([e.id for e in tg.elts] if isinstance(tg, (ast.Tuple, ast.List)) and all(isinstance(e, ast.Name) for e in tg.elts) else None)
        if tnames is None or any(len(r) != len(tnames) for r in rows):
            return None
        stored = set()
        for s in loop.body:
            stored |= set(names_in(s, (ast.Store, ast.Del)))
        if stored & set(tnames):
            return None
        # temporaries of the body: bound by a plain assignment in the body and mentioned nowhere else in the function
        inside = {id(m) for s in loop.body for m in ast.walk(s)} | {id(m) for m in ast.walk(loop.target)}
        outside = {m.id for m in ast.walk(node) if isinstance(m, ast.Name) and id(m) not in inside}
        auged = {a.target.id for s in loop.body for a in ast.walk(s) if isinstance(a, ast.AugAssign) and isinstance(a.target, ast.Name)}
        temps = {nm for nm in stored if nm not in outside and nm not in auged}
        out = []
        for r in rows:
            counter[0] += 1
            k = counter[0]
            sub = dict(zip(tnames, r))

            class S(ast.NodeTransformer):
                def visit_Name(self, n, sub=sub, k=k):
                    if n.id in sub and isinstance(n.ctx, ast.Load):
                        return ast.copy_location(copy.deepcopy(sub[n.id]), n)
                    if n.id in temps:
                        return ast.copy_location(ast.Name(id=f"{n.id}__u{k}", ctx=n.ctx), n)
                    return n

            out += [S().visit(copy.deepcopy(s)) for s in loop.body]
        return out

    def walk_block(stmts):
        out = []
        for s in stmts:
            for fld in ("body", "orelse", "finalbody"):
                blk = getattr(s, fld, None)
                if isinstance(blk, list) and blk and isinstance(blk[0], ast.stmt):
                    setattr(s, fld, walk_block(blk))
            for h in getattr(s, "handlers", []) or []:
                h.body = walk_block(h.body)
            if isinstance(s, ast.For):
                rep = unroll(s)
                if rep is not None:
                    out += rep
                    continue
            out.append(s)
        return out

    node.body = walk_block(node.body)
    node = _Fold().visit(node)
    ast.fix_missing_locations(node)
    return node


# ---------------------------------------------------------------------- iteration
def iterates(expr, coll_text: str, lc: Locals, _depth=0, any_order=False) -> bool:
    """`expr` yields the elements of the collection `coll_text` (each at most once, all of them unless a filter drops some): the
    collection itself, an alias, list() / tuple() / iter(), a comprehension / filter() / filterfalse() that only drops elements;
    with any_order also reversed() / sorted()."""
    if _depth > 6 or expr is None:
        return False
    if unparse(expr) == coll_text or lc.text(expr) == coll_text:
        return True
    e = lc.expand(expr)
    if isinstance(e, ast.Name) and lc.value_of(e.id) is not None:
        return iterates(lc.value_of(e.id), coll_text, lc, _depth + 1, any_order)
    if isinstance(e, ast.Call):
        fname = unparse(e.func).split(".")[-1]
        if fname in ("list", "tuple", "iter") + (("reversed", "sorted") if any_order else ()) and len(e.args) == 1 and (not e.keywords or fname == "sorted"):
            return iterates(e.args[0], coll_text, lc, _depth + 1, any_order)
        if fname in ("filter", "filterfalse") and len(e.args) == 2 and not e.keywords:
            return iterates(e.args[1], coll_text, lc, _depth + 1, any_order)
    if isinstance(e, (ast.ListComp, ast.GeneratorExp)) and len(e.generators) == 1:
        g = e.generators[0]
        if isinstance(g.target, ast.Name) and isinstance(e.elt, ast.Name) and e.elt.id == g.target.id:
            return iterates(g.iter, coll_text, lc, _depth + 1, any_order)
    return False


def element_vars(fn_node, coll_text: str, lc: Locals, any_order=False) -> dict:
    """name -> the loop / comprehension node binding it to the elements of the collection, for `for x in coll`,
    `for i, x in enumerate(coll)`."""
    out = {}
    for n in ast.walk(fn_node):
        if not isinstance(n, (ast.For, ast.comprehension)):
            continue
        it, tg = n.iter, n.target
        e = lc.expand(it)
        if isinstance(e, ast.Call) and isinstance(e.func, ast.Name) and e.func.id == "enumerate" and e.args and isinstance(tg, (ast.Tuple, ast.List)) and len(tg.elts) == 2:
            it, tg = e.args[0], tg.elts[1]
        if isinstance(tg, ast.Name) and iterates(it, coll_text, lc, 0, any_order):
            out[tg.id] = n
    return out


def enclosing(fn_node, target):
    """Compound statements around `target` (outermost first), each with the name of the block holding it."""
    path = []

    def rec(node, trail):
        for fld in ("body", "orelse", "finalbody"):
            blk = getattr(node, fld, None)
            if isinstance(blk, list):
                for s in blk:
                    if s is target:
                        path.extend(trail + [(node, fld)])
                        return True
                    if isinstance(s, ast.stmt) and rec(s, trail + [(node, fld)]):
                        return True
        for h in getattr(node, "handlers", []) or []:
            for s in h.body:
                if s is target:
                    path.extend(trail + [(node, "handler")])
                    return True
                if rec(s, trail + [(node, "handler")]):
                    return True
        return False

    rec(fn_node, [])
    return path[1:] if path and path[0][0] is fn_node else path


# ---------------------------------------------------------------------- calls: where a statement may have been moved to
def resolve_call(p, fn, call, recv_cls=None) -> list:
    """[(FuncInfo, class of the receiver inside it)] — the functions of the package a call may run.  `fn` is the function holding
    the call and `recv_cls` the class of its own receiver (the anchor's class when `fn` was reached from an anchor through
    super() / cls / self), so that `cls.hook()` inside an inherited method dispatches to the override the anchor's class sees."""
    g = call.func
    name = g.attr if isinstance(g, ast.Attribute) else getattr(g, "id", None)
    if not name or name.startswith("__"):
        return []
    out = []
    if isinstance(g, ast.Attribute):
        v = g.value
        start = recv_cls if recv_cls is not None else fn.cls
        if isinstance(v, ast.Call) and isinstance(v.func, ast.Name) and v.func.id == "super" and not v.args and fn.cls is not None and start is not None:
            mro = [c for c in start.mro if not isinstance(c, str)]
            after = mro[mro.index(fn.cls) + 1:] if fn.cls in mro else []
            for c in after:
                m = c.own(name)
                if m is not None:
                    if m[0] == "method":
                        out.append((m[1], start))
                    break
        elif isinstance(v, ast.Name) and fn.cls is not None and v.id in ("self", "cls", fn.self_name or ""):
            m = start.lookup(name)
            if m and m[1] == "method":
                out.append((m[2], start))
            for sub in p.subclasses(start, strict=True):
                o = sub.own(name)
                if o is not None and o[0] == "method":
                    out.append((o[1], sub))
        elif isinstance(v, ast.Name):
            r = p.resolve_name(fn.module, v.id)
            if r and r[0] == "class":
                m = r[1].lookup(name)
                if m and m[1] == "method":
                    out.append((m[2], r[1]))
    elif isinstance(g, ast.Name):
        r = p.resolve_name(fn.module, name)
        if r and r[0] == "func":
            out.append((r[1], None))
    return [(f, c) for f, c in out if f.module.in_scope]


def reachable(ctx, fn, recv_cls=None, depth: int = 3) -> list:
    """Normalised views of the functions reached from `fn` by calls its own view could not expand (hooks overridden in a
    subclass, super(), generators, ...), transitively, with the receiver class each is reached with."""
    out, seen = [], {id(fn.node)}

    def visit(view, recv, level):
        for c in ast.walk(view.node):
            if isinstance(c, ast.Call):
                # the call itself, and functions handed over as arguments (`map(cls._one, items)`)
                refs = [ast.Call(func=a, args=[], keywords=[]) for a in list(c.args) + [k.value for k in c.keywords] if isinstance(a, (ast.Name, ast.Attribute))]
                for target, r in [x for cc in [c] + refs for x in resolve_call(ctx.p, view, cc, recv)]:
                    if id(target.node) in seen:
                        continue
                    seen.add(id(target.node))
                    v = ctx.view(target)
                    out.append((v, r))
                    if level < depth:
                        visit(v, r, level + 1)

    visit(ctx.view(fn), recv_cls if recv_cls is not None else fn.cls, 0)
    return out


# ---------------------------------------------------------------------- generators consumed by a for loop
def _own_yields(fn_node):
    out = []

    def rec(n):
        for c in ast.iter_child_nodes(n):
            if isinstance(c, (ast.FunctionDef, ast.AsyncFunctionDef, ast.Lambda, ast.ClassDef)):
                continue
            if isinstance(c, (ast.Yield, ast.YieldFrom)):
                out.append(c)
            rec(c)

    rec(fn_node)
    return out


def with_generators_inlined(ctx, fn, node, recv_cls=None):
    """`for t in gen(args): BODY` where gen is a generator function of the package is the body of gen with every `yield e`
    replaced by `t = e; BODY` (the generator is resumed exactly where the loop body ends, so the interleaving is the same).
    Done on a copy; loops whose generator has a return, a `yield` used as an expression or a `yield from`, or whose body
    breaks out, are left alone."""
    node = copy.deepcopy(node)
    counter = [0]

    def bound(n):
        out = set()
        a = getattr(n, "args", None)
        if isinstance(a, ast.arguments):
            out |= {x.arg for x in a.posonlyargs + a.args + a.kwonlyargs}
        for x in ast.walk(n):
            if isinstance(x, ast.Name) and isinstance(x.ctx, (ast.Store, ast.Del)):
                out.add(x.id)
        return out

    def expand(loop):
        if not isinstance(loop.iter, ast.Call) or loop.orelse:
            return None
        call = loop.iter
        targets = resolve_call(ctx.p, fn, call, recv_cls)
        if len(targets) != 1:
            return None
        gen = targets[0][0]
        ys = _own_yields(gen.node)
        if not ys or any(isinstance(y, ast.YieldFrom) for y in ys):
            return None
        gview = ctx.view(gen)
        gnode = copy.deepcopy(gview.node)
        ystmts = [s for s in ast.walk(gnode) if isinstance(s, ast.Expr) and isinstance(s.value, ast.Yield)]
        if len(ystmts) != len(_own_yields(gnode)) or any(isinstance(x, ast.Return) for x in ast.walk(gnode)):
            return None
        a = gnode.args
        if a.vararg or a.kwarg or any(isinstance(x, ast.Starred) for x in call.args) or any(k.arg is None for k in call.keywords):
            return None
        # break in the loop body would have to stop the generator: not expressible; continue ends the body only
        def jumps(stmts, kind):
            for st in stmts:
                if isinstance(st, kind):
                    return True
                if isinstance(st, (ast.For, ast.AsyncFor, ast.While, ast.FunctionDef, ast.AsyncFunctionDef, ast.ClassDef)):
                    continue
                for fld in ("body", "orelse", "finalbody"):
                    blk = getattr(st, fld, None)
                    if isinstance(blk, list) and blk and isinstance(blk[0], ast.stmt) and jumps(blk, kind):
                        return True
                for h in getattr(st, "handlers", []) or []:
                    if jumps(h.body, kind):
                        return True
            return False

        if jumps(loop.body, ast.Break):
            return None
        params = [x.arg for x in a.posonlyargs + a.args]
        defaults = dict(zip(params[len(params) - len(a.defaults):], a.defaults))
        for k, d in zip(a.kwonlyargs, a.kw_defaults):
            params.append(k.arg)
            if d is not None:
                defaults[k.arg] = d
        args = list(call.args)
        if gen.kind in ("method", "classmethod") and isinstance(call.func, ast.Attribute):
            args = [call.func.value] + args
        binding = dict(zip(params, args))
        for k in call.keywords:
            binding[k.arg] = k.value
        for prm in params:
            if prm not in binding:
                if prm not in defaults:
                    return None
                binding[prm] = defaults[prm]
        counter[0] += 1
        taken = bound(node)
        ren = {nm: f"{nm}__g{counter[0]}" for nm in bound(gnode) if nm in taken and not (isinstance(binding.get(nm), ast.Name) and binding[nm].id == nm)}

        class Ren(ast.NodeTransformer):
            def visit_Name(self, n):
                return ast.copy_location(ast.Name(id=ren[n.id], ctx=n.ctx), n) if n.id in ren else n

        body = [Ren().visit(s) for s in gnode.body if not (isinstance(s, ast.Expr) and isinstance(s.value, ast.Constant) and isinstance(s.value.value, str))]
        pre = []
        for prm in params:
            tgt = ren.get(prm, prm)
            if isinstance(binding[prm], ast.Name) and binding[prm].id == tgt:
                continue
            pre.append(ast.copy_location(ast.Assign(targets=[ast.Name(id=tgt, ctx=ast.Store())], value=copy.deepcopy(binding[prm]), lineno=loop.lineno), loop))
        consumer = loop.body
        if jumps(consumer, ast.Continue):
            once = ast.For(target=ast.Name(id=f"_once__g{counter[0]}", ctx=ast.Store()), iter=ast.Tuple(elts=[ast.Constant(value=None)], ctx=ast.Load()),
                           body=consumer, orelse=[], lineno=loop.lineno)
            consumer = [ast.copy_location(once, loop)]

        def replace(stmts):
            out = []
            for st in stmts:
                if isinstance(st, ast.Expr) and isinstance(st.value, ast.Yield):
                    val = st.value.value if st.value.value is not None else ast.Constant(value=None)
                    out.append(ast.copy_location(ast.Assign(targets=[copy.deepcopy(loop.target)], value=val, lineno=st.lineno), st))
                    out += copy.deepcopy(consumer)
                    continue
                for fld in ("body", "orelse", "finalbody"):
                    blk = getattr(st, fld, None)
                    if isinstance(blk, list) and blk and isinstance(blk[0], ast.stmt):
                        setattr(st, fld, replace(blk))
                for h in getattr(st, "handlers", []) or []:
                    h.body = replace(h.body)
                out.append(st)
            return out

        return pre + replace(body)

    def walk_block(stmts):
        out = []
        for s in stmts:
            for fld in ("body", "orelse", "finalbody"):
                blk = getattr(s, fld, None)
                if isinstance(blk, list) and blk and isinstance(blk[0], ast.stmt):
                    setattr(s, fld, walk_block(blk))
            for h in getattr(s, "handlers", []) or []:
                h.body = walk_block(h.body)
            if isinstance(s, ast.For):
                rep = expand(s)
                if rep is not None:
                    out += rep
                    continue
            out.append(s)
        return out

    node.body = walk_block(node.body)
    ast.fix_missing_locations(node)
    return node


def static_value(p, fn, bound=()):
    """expr -> the expression a module-level name / a class attribute (`cls.X`, `self.X`, `Class.X`) is bound to, else None."""
    def value(e):
        if isinstance(e, ast.Name) and e.id not in bound:
            r = p.resolve_name(fn.module, e.id)
            if r and r[0] == "assign":
                return r[1][1]
        elif isinstance(e, ast.Attribute) and isinstance(e.value, ast.Name) and e.value.id not in bound:
            owner = fn.cls if fn.cls is not None and e.value.id in ("self", "cls", fn.self_name or "") else None
            if owner is None:
                r = p.resolve_name(fn.module, e.value.id)
                owner = r[1] if r and r[0] == "class" else None
            for c in (owner.mro if owner is not None else []):
                if not isinstance(c, str) and e.attr in c.class_assigns:
                    return c.class_assigns[e.attr][0]
        return None

    return value


def prepared(ctx, fn, recv_cls=None):
    """(node, Locals) of a function's normalised view, with consumed generators inlined, literal loops unrolled and records
    seen through."""
    node = with_generators_inlined(ctx, fn, fn.node, recv_cls)
    local = {x.id for x in ast.walk(node) if isinstance(x, ast.Name) and isinstance(x.ctx, (ast.Store, ast.Del))} - {"self", "cls"}
    node = unrolled(node, static_value(ctx.p, fn, local))
    return node, Locals(node, record_fields(ctx.p, fn.module))


# ---------------------------------------------------------------------- folds
def fold_uses(ctx, views) -> dict:
    """A fold — `accumulate(items, step, initial=s0)` / `reduce(step, items, s0)` — is the loop `state = s0; for x in items:
    state = step(state, x)`: the first parameter of the step function is a loop-carried variable whose sources are s0 and what
    the step returns.  Returns {(module relpath, class name | None, function name): [initial expression, ...]} for the package
    functions used as a step in the given views [(view, receiver class)]."""
    out: dict = {}
    for view, recv in views:
        for c in ast.walk(view.node):
            if not isinstance(c, ast.Call):
                continue
            f = unparse(c.func).split(".")[-1]
            step = init = None
            if f == "accumulate" and len(c.args) >= 2:
                step = c.args[1]
                init = next((k.value for k in c.keywords if k.arg == "initial"), None)
            elif f == "accumulate" and len(c.args) == 1:
                step = next((k.value for k in c.keywords if k.arg == "func"), None)
                init = next((k.value for k in c.keywords if k.arg == "initial"), None)
            elif f == "reduce" and len(c.args) == 3:
                step, init = c.args[0], c.args[2]
            if step is None or init is None or not isinstance(step, (ast.Name, ast.Attribute)):
                continue
            for target, _r in resolve_call(ctx.p, view, ast.Call(func=step, args=[], keywords=[]), recv):
                out.setdefault((target.module.relpath, target.cls.name if target.cls is not None else None, target.name), []).append(init)
    return out
