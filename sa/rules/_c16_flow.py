"""C16 helpers: what the locals of a function stand for (so that a rule can compare meaning, not spelling).

* `Locals(fn_node)` — definitions of the locals with element-wise tuple unpacking (`a, b = (x, y)`), `expand(expr)`
  replaces every local bound exactly once by its defining expression (recursively): temporaries, aliases and values
  read once into a local disappear.
* `unrolled(fn_node)` — a copy of the function in which loops over a literal table (`for k, a in (("VERTEX", "n_vertices"), ..)`,
  `for k, a in {..}.items()`) are replaced by one copy of the body per row with the row's constants substituted, and
  `getattr(x, "name")` by `x.name` — the table form and the spelled-out form of the same statements compare equal.
* `iterates(expr, coll_text, lc)` — does `expr` enumerate the elements of the collection (directly, through list() / enumerate()
  / a filtering comprehension / an alias)?

Nothing is executed.
"""

from __future__ import annotations

import ast
import copy
import re

from ..model import unparse

_RET = re.compile(r"^_ret__i\d+$")


def _is_none(e) -> bool:
    return isinstance(e, ast.Constant) and e.value is None


class Locals:
    def __init__(self, fn_node):
        self.node = fn_node
        a = fn_node.args
        self.params = {x.arg for x in a.posonlyargs + a.args + a.kwonlyargs}
        if a.vararg:
            self.params.add(a.vararg.arg)
        if a.kwarg:
            self.params.add(a.kwarg.arg)
        self._phis: dict = {}
        self.defs: dict = {}  # name -> [defining expression]
        self.augs: dict = {}  # name -> [AugAssign]
        self.opaque: set = set()  # re-bound by a loop / with / except / walrus / starred or nested unpacking / del
        for n in ast.walk(fn_node):
            if isinstance(n, (ast.Assign, ast.AnnAssign)) and n.value is not None:
                for t in (n.targets if isinstance(n, ast.Assign) else [n.target]):
                    self._bind(t, n.value)
            elif isinstance(n, ast.AugAssign):
                if isinstance(n.target, ast.Name):
                    self.augs.setdefault(n.target.id, []).append(n)
            elif isinstance(n, (ast.For, ast.AsyncFor, ast.comprehension)):
                self._opaque(n.target)
            elif isinstance(n, (ast.With, ast.AsyncWith)):
                for it in n.items:
                    if it.optional_vars is not None:
                        self._opaque(it.optional_vars)
            elif isinstance(n, ast.NamedExpr):
                self._opaque(n.target)
            elif isinstance(n, ast.ExceptHandler) and n.name:
                self.opaque.add(n.name)
            elif isinstance(n, ast.Delete):
                for t in n.targets:
                    self._opaque(t)
        # locals whose object is changed in place (`x[k] = ..`, `x[k] += ..`, `x.append(..)`): the name stands for the object
        self.mutated: set = set()
        for n in ast.walk(fn_node):
            if isinstance(n, ast.Subscript) and isinstance(n.ctx, (ast.Store, ast.Del)) and isinstance(n.value, ast.Name):
                self.mutated.add(n.value.id)
            elif isinstance(n, ast.Call) and isinstance(n.func, ast.Attribute) and isinstance(n.func.value, ast.Name) \
                    and n.func.attr in ("append", "extend", "insert", "update", "setdefault", "pop", "clear", "add", "remove", "sort"):
                self.mutated.add(n.func.value.id)
        for _ in range(4):  # through aliases: `counts = table; counts[k] += 1` changes `table`
            for nm in list(self.mutated):
                for v in self.defs.get(nm, []):
                    if isinstance(v, ast.Name):
                        self.mutated.add(v.id)
        # the result variable of an expanded helper: `_ret = None` followed by the assignment(s) standing for `return`
        for nm, vals in self.defs.items():
            if _RET.match(nm) and len(vals) > 1:
                rest = [v for v in vals if not _is_none(v)]
                if rest:
                    self.defs[nm] = rest

    def _opaque(self, target):
        for x in ast.walk(target):
            if isinstance(x, ast.Name):
                self.opaque.add(x.id)

    def _bind(self, target, value):
        if isinstance(target, ast.Name):
            self.defs.setdefault(target.id, []).append(value)
        elif isinstance(target, (ast.Tuple, ast.List)) and isinstance(value, (ast.Tuple, ast.List)) and len(target.elts) == len(value.elts) \
                and not any(isinstance(e, ast.Starred) for e in list(target.elts) + list(value.elts)):
            for t, v in zip(target.elts, value.elts):
                self._bind(t, v)
        elif isinstance(target, (ast.Tuple, ast.List, ast.Starred)):
            self._opaque(target)
        # stores into attributes / subscripts bind no local

    def is_local(self, name: str) -> bool:
        return name in self.defs or name in self.augs or name in self.opaque or name in self.params

    def single(self, name: str):
        """The only defining expression of a local bound exactly once (not a parameter, not re-bound any other way), else None."""
        if name in self.params or name in self.opaque or name in self.augs:
            return None
        vals = self.defs.get(name)
        if vals and len(vals) > 1 and name not in self.mutated:
            return self._phi(name)
        if not vals or len(vals) != 1:
            return None
        # a container built here has an identity of its own (it is filled / updated later): the name stands for the object, not for the display
        if isinstance(vals[0], (ast.Dict, ast.List, ast.Set, ast.ListComp, ast.DictComp, ast.SetComp)):
            return None
        if name in self.mutated and not isinstance(vals[0], ast.Name):
            return None
        return vals[0]

    def _phi(self, name: str):
        """`if c: x = a  else: x = b` (an if / elif / else chain assigning the local once per branch, and nowhere else) is the
        conditional expression `a if c else b`."""
        if name in self._phis:
            return self._phis[name]
        vals = self.defs.get(name, [])

        def simple_def(stmts):
            found = [s for s in stmts if isinstance(s, (ast.Assign, ast.AnnAssign)) and s.value is not None
                     and any(isinstance(t, ast.Name) and t.id == name for t in (s.targets if isinstance(s, ast.Assign) else [s.target]))]
            return found[0].value if len(found) == 1 else None

        def chain(st):
            """(expression, number of definitions used)"""
            a = simple_def(st.body)
            if a is None:
                return None
            if len(st.orelse) == 1 and isinstance(st.orelse[0], ast.If) and simple_def(st.orelse) is None:
                sub = chain(st.orelse[0])
                if sub is None:
                    return None
                b, used = sub
            else:
                b, used = simple_def(st.orelse), 1
                if b is None:
                    return None
            return ast.copy_location(ast.IfExp(test=st.test, body=a, orelse=b), st), used + 1

        out = None
        for n in ast.walk(self.node):
            if isinstance(n, ast.If):
                c = chain(n)
                if c is not None and c[1] == len(vals) and all(any(v is x for x in ast.walk(c[0])) for v in vals):
                    out = c[0]
                    break
        self._phis[name] = out
        return out

    def value_of(self, name: str):
        """Like single(), but a container display that is never changed in place is a plain value too."""
        d = self.single(name)
        if d is None and name not in self.params and name not in self.opaque and name not in self.augs and name not in self.mutated:
            vals = self.defs.get(name)
            if vals and len(vals) == 1:
                return vals[0]
        return d

    def sources(self, name: str) -> list:
        """Every expression that flows into the local by assignment: [(expr, additive?)] — an augmented assignment with an
        operator other than + is reported as not additive."""
        out = [(v, True) for v in self.defs.get(name, [])]
        for a in self.augs.get(name, []):
            out.append((a.value, isinstance(a.op, ast.Add)))
        return out

    def expand(self, expr, _seen=frozenset(), _depth=0):
        if expr is None or _depth > 12:
            return expr
        lc = self

        class E(ast.NodeTransformer):
            def visit_Name(self, n):
                if isinstance(n.ctx, ast.Load) and n.id not in _seen:
                    d = lc.single(n.id)
                    if d is not None:
                        return ast.copy_location(lc.expand(d, _seen | {n.id}, _depth + 1), n)
                return n

        return E().visit(copy.deepcopy(expr))

    def text(self, expr) -> str:
        return unparse(self.expand(expr))


# ---------------------------------------------------------------------- literal loops
def _rows(it):
    """The rows of a literal table an expression enumerates: [[Constant, ...]], or None."""
    def row(e):
        if isinstance(e, ast.Constant):
            return [e]
        if isinstance(e, (ast.Tuple, ast.List)) and e.elts and all(isinstance(x, ast.Constant) for x in e.elts):
            return list(e.elts)
        return None

    if isinstance(it, (ast.Tuple, ast.List, ast.Set)) and it.elts:
        rows = [row(e) for e in it.elts]
        return rows if all(r is not None for r in rows) else None
    if isinstance(it, ast.Dict) and it.keys and all(isinstance(k, ast.Constant) for k in it.keys):
        return [[k] for k in it.keys]
    if isinstance(it, ast.Call) and isinstance(it.func, ast.Attribute) and not it.args and not it.keywords and isinstance(it.func.value, ast.Dict):
        d = it.func.value
        if d.keys and all(isinstance(k, ast.Constant) for k in d.keys):
            if it.func.attr == "keys":
                return [[k] for k in d.keys]
            if all(isinstance(v, ast.Constant) for v in d.values):
                if it.func.attr == "items":
                    return [[k, v] for k, v in zip(d.keys, d.values)]
                if it.func.attr == "values":
                    return [[v] for v in d.values]
    if isinstance(it, ast.Call) and isinstance(it.func, ast.Name) and it.func.id in ("list", "tuple", "iter") and len(it.args) == 1 and not it.keywords:
        return _rows(it.args[0])
    return None


def _own_jumps(body) -> bool:
    """break / continue belonging to this loop (not to a nested one)."""
    def rec(stmts):
        for s in stmts:
            if isinstance(s, (ast.Break, ast.Continue)):
                return True
            if isinstance(s, (ast.For, ast.AsyncFor, ast.While)):
                if rec(s.orelse):
                    return True
                continue
            if isinstance(s, (ast.FunctionDef, ast.AsyncFunctionDef, ast.ClassDef)):
                continue
            for fld in ("body", "orelse", "finalbody"):
                blk = getattr(s, fld, None)
                if isinstance(blk, list) and blk and isinstance(blk[0], ast.stmt) and rec(blk):
                    return True
            for h in getattr(s, "handlers", []) or []:
                if rec(h.body):
                    return True
        return False

    return rec(body)


class _Fold(ast.NodeTransformer):
    """getattr(x, "name") / getattr(x, "name", <constant>) -> x.name"""

    def visit_Call(self, n):
        self.generic_visit(n)
        if isinstance(n.func, ast.Name) and n.func.id == "getattr" and len(n.args) in (2, 3) and not n.keywords \
                and isinstance(n.args[1], ast.Constant) and isinstance(n.args[1].value, str) and n.args[1].value.isidentifier() \
                and (len(n.args) == 2 or isinstance(n.args[2], ast.Constant)):
            return ast.copy_location(ast.Attribute(value=n.args[0], attr=n.args[1].value, ctx=ast.Load()), n)
        return n


def unrolled(fn_node):
    """Copy of the function with loops over literal tables unrolled and constant getattr folded."""
    node = copy.deepcopy(fn_node)
    counter = [0]

    def names_in(x, ctx=None):
        return [m.id for m in ast.walk(x) if isinstance(m, ast.Name) and (ctx is None or isinstance(m.ctx, ctx))]

    def unroll(loop):
        rows = _rows(loop.iter)
        if rows is None or loop.orelse or _own_jumps(loop.body):
            return None
        tg = loop.target
        tnames = [tg.id] if isinstance(tg, ast.Name) else ([e.id for e in tg.elts] if isinstance(tg, (ast.Tuple, ast.List)) and all(isinstance(e, ast.Name) for e in tg.elts) else None)
        if tnames is None or any(len(r) != len(tnames) for r in rows):
            return None
        stored = set()
        for s in loop.body:
            stored |= set(names_in(s, (ast.Store, ast.Del)))
        if stored & set(tnames):
            return None
        # temporaries of the body: bound by a plain assignment in the body and mentioned nowhere else in the function
        inside = {id(m) for s in loop.body for m in ast.walk(s)} | {id(m) for m in ast.walk(loop.target)}
        outside = {m.id for m in ast.walk(node) if isinstance(m, ast.Name) and id(m) not in inside}
        auged = {a.target.id for s in loop.body for a in ast.walk(s) if isinstance(a, ast.AugAssign) and isinstance(a.target, ast.Name)}
        temps = {nm for nm in stored if nm not in outside and nm not in auged}
        out = []
        for r in rows:
            counter[0] += 1
            k = counter[0]
            sub = dict(zip(tnames, r))

            class S(ast.NodeTransformer):
                def visit_Name(self, n, sub=sub, k=k):
                    if n.id in sub and isinstance(n.ctx, ast.Load):
                        return ast.copy_location(copy.deepcopy(sub[n.id]), n)
                    if n.id in temps:
                        return ast.copy_location(ast.Name(id=f"{n.id}__u{k}", ctx=n.ctx), n)
                    return n

            out += [S().visit(copy.deepcopy(s)) for s in loop.body]
        return out

    def walk_block(stmts):
        out = []
        for s in stmts:
            for fld in ("body", "orelse", "finalbody"):
                blk = getattr(s, fld, None)
                if isinstance(blk, list) and blk and isinstance(blk[0], ast.stmt):
                    setattr(s, fld, walk_block(blk))
            for h in getattr(s, "handlers", []) or []:
                h.body = walk_block(h.body)
            if isinstance(s, ast.For):
                rep = unroll(s)
                if rep is not None:
                    out += rep
                    continue
            out.append(s)
        return out

    node.body = walk_block(node.body)
    node = _Fold().visit(node)
    ast.fix_missing_locations(node)
    return node


# ---------------------------------------------------------------------- iteration
def iterates(expr, coll_text: str, lc: Locals, _depth=0) -> bool:
    """`expr` yields the elements of the collection `coll_text` (each once): the collection itself, an alias, list()/tuple()/iter()/
    reversed-free wrappers, a comprehension or filter() that only drops elements."""
    if _depth > 6 or expr is None:
        return False
    if unparse(expr) == coll_text or lc.text(expr) == coll_text:
        return True
    e = lc.expand(expr)
    if isinstance(e, ast.Name) and lc.value_of(e.id) is not None:
        return iterates(lc.value_of(e.id), coll_text, lc, _depth + 1)
    if isinstance(e, ast.Call) and isinstance(e.func, ast.Name) and not e.keywords:
        if e.func.id in ("list", "tuple", "iter") and len(e.args) == 1:
            return iterates(e.args[0], coll_text, lc, _depth + 1)
        if e.func.id == "filter" and len(e.args) == 2:
            return iterates(e.args[1], coll_text, lc, _depth + 1)
    if isinstance(e, (ast.ListComp, ast.GeneratorExp)) and len(e.generators) == 1:
        g = e.generators[0]
        if isinstance(g.target, ast.Name) and isinstance(e.elt, ast.Name) and e.elt.id == g.target.id:
            return iterates(g.iter, coll_text, lc, _depth + 1)
    return False


def element_vars(fn_node, coll_text: str, lc: Locals) -> dict:
    """name -> the loop / comprehension node binding it to the elements of the collection, for `for x in coll`,
    `for i, x in enumerate(coll)`."""
    out = {}
    for n in ast.walk(fn_node):
        if not isinstance(n, (ast.For, ast.comprehension)):
            continue
        it, tg = n.iter, n.target
        e = lc.expand(it)
        if isinstance(e, ast.Call) and isinstance(e.func, ast.Name) and e.func.id == "enumerate" and e.args and isinstance(tg, (ast.Tuple, ast.List)) and len(tg.elts) == 2:
            it, tg = e.args[0], tg.elts[1]
        if isinstance(tg, ast.Name) and iterates(it, coll_text, lc):
            out[tg.id] = n
    return out


def enclosing(fn_node, target):
    """Compound statements around `target` (outermost first), each with the name of the block holding it."""
    path = []

    def rec(node, trail):
        for fld in ("body", "orelse", "finalbody"):
            blk = getattr(node, fld, None)
            if isinstance(blk, list):
                for s in blk:
                    if s is target:
                        path.extend(trail + [(node, fld)])
                        return True
                    if isinstance(s, ast.stmt) and rec(s, trail + [(node, fld)]):
                        return True
        for h in getattr(node, "handlers", []) or []:
            for s in h.body:
                if s is target:
                    path.extend(trail + [(node, "handler")])
                    return True
                if rec(s, trail + [(node, "handler")]):
                    return True
        return False

    rec(fn_node, [])
    return path[1:] if path and path[0][0] is fn_node else path


def called_helpers(p, fn, depth: int = 2) -> list:
    """Private helpers (`cls._h(..)`, `self._h(..)`, `Class._h(..)`, module-level `_h(..)`) a function calls, transitively:
    the places a statement may have been moved to by a helper extraction."""
    out, seen = [], {id(fn.node)}

    def visit(f, level):
        for c in ast.walk(f.node):
            if not isinstance(c, ast.Call):
                continue
            g = c.func
            name = g.attr if isinstance(g, ast.Attribute) else getattr(g, "id", None)
            if not name or not name.startswith("_") or name.startswith("__"):
                continue
            target = None
            if isinstance(g, ast.Attribute) and isinstance(g.value, ast.Name):
                owner = None
                if f.cls is not None and g.value.id in ("self", "cls", f.self_name or ""):
                    owner = f.cls
                else:
                    r = p.resolve_name(f.module, g.value.id)
                    owner = r[1] if r and r[0] == "class" else None
                m = owner.lookup(name) if owner is not None else None
                if m and m[1] == "method":
                    target = m[2]
            elif isinstance(g, ast.Name):
                r = p.resolve_name(f.module, name)
                if r and r[0] == "func":
                    target = r[1]
            if target is not None and id(target.node) not in seen:
                seen.add(id(target.node))
                out.append(target)
                if level < depth:
                    visit(target, level + 1)

    visit(fn, 0)
    return out
