"""C16 — three more structural clauses of merging (round 5):

* KEY  — the key under which BaseMerger.merge_data groups the blocks of the inputs determines every attribute the merged data is
         created with (name, association, entity type): "data are concatenated per name, type and association";
* KEEP — the geometry a merger computes reaches the created object: no keyword the merger itself hands to `<type>.create` next
         to it has a setter (on the created type) that re-binds the storage of that geometry;
* drape offsets (part of PROV) — DrapeModelMerger.create_object shifts an index column of the prisms (which indexes the layers)
         and one of the layers (which indexes the prisms): what is accumulated into each shift is either read from the shifted
         array's own (already shifted) values or a count of the other array — an offset accumulates the count of what it indexes.

Everything is located by what the code does, on the prepared views of _c16_flow.py.
"""

from __future__ import annotations

import ast
import re

from ..model import AnalysisError, unparse
from ..roles import param
from ._c16_flow import Locals, prepared, reachable


def _self_fields_stored(fn) -> set:
    """Names of the attributes of self a function (re-)binds or deletes."""
    me = fn.self_name or "self"
    out = set()
    for n in ast.walk(fn.node):
        if isinstance(n, ast.Attribute) and isinstance(n.ctx, (ast.Store, ast.Del)) and isinstance(n.value, ast.Name) and n.value.id == me:
            out.add(n.attr)
    return out


# ---------------------------------------------------------------------- KEY
def grouping_key(ctx, res):
    from .c16 import _leaves, _role_text

    md = ctx.view("BaseMerger.merge_data")
    node, lc = prepared(ctx, md)
    out_name = param(md, 0, "out_entity")
    creations = [c for c in ast.walk(node) if isinstance(c, ast.Call) and isinstance(c.func, ast.Attribute) and c.func.attr == "add_data"
                 and lc.text(c.func.value) == out_name and c.args]
    if not creations:
        raise AnalysisError("BaseMerger.merge_data: the creation of a merged data (`<out>.add_data({...})`) not found")
    for call in creations:
        payload = call.args[0]
        if isinstance(payload, ast.Name) and lc.value_of(payload.id) is not None:
            payload = lc.value_of(payload.id)
        if not isinstance(payload, ast.Dict) or any(k is None for k in payload.keys):
            res.notes.append("merge_data: add_data payload is not a dict display; grouping key not judged")
            continue
        # what the new data takes from the input data: its name (outer key) and every entry but the values themselves
        taken = []
        for k, v in zip(payload.keys, payload.values):
            taken += _leaves(lc.expand(k))
            def entries(d, depth=0):
                """(key, value) of a dict display with `**other` displays spliced in."""
                d = lc.value_of(d.id) if isinstance(d, ast.Name) and lc.value_of(d.id) is not None else d
                if isinstance(d, ast.Call) and isinstance(d.func, ast.Name) and d.func.id == "dict" and depth <= 4:
                    for a in d.args:  # dict(other, k=v)
                        yield from entries(a, depth + 1)
                    for k in d.keywords:
                        if k.arg is None:
                            yield from entries(k.value, depth + 1)
                        else:
                            yield ast.Constant(value=k.arg), k.value
                    return
                if not isinstance(d, ast.Dict) or depth > 4:
                    return
                for ik, iv in zip(d.keys, d.values):
                    if ik is None:
                        yield from entries(iv, depth + 1)
                    else:
                        yield ik, iv

            for ik, iv in entries(v):
                if not (isinstance(ik, ast.Constant) and ik.value == "values"):
                    taken += _leaves(lc.expand(iv))
        taken = sorted({t for t in taken if "." in t and not t.startswith(out_name + ".")})
        # where the created data is kept: `<table>[key] = <that call>`
        ctext = lc.text(call)
        stores = [n for n in ast.walk(node) if isinstance(n, ast.Assign) and len(n.targets) == 1 and isinstance(n.targets[0], ast.Subscript)
                  and lc.text(n.value) == ctext]
        if not stores:
            res.notes.append("merge_data: the created data is not kept in a table; grouping key not judged")
            continue
        for st in stores:
            key = st.targets[0].slice
            forms = [key]
            if isinstance(key, ast.Name) and lc.single(key.id) is None and lc.defs.get(key.id):
                forms = list(lc.defs[key.id])  # re-bound (the duplicate label): every form it takes
            for form in forms:
                have = _leaves(lc.expand(form))
                if isinstance(key, ast.Name) and any(isinstance(x, ast.Name) and x.id == key.id for x in ast.walk(form)):
                    # built from the key itself (`label = (x,) + label[1:]`): it carries what the other forms carry
                    for other_form in forms:
                        if other_form is not form and not any(isinstance(x, ast.Name) and x.id == key.id for x in ast.walk(other_form)):
                            have = have + _leaves(lc.expand(other_form))
                missing = [t for t in taken if not any(h == t or h.startswith(t + ".") for h in have)]
                roots = {t.split(".")[0]: "<data>" for t in taken}
                res.inst(f"merge_data: grouping key `{unparse(form)[:60]}` determines {[_role_text(t, roots) for t in taken]}", nontrivial=True, ok=not missing)
                for m in missing:
                    res.find("BaseMerger", "merge_data", f"grouping key does not determine {_role_text(m, roots)}", f"{md.module.relpath}:{getattr(form, 'lineno', st.lineno)}",
                             f"the merged data is created with `{m}` of the first input seen, but the key that decides which inputs share one merged data does not "
                             "contain it: data that differ in it are poured into one data (values of different types concatenated under the first type)")
                # ... and the other way round: what the key distinguishes about the input data is handed to the creation explicitly
                # (an attribute left out is guessed by add_data — e.g. the association from the number of values)
                guessed = sorted({h for h in have if "." in h and h.split(".")[0] in roots
                                  and not any(h == t or h.startswith(t + ".") or t.startswith(h + ".") for t in taken)})
                res.inst(f"merge_data: every component of the grouping key `{unparse(form)[:60]}` is handed to add_data", nontrivial=True, ok=not guessed)
                for g in guessed:
                    res.find("BaseMerger", "merge_data", f"{_role_text(g, roots)} of the grouping key is not handed to add_data", f"{md.module.relpath}:{call.lineno}",
                             f"inputs are grouped by `{g}` but the merged data is created without it: add_data falls back on a guess (the association is inferred from "
                             "the number of values, cells first), so the merged data can get another value than the one its blocks were grouped under")


# ---------------------------------------------------------------------- KEEP
def _const_keys_added(fn_node, kw_names) -> dict:
    """key -> line, for constant keys added to one of the keyword dictionaries: d.setdefault("k", ..), d["k"] = .., d.update(k=..) /
    d.update({"k": ..}), {**d, "k": ..}, dict(d, k=..)."""
    out = {}
    for n in ast.walk(fn_node):
        if isinstance(n, ast.Call) and isinstance(n.func, ast.Attribute) and isinstance(n.func.value, ast.Name) and n.func.value.id in kw_names:
            if n.func.attr == "setdefault" and n.args and isinstance(n.args[0], ast.Constant) and isinstance(n.args[0].value, str):
                out.setdefault(n.args[0].value, n.lineno)
            elif n.func.attr == "update":
                for k in n.keywords:
                    if k.arg:
                        out.setdefault(k.arg, n.lineno)
                for a in n.args:
                    if isinstance(a, ast.Dict):
                        for dk in a.keys:
                            if isinstance(dk, ast.Constant) and isinstance(dk.value, str):
                                out.setdefault(dk.value, n.lineno)
        elif isinstance(n, ast.Subscript) and isinstance(n.ctx, ast.Store) and isinstance(n.value, ast.Name) and n.value.id in kw_names \
                and isinstance(n.slice, ast.Constant) and isinstance(n.slice.value, str):
            out.setdefault(n.slice.value, n.lineno)
        elif isinstance(n, ast.Dict) and any(k is None and isinstance(v, ast.Name) and v.id in kw_names for k, v in zip(n.keys, n.values)):
            for dk in n.keys:
                if isinstance(dk, ast.Constant) and isinstance(dk.value, str):
                    out.setdefault(dk.value, n.lineno)
        elif isinstance(n, ast.Call) and isinstance(n.func, ast.Name) and n.func.id == "dict" and n.args and isinstance(n.args[0], ast.Name) and n.args[0].id in kw_names:
            for k in n.keywords:
                if k.arg:
                    out.setdefault(k.arg, n.lineno)
    return out


def _dict_keys(ctx, e, fn, recv, depth=0):
    """{constant key: where} of a dictionary expression built by the package's own code — a display (with `**inner`), a local filled
    key by key, `dict(k=..)`, the result of a package function (dispatched on the receiver class: what it returns) — else None."""
    from ._c16_flow import resolve_call

    if depth > 14 or e is None:
        return None
    at = lambda n: f"{fn.module.relpath}:{getattr(n, 'lineno', fn.node.lineno)}"  # noqa: E731
    if isinstance(e, ast.Dict):
        out = {}
        for k, v in zip(e.keys, e.values):
            if k is None:
                out.update(_dict_keys(ctx, v, fn, recv, depth + 1) or {})  # what is known of it: a clash among known keys is a clash
            elif isinstance(k, ast.Constant) and isinstance(k.value, str):
                out.setdefault(k.value, at(e))
        return out
    if isinstance(e, ast.Name):
        a = fn.node.args
        if e.id in {x.arg for x in a.posonlyargs + a.args + a.kwonlyargs} or (a.kwarg is not None and e.id == a.kwarg.arg):
            return None  # the caller's
        defs = Locals(fn.node).defs.get(e.id, [])
        if not defs:
            return None
        out = {}
        for d in defs:
            got = _dict_keys(ctx, d, fn, recv, depth + 1)
            if got is None:
                return None
            out.update(got)
        for k, ln in _const_keys_added(fn.node, {e.id}).items():
            out.setdefault(k, f"{fn.module.relpath}:{ln}")
        return out
    if isinstance(e, ast.Call):
        if isinstance(e.func, ast.Name) and e.func.id == "dict":
            out = {}
            for a in e.args:
                out.update(_dict_keys(ctx, a, fn, recv, depth + 1) or {})
            out.update({k.arg: at(e) for k in e.keywords if k.arg})
            return out
        targets = resolve_call(ctx.p, fn, e, recv)
        if not targets:
            return None
        out = {}
        for target, r in targets:
            view = ctx.view(target)
            rets = [x.value for x in ast.walk(view.node) if isinstance(x, ast.Return) and x.value is not None]
            for rv in rets:
                got = _dict_keys(ctx, rv, view, r, depth + 1)
                if got is None:
                    return None
                out.update(got)
        return out
    return None


def geometry_kept(ctx, res):
    p = ctx.p
    base = p.cls("BaseMerger")
    judged = 0
    for merger in p.subclasses(base):
        m = merger.lookup("create_object")
        t = merger.lookup("_type")
        if m is None or m[1] != "method" or t is None or t[1] != "assign" or not isinstance(t[2], ast.Name):
            continue
        r = p.resolve_name(t[0].module, t[2].id)
        if not r or r[0] != "class" or r[1].lookup("create") is None:
            continue
        made = r[1]
        fns = [(ctx.view(m[2]), merger)] + reachable(ctx, m[2], merger)
        explicit, added = {}, {}
        for fn, _recv in fns:
            kw = {fn.node.args.kwarg.arg} if fn.node.args.kwarg is not None else set()
            lc = Locals(fn.node)
            kw |= {nm for nm, d in lc.defs.items() if len(d) == 1 and isinstance(d[0], ast.Name) and d[0].id in kw}
            for k, ln in _const_keys_added(fn.node, kw).items():
                added.setdefault(k, f"{fn.module.relpath}:{ln}")
            for c in ast.walk(fn.node):
                if not (isinstance(c, ast.Call) and isinstance(c.func, ast.Attribute)):
                    continue
                if c.func.attr == "create" and lc.text(c.func.value).endswith("._type"):
                    for k in c.keywords:
                        if k.arg:
                            explicit.setdefault(k.arg, f"{fn.module.relpath}:{c.lineno}")
                        elif not (isinstance(k.value, ast.Name) and k.value.id in kw):
                            # `**geometry`: a dictionary the merger builds itself (a display, filled key by key, returned by a hook)
                            for key, where in (_dict_keys(ctx, k.value, fn, _recv) or {}).items():
                                explicit.setdefault(key, where)
                elif c.func.attr == "create_object" and isinstance(c.func.value, ast.Call) and unparse(c.func.value.func) == "super":
                    # keywords written out in a delegation travel in the callee's **kwargs
                    callee_params = set(fn.params)
                    for k in c.keywords:
                        if k.arg and k.arg not in callee_params:
                            added.setdefault(k.arg, f"{fn.module.relpath}:{c.lineno}")
        if not explicit:
            continue
        judged += 1
        passed = dict(added)
        passed.update(explicit)
        for g, gwhere in explicit.items():
            gp = made.lookup(g)
            if gp is None or gp[1] != "prop" or gp[2].setter is None:
                continue
            # where the value lives: what the setter binds AND the getter reads back (caches of derived values the setter merely
            # invalidates are not the geometry)
            storage = _self_fields_stored(gp[2].setter)
            if gp[2].getter is not None:
                me = gp[2].getter.self_name or "self"
                read = {n.attr for n in ast.walk(gp[2].getter.node) if isinstance(n, ast.Attribute) and isinstance(n.value, ast.Name) and n.value.id == me}
                read |= {n.args[1].value for n in ast.walk(gp[2].getter.node) if isinstance(n, ast.Call) and isinstance(n.func, ast.Name) and n.func.id == "getattr"
                         and len(n.args) >= 2 and isinstance(n.args[1], ast.Constant) and isinstance(n.args[1].value, str)}
                storage &= read
            for k, kwhere in passed.items():
                if k == g:
                    continue
                kp = made.lookup(k)
                clash = sorted(storage & _self_fields_stored(kp[2].setter)) if kp is not None and kp[1] == "prop" and kp[2].setter is not None else []
                res.inst(f"{merger.name}: `{k}` handed to {made.name}.create next to `{g}` leaves {sorted(storage)} alone", nontrivial=True, ok=not clash)
                if clash:
                    res.find(merger.name, "create_object", f"`{k}` passed to create re-binds the storage of `{g}`", kwhere,
                             f"{merger.name} computes `{g}` and hands it to {made.name}.create together with `{k}`, whose setter re-binds {clash} — the storage "
                             f"of `{g}`: the merged {g} are dropped (and re-generated from something else), so they no longer connect the inputs' coordinates")
    if not judged:
        raise AnalysisError("no merger hands explicit geometry keywords to `<cls>._type.create(...)`: creation site not found")


# ---------------------------------------------------------------------- drape offsets
_KINDS = ("prisms", "layers")


def drape_offsets(ctx, res):
    from .c16 import _anchor

    ci, fn0 = _anchor(ctx, "DrapeModelMerger", "create_object")
    # the anchor with its helpers expanded, then whatever it reaches that cannot be expanded in place (a generator of blocks, a hook)
    found = 0
    for fn, recv in [(ctx.view(fn0), ci)] + reachable(ctx, fn0, ci):
        found += _drape_offsets_in(ctx, res, fn, recv)
    if not found:
        raise AnalysisError("DrapeModelMerger.create_object: the in-place shift of an index column of the prisms / layers not found")


def _drape_offsets_in(ctx, res, fn, ci) -> int:
    from .c16 import _leaves, _unwrapped

    node, lc = prepared(ctx, fn, ci)

    # which locals hold (rows of) the prisms / the layers of an input
    kind: dict = {}

    def kind_of(e, depth=0):
        e = _unwrapped(e)
        if depth > 8:
            return None
        if isinstance(e, ast.Attribute) and e.attr in _KINDS:
            return e.attr
        if isinstance(e, ast.Subscript):
            return kind_of(e.value, depth + 1)
        if isinstance(e, ast.Name):
            if e.id in kind:
                return kind[e.id]
            d = lc.single(e.id)
            return kind_of(d, depth + 1) if d is not None else None
        return None

    def arrayish(d):
        d = _unwrapped(d)
        while isinstance(d, ast.Subscript):
            d = _unwrapped(d.value)
        return isinstance(d, ast.Name) or (isinstance(d, ast.Attribute) and d.attr in _KINDS)

    for _ in range(4):
        for nm, ds in lc.defs.items():
            if nm in kind or nm in lc.params or nm in lc.opaque:
                continue
            ks = {kind_of(d) for d in ds}
            if len(ks) == 1 and None not in ks:
                kind[nm] = ks.pop()
            elif len(ks - {None}) == 1 and all(arrayish(d) for d in ds):
                kind[nm] = (ks - {None}).pop()  # re-bound to a shifted copy of itself (`a = a.copy(); ...`): still that array

    def kind_at(nm):
        if nm in kind:
            return kind[nm]
        ks = {kind_of(d) for d in lc.defs.get(nm, [])} - {None}
        return ks.pop() if len(ks) == 1 else None

    def leaf_kind(lf):
        """(kind, 'count' | 'values') of a leaf that reads the prisms / layers, else None."""
        inner = lf[4:-1] if lf.startswith("len(") and lf.endswith(")") else lf
        root = re.match(r"[A-Za-z_]\w*", inner)
        k = None
        if root and root.group(0) in kind:
            k = kind[root.group(0)]
            rest = inner[len(root.group(0)):]
        else:
            m = re.search(r"\.(prisms|layers)\b", inner)
            if m:
                k, rest = m.group(1), inner[m.end():]
        if k is None:
            return None
        is_count = lf.startswith("len(") or rest.startswith(".shape") or rest.startswith(".size")
        return k, ("count" if is_count else "values")

    sites = []  # (kind of the shifted array, offset expression, statement)
    for n in ast.walk(node):
        if isinstance(n, ast.AugAssign) and isinstance(n.op, ast.Add) and isinstance(n.target, ast.Subscript) and kind_of(n.target.value):
            sites.append((kind_of(n.target.value), n.value, n))
        elif isinstance(n, ast.Assign) and len(n.targets) == 1 and isinstance(n.targets[0], ast.Subscript) and kind_of(n.targets[0].value) \
                and isinstance(n.value, ast.BinOp) and isinstance(n.value.op, ast.Add):
            for a, b in ((n.value.left, n.value.right), (n.value.right, n.value.left)):
                if unparse(a) == unparse(n.targets[0]):
                    sites.append((kind_of(n.targets[0].value), b, n))
                    break
    if not sites:
        return 0
    # the shifted array is the one that reaches the merged object: an input's whole prisms / layers array handed to a collection
    # (`<list>.append(a)`) is the very object an in-place shift was applied to (aliases count, a copy made before the shift is another object)
    from .c16 import _stmt_of, _stmts_in_order

    order = _stmts_in_order(node.body)
    position = {id(st): i for i, st in enumerate(order)}

    def bindings(nm):
        """[(position, value)] of the plain assignments to the local, in document order."""
        out = []
        for st in order:
            if isinstance(st, (ast.Assign, ast.AnnAssign)) and st.value is not None:
                for t in (st.targets if isinstance(st, ast.Assign) else [st.target]):
                    if isinstance(t, ast.Name) and t.id == nm:
                        out.append((position[id(st)], st.value))
        return out

    def rep(nm, at, depth=0):
        """The local whose object `nm` names at statement position `at`: through the last plain `nm = other` before it."""
        b = [x for x in bindings(nm) if x[0] < at] or bindings(nm)
        if depth < 8 and nm not in lc.params and nm not in lc.opaque and b and isinstance(b[-1][1], ast.Name):
            return rep(b[-1][1].id, b[-1][0], depth + 1)
        return nm

    def whole_input_array(nm, at, depth=0):
        """At that position the local holds a whole prisms / layers array of an input (possibly a copy of one), not rows of it or a
        ghost built from rows."""
        b = [x for x in bindings(nm) if x[0] < at] or bindings(nm)
        if depth > 8 or not b or nm in lc.params or nm in lc.opaque:
            return False
        d = _unwrapped(b[-1][1])
        if isinstance(d, ast.Attribute) and d.attr in _KINDS:
            return True
        return isinstance(d, ast.Name) and whole_input_array(d.id, b[-1][0], depth + 1)

    shifted_objects = set()
    for n in ast.walk(node):
        tg = n.target if isinstance(n, ast.AugAssign) else (n.targets[0] if isinstance(n, ast.Assign) and len(n.targets) == 1 else None)
        if isinstance(tg, ast.Subscript) and isinstance(tg.value, ast.Name) and any(n is st for _k, _o, st in sites):
            shifted_objects.add(rep(tg.value.id, position.get(id(n), 0)))
    for c in ast.walk(node):
        handed = None  # what is handed over for the merged object: `<collection>.append(a, ..)`, `yield a, ..`
        if isinstance(c, ast.Call) and isinstance(c.func, ast.Attribute) and c.func.attr == "append":
            handed = list(c.args)
        elif isinstance(c, ast.Yield) and c.value is not None:
            handed = list(c.value.elts) if isinstance(c.value, (ast.Tuple, ast.List)) else [c.value]
        if handed is not None:
            at = position.get(id(_stmt_of(node, c)), len(order))
            for a in handed:
                if isinstance(a, ast.Name) and kind_at(a.id) and whole_input_array(a.id, at):
                    ok = rep(a.id, at) in shifted_objects
                    ka = kind_at(a.id)
                    res.inst(f"DrapeModelMerger.create_object: the {ka} array collected for the merged object is the shifted one", nontrivial=True, ok=ok)
                    if not ok:
                        res.find("DrapeModelMerger", "create_object", f"the {ka} collected for the merged object are not the shifted array",
                                 f"{fn.module.relpath}:{c.lineno}",
                                 f"the index column of an input's {ka} is shifted on another object (a copy whose result is dropped) than the array that is "
                                 "stacked into the merged object: from the second input on the merged indices are the input-local ones")
    done = set()
    for k, off, st in sites:
        other = "layers" if k == "prisms" else "prisms"
        followed: set = set()
        queue = [off]
        while queue:
            s = queue.pop(0)
            bad = []
            for lf in _leaves(lc.expand(s)):
                if lf in followed:
                    continue
                if lf.isidentifier() and lf not in lc.params and lf not in lc.opaque and lf not in kind and (lf in lc.defs or lf in lc.augs):
                    followed.add(lf)
                    queue += [v for v, _add in lc.sources(lf)]
                    continue
                lk = leaf_kind(lf)
                if lk is None:
                    continue  # nothing this clause understands
                if (lk[1] == "count" and lk[0] != other) or (lk[1] == "values" and lk[0] != k):
                    bad.append(lk)
            if isinstance(s, ast.Name) and s.id in followed and not bad:
                continue
            mark = (k, unparse(s))
            if mark in done:
                continue
            done.add(mark)
            res.inst(f"DrapeModelMerger.create_object: source `{unparse(s)[:50]}` of the offset added to the {k}", nontrivial=True, ok=not bad)
            for bk, how in bad:
                res.find("DrapeModelMerger", "create_object", f"offset of the {k} index column accumulates {'the count' if how == 'count' else 'values'} of the {bk}",
                         f"{fn.module.relpath}:{getattr(s, 'lineno', st.lineno)}",
                         f"the index column of the {k} refers to the {other}: its offset must advance by the number of {other} already merged (or be read from the "
                         f"{k}' own shifted indices), not by {'the number' if how == 'count' else 'values'} of {bk} — from the second input on the {k} point at the wrong {other}")
    return len(sites)


# ---------------------------------------------------------------------- same inputs for geometry and data
def same_inputs(ctx, res):
    """BaseMerger.merge_objects: the sequence of inputs handed to merge_data (whose running offsets advance once per element) is the
    sequence the geometry was built from by create_object."""
    mo = ctx.view("BaseMerger.merge_objects")
    node, lc = prepared(ctx, mo)

    def unwrap(e):
        e = lc.expand(e)
        while isinstance(e, ast.Call) and isinstance(e.func, ast.Name) and e.func.id in ("list", "tuple") and len(e.args) == 1 and not e.keywords:
            e = e.args[0]
        return e

    def inputs_arg(call, spec, index):
        fn = ctx.p.func(spec)
        names = fn.params[1:] if fn.kind in ("method", "classmethod") else fn.params
        if index < len(call.args) and not any(isinstance(a, ast.Starred) for a in call.args[: index + 1]):
            return call.args[index]
        return next((k.value for k in call.keywords if index < len(names) and k.arg == names[index]), None)

    made = [c for c in ast.walk(node) if isinstance(c, ast.Call) and isinstance(c.func, ast.Attribute) and c.func.attr == "create_object"
            and isinstance(c.func.value, ast.Name) and c.func.value.id in ("cls", "self")]
    filled = [c for c in ast.walk(node) if isinstance(c, ast.Call) and isinstance(c.func, ast.Attribute) and c.func.attr == "merge_data"
              and isinstance(c.func.value, ast.Name) and c.func.value.id in ("cls", "self")]
    if not made or not filled:
        raise AnalysisError("BaseMerger.merge_objects: the calls of create_object and merge_data not found")
    for g in made:
        for d in filled:
            a, b = inputs_arg(g, "BaseMerger.create_object", 1), inputs_arg(d, "BaseMerger.merge_data", 1)
            ok = a is not None and b is not None and unparse(unwrap(a)) == unparse(unwrap(b))
            res.inst("merge_objects: merge_data runs over the inputs create_object built the geometry from", nontrivial=True, ok=ok)
            if not ok:
                res.find("BaseMerger", "merge_objects", "merge_data is handed another sequence of inputs than create_object", f"{mo.module.relpath}:{d.lineno}",
                         "the running vertex / cell offsets of merge_data advance once per input it is given; the geometry holds the vertices / cells of ALL "
                         "the inputs handed to create_object: with a filtered or re-ordered list the blocks of the later inputs land on the wrong rows")
