"""C16: symbolic evaluation of the "vectorised" spelling of a running offset.

A loop `off = 0; for x in inputs: use(x, off); off += q(x)` is often rewritten as sequences: `counts = [q(x) for x in inputs]`,
`offsets = np.r_[0, np.cumsum(counts[:-1])]`, `[use(x, off) for x, off in zip(inputs, offsets)]`.  Whether the offset paired with
input k is the sum of the quantities of the inputs BEFORE k is a fact about the alignment of two sequences; it is decided here
by evaluating the sequence expressions on a symbolic list of N inputs: an element is a linear combination of atoms (k, q) —
"the per-input quantity q of input k" — plus a constant.  Nothing is executed; anything outside the small vocabulary
(slices with constant bounds, cumsum / accumulate, concatenations, zip / enumerate, comprehensions, element-wise + and -)
evaluates to None = unknown, and the caller falls back to its generic judgement.
"""

from __future__ import annotations

import ast

from ..model import unparse

N = 4  # symbolic number of inputs (every slice / scan / concatenation in the vocabulary behaves uniformly in the length)


class Term:
    """constant + sum of coeff * atom; an atom is (collection, k, quantity text)."""

    def __init__(self, coeffs=None, const=0):
        self.coeffs = {k: v for k, v in (coeffs or {}).items() if v != 0}
        self.const = const

    def __add__(self, o):
        c = dict(self.coeffs)
        for k, v in o.coeffs.items():
            c[k] = c.get(k, 0) + v
        return Term(c, self.const + o.const)

    def __neg__(self):
        return Term({k: -v for k, v in self.coeffs.items()}, -self.const)

    def __sub__(self, o):
        return self + (-o)

    def key(self):
        return (tuple(sorted(self.coeffs.items())), self.const)


class Input:
    def __init__(self, coll, k):
        self.coll, self.k = coll, k


class Seq(list):
    pylist = False  # a python list (`+` concatenates) rather than an array (`+` adds element-wise)


def _fname(call) -> str:
    return unparse(call.func).split(".")[-1]


class Evaluator:
    def __init__(self, lc, collections):
        self.lc = lc  # Locals of the function
        self.collections = set(collections)  # names that may hold the inputs (parameters)
        self.quantities: dict = {}  # quantity text -> (element expression, name of the input variable in it)

    # ------------------------------------------------------------------ sequences
    def seq(self, e, env, depth=0):
        if depth > 12 or e is None:
            return None
        lc = self.lc
        if isinstance(e, ast.Name):
            if e.id in env:
                v = env[e.id]
                return v if isinstance(v, Seq) else None
            if e.id in self.collections and e.id not in lc.defs and e.id not in lc.augs:
                return Seq(Input(e.id, k) for k in range(N))
            d = lc.value_of(e.id)
            if d is None:
                return None
            out = self.seq(d, {}, depth + 1)
            return out
        if isinstance(e, (ast.List, ast.Tuple)):
            out = Seq()
            out.pylist = True
            for x in e.elts:
                if isinstance(x, ast.Starred):
                    s = self.seq(x.value, env, depth + 1)
                    if s is None:
                        return None
                    out.extend(s)
                else:
                    v = self.value(x, env, depth + 1)
                    if v is None:
                        return None
                    out.append(v)
            return out
        if isinstance(e, (ast.ListComp, ast.GeneratorExp)) and len(e.generators) == 1 and not e.generators[0].ifs:
            g = e.generators[0]
            src = self.seq(g.iter, env, depth + 1)
            if src is None:
                return None
            out = Seq()
            out.pylist = isinstance(e, ast.ListComp)
            for item in src:
                env2 = dict(env)
                if not self.bind(g.target, item, env2):
                    return None
                v = self.value(e.elt, env2, depth + 1)
                if v is None:
                    return None
                out.append(v)
            return out
        if isinstance(e, ast.Subscript):
            # np.r_[a, b, ...]
            if isinstance(e.value, ast.Attribute) and e.value.attr == "r_":
                parts = e.slice.elts if isinstance(e.slice, ast.Tuple) else [e.slice]
                return self.concat(parts, env, depth)
            base = self.seq(e.value, env, depth + 1)
            if base is None or not isinstance(e.slice, ast.Slice):
                return None
            lo, hi, step = self.bound(e.slice.lower), self.bound(e.slice.upper), self.bound(e.slice.step)
            if lo is False or hi is False or step is False or step == 0:
                return None
            out = Seq(base[slice(lo, hi, step)])
            out.pylist = base.pylist
            return out
        if isinstance(e, ast.BinOp) and isinstance(e.op, (ast.Add, ast.Sub)):
            a, b = self.seq(e.left, env, depth + 1), self.seq(e.right, env, depth + 1)
            if a is not None and b is not None:
                if isinstance(e.op, ast.Add) and (a.pylist or b.pylist):
                    if not (a.pylist and b.pylist):
                        return None
                    out = Seq(list(a) + list(b))
                    out.pylist = True
                    return out
                if len(a) != len(b) or not all(isinstance(x, Term) for x in list(a) + list(b)):
                    return None
                return Seq((x + y) if isinstance(e.op, ast.Add) else (x - y) for x, y in zip(a, b))
            s, other = (a, e.right) if a is not None else (b, e.left)
            if s is None or s.pylist or not all(isinstance(x, Term) for x in s):
                return None
            t = self.scalar(other, env, depth + 1)
            if t is None:
                return None
            if isinstance(e.op, ast.Add):
                return Seq(x + t for x in s)
            return Seq((x - t) if a is not None else (t - x) for x in s)
        if isinstance(e, ast.Call):
            f = _fname(e)
            args = list(e.args)
            if isinstance(e.func, ast.Attribute) and f in ("cumsum", "tolist", "astype", "copy") and not (isinstance(e.func.value, ast.Name) and e.func.value.id in ("np", "numpy")):
                args = [e.func.value] + args  # method form
            if f in ("list", "tuple", "array", "asarray", "fromiter", "tolist", "astype", "copy", "iter") and args:
                s = self.seq(args[0], env, depth + 1)
                if s is None:
                    return None
                out = Seq(s)
                out.pylist = f in ("list", "tuple", "tolist")
                return out
            if f in ("cumsum", "accumulate") and args:
                if f == "accumulate" and (len(args) > 1 or any(k.arg not in ("initial",) for k in e.keywords)):
                    return None
                if f == "cumsum" and (len(args) > 1 or e.keywords):
                    return None
                s = self.seq(args[0], env, depth + 1)
                if s is None or not all(isinstance(x, Term) for x in s):
                    return None
                out, acc = Seq(), None
                init = next((k.value for k in e.keywords if k.arg == "initial"), None)
                if init is not None:
                    acc = self.scalar(init, env, depth + 1)
                    if acc is None:
                        return None
                    out.append(acc)
                for x in s:
                    acc = x if acc is None else acc + x
                    out.append(acc)
                return out
            if f in ("concatenate", "hstack") and len(args) == 1 and isinstance(args[0], (ast.List, ast.Tuple)) and not e.keywords:
                return self.concat(args[0].elts, env, depth)
            if f == "append" and len(args) == 2 and not e.keywords and isinstance(e.func.value, ast.Name) and e.func.value.id in ("np", "numpy"):
                return self.concat(args, env, depth)
            if f == "insert" and len(args) == 3 and not e.keywords and isinstance(args[1], ast.Constant) and args[1].value == 0:
                return self.concat([args[2], args[0]], env, depth)
            if f == "zip" and args and not e.keywords:
                parts = [self.seq(a, env, depth + 1) for a in args]
                if any(p is None for p in parts):
                    return None
                return Seq(tuple(p[i] for p in parts) for i in range(min(len(p) for p in parts)))
            if f == "enumerate" and len(args) == 1 and not e.keywords:
                s = self.seq(args[0], env, depth + 1)
                return None if s is None else Seq((Term(const=i), x) for i, x in enumerate(s))
        return None

    def concat(self, parts, env, depth):
        out = Seq()
        for p in parts:
            s = self.seq(p, env, depth + 1)
            if s is not None:
                out.extend(s)
                continue
            t = self.scalar(p, env, depth + 1)
            if t is None:
                return None
            out.append(t)
        return out

    @staticmethod
    def bound(b):
        """None / int for a constant slice bound, False for anything else."""
        if b is None:
            return None
        if isinstance(b, ast.Constant) and isinstance(b.value, int) and not isinstance(b.value, bool):
            return b.value
        if isinstance(b, ast.UnaryOp) and isinstance(b.op, ast.USub) and isinstance(b.operand, ast.Constant) and isinstance(b.operand.value, int):
            return -b.operand.value
        return False

    def bind(self, target, item, env) -> bool:
        if isinstance(target, ast.Name):
            env[target.id] = item
            return True
        if isinstance(target, (ast.Tuple, ast.List)) and isinstance(item, tuple) and len(item) == len(target.elts):
            return all(self.bind(t, x, env) for t, x in zip(target.elts, item))
        return False

    # ------------------------------------------------------------------ elements
    def value(self, e, env, depth):
        """An element: an Input, a Term, a tuple of elements."""
        if isinstance(e, ast.Name) and isinstance(env.get(e.id), (Input, tuple)):
            return env[e.id]
        if isinstance(e, ast.Tuple):
            vals = [self.value(x, env, depth + 1) for x in e.elts]
            return None if any(v is None for v in vals) else tuple(vals)
        return self.scalar(e, env, depth)

    def scalar(self, e, env, depth):
        if depth > 14:
            return None
        if isinstance(e, ast.Constant) and isinstance(e.value, (int, float)) and not isinstance(e.value, bool):
            return Term(const=e.value)
        if isinstance(e, ast.Name) and isinstance(env.get(e.id), Term):
            return env[e.id]
        if isinstance(e, ast.Name) and e.id not in env:
            d = self.lc.single(e.id)
            if d is not None:
                return self.scalar(d, {}, depth + 1)
        if isinstance(e, ast.BinOp) and isinstance(e.op, (ast.Add, ast.Sub)):
            used = {x.id for x in ast.walk(e) if isinstance(x, ast.Name)} & {k for k, v in env.items() if isinstance(v, Term)}
            if used:  # arithmetic on elements of another sequence: stays linear
                a, b = self.scalar(e.left, env, depth + 1), self.scalar(e.right, env, depth + 1)
                if a is None or b is None:
                    return None
                return a + b if isinstance(e.op, ast.Add) else a - b
        if isinstance(e, ast.Call) and _fname(e) in ("int", "float") and len(e.args) == 1 and not e.keywords \
                and isinstance(e.args[0], ast.Name) and isinstance(env.get(e.args[0].id), Term):
            return env[e.args[0].id]
        # a quantity of ONE input: the whole expression is an atom of that input
        names = {x.id for x in ast.walk(e) if isinstance(x, ast.Name)}
        ins = [(nm, env[nm]) for nm in names if isinstance(env.get(nm), Input)]
        others = [nm for nm in names if nm in env and not isinstance(env[nm], Input)]
        if len(ins) == 1 and not others:
            nm, inp = ins[0]

            class R(ast.NodeTransformer):
                def visit_Name(self, n):
                    return ast.copy_location(ast.Name(id="input__", ctx=n.ctx), n) if n.id == nm else n

            import copy

            q = unparse(R().visit(copy.deepcopy(self.lc.expand(e))))
            self.quantities.setdefault(q, (e, nm))
            return Term({(inp.coll, inp.k, q): 1})
        return None


def paired_offset(lc, collections, binder_iter, binder_target, owner, off):
    """The site `<owner>.cells + <off>` sits under a binder (`for <target> in <iter>` / a comprehension) that pairs each input with
    an element of another sequence.  Returns None when this is not that shape or cannot be evaluated, else
    (aligned?, [(quantity expression, input variable)]) — aligned: for every input k the offset is exactly the sum over the inputs
    before k of one and the same per-input quantity."""
    ev = Evaluator(lc, collections)
    items = ev.seq(binder_iter, {})
    if items is None or not items or not all(isinstance(it, tuple) for it in items):
        return None
    aligned, seen_q = True, set()
    rows = 0
    for it in items:
        env = {}
        if not ev.bind(binder_target, it, env):
            return None
        who = env.get(owner.id) if isinstance(owner, ast.Name) else None
        t = ev.scalar(off, env, 0)
        if not isinstance(who, Input) or t is None:
            return None
        rows += 1
        qs = {a[2] for a in t.coeffs}
        seen_q |= qs
        want = {(who.coll, i, q): 1 for q in qs for i in range(who.k)} if len(qs) == 1 else None
        if who.k == 0:
            ok = not t.coeffs and t.const == 0
        else:
            ok = want is not None and t.coeffs == want and t.const == 0
        aligned = aligned and ok
    if rows < N:
        aligned = False  # some input is never paired (the shorter sequence cuts the zip)
    return aligned, [ev.quantities[q] for q in sorted(seen_q) if q in ev.quantities]
