"""Shape-independent front end for the memoised-getter analysis of sa/cache.py (C17.CACHE, C18.CACHE).

sa/cache.py recognises `self.F is None` facts only on the true branch of a test (`if self.F is None [and ..]: <fill>`,
`assert self.F is None`).  The same code written with the opposite polarity — a guard clause
(`if self.F is not None: return self.F` followed by the fill), `if self.F is not None: raise ..` instead of an assert,
De Morgan (`if self.F is not None or self.x is None: return ..`) — means the same thing.  Before a function is handed
to the analysis it is brought into one canonical shape here (on a copy; positions of the original nodes are kept):

* a branch that always leaves (`return` / `raise` / `continue` / `break` last) absorbs nothing; the statements following the
  `if` are moved into the other branch (`if T: return X` + rest  ==  `if T: return X` `else: rest`);
* a test whose negation states that fields are None is negated and its branches swapped, so the None-fact sits on the
  true branch, where sa/cache.py looks for it.

Nothing else changes: stores, resets and calls stay the same nodes in the same order on every path.
"""

from __future__ import annotations

import ast
import copy
from dataclasses import replace

from ..cache import CacheAnalysis, _is_fetch, none_tested_field


def _negate(t):
    if isinstance(t, ast.UnaryOp) and isinstance(t.op, ast.Not):
        return t.operand
    if isinstance(t, ast.Compare) and len(t.ops) == 1:
        flip = {ast.Is: ast.IsNot, ast.IsNot: ast.Is, ast.Eq: ast.NotEq, ast.NotEq: ast.Eq}.get(type(t.ops[0]))
        if flip is not None:
            return ast.copy_location(ast.Compare(left=t.left, ops=[flip()], comparators=t.comparators), t)
    if isinstance(t, ast.BoolOp):
        op = ast.And() if isinstance(t.op, ast.Or) else ast.Or()
        return ast.copy_location(ast.BoolOp(op=op, values=[_negate(v) for v in t.values]), t)
    return ast.copy_location(ast.UnaryOp(op=ast.Not(), operand=t), t)


def _leaves(stmts) -> bool:
    """the block never falls through to the statement after it"""
    if not stmts:
        return False
    s = stmts[-1]
    if isinstance(s, (ast.Return, ast.Raise, ast.Continue, ast.Break)):
        return True
    if isinstance(s, ast.If):
        return _leaves(s.body) and _leaves(s.orelse)
    return False


def _pass_like(at):
    return ast.copy_location(ast.Pass(), at)


def _block(stmts, sn):
    out = []
    for i, s in enumerate(stmts):
        for fld in ("body", "orelse", "finalbody"):
            blk = getattr(s, fld, None)
            if isinstance(blk, list) and blk and isinstance(blk[0], ast.stmt):
                setattr(s, fld, _block(blk, sn))
        for h in getattr(s, "handlers", []) or []:
            h.body = _block(h.body, sn)
        if isinstance(s, ast.If):
            rest = stmts[i + 1:]
            absorbed = False
            if rest and _leaves(s.body) and not _leaves(s.orelse):
                s.orelse = s.orelse + _block(rest, sn)
                absorbed = True
            elif rest and s.orelse and _leaves(s.orelse) and not _leaves(s.body):
                s.body = s.body + _block(rest, sn)
                absorbed = True
            if not none_tested_field(s.test, sn):
                neg = _negate(s.test)
                if none_tested_field(neg, sn):
                    s.test = neg
                    s.body, s.orelse = (s.orelse or [_pass_like(s)]), s.body
                    if len(s.orelse) == 1 and isinstance(s.orelse[0], ast.Pass):
                        s.orelse = []
            out.append(s)
            if absorbed:
                return out
            continue
        out.append(s)
    return out


_NORM: dict = {}


def canonical(fn):
    """FuncInfo with the canonical body (cached per function node)."""
    key = id(fn.node)
    hit = _NORM.get(key)
    if hit is not None and hit[0] is fn.node:
        return hit[1]
    sn = fn.self_name
    if sn is None:
        _NORM[key] = (fn.node, fn)
        return fn
    node = copy.deepcopy(fn.node)
    node.body = _block(node.body, sn)
    ast.fix_missing_locations(node)
    new = replace(fn, node=node)
    _NORM[key] = (fn.node, new)
    return new


def memo_getters(K):
    """(property name, cache field, getter) for derived-value memoisation on K's class hierarchy — sa.cache.memo_getters on the canonical shape."""
    out = []
    seen = set()
    for c in K.mro:
        if isinstance(c, str):
            continue
        for name, pr in c.props.items():
            if name in seen:
                continue
            seen.add(name)
            g = pr.getter
            if g is None:
                continue
            sn = g.self_name
            for n in ast.walk(canonical(g).node):
                if not isinstance(n, ast.If):
                    continue
                flds = none_tested_field(n.test, sn)
                if not flds:
                    continue
                for st in ast.walk(ast.Module(body=n.body, type_ignores=[])):
                    if isinstance(st, (ast.Assign, ast.AnnAssign)) and st.value is not None:
                        for t in (st.targets if isinstance(st, ast.Assign) else [st.target]):
                            for e in (t.elts if isinstance(t, (ast.Tuple, ast.List)) else [t]):
                                if isinstance(e, ast.Attribute) and isinstance(e.value, ast.Name) and e.value.id == sn and e.attr in flds and not _is_fetch(st.value):
                                    if (name, e.attr) not in [(a, b) for a, b, _ in out]:
                                        out.append((name, e.attr, g))
    return out


class ShapeFreeCacheAnalysis(CacheAnalysis):
    """CacheAnalysis looking at every function (the analysed one and every callee it summarises) in canonical shape."""

    def summary(self, fn, depth=0, stack=()):
        return super().summary(canonical(fn), depth, stack)
