"""Shape-independent front end for the memoised-getter analysis of sa/cache.py (C17.CACHE, C18.CACHE).

sa/cache.py recognises `self.F is None` facts only on the true branch of a test (`if self.F is None [and ..]: <fill>`,
`assert self.F is None`).  The same code written with the opposite polarity — a guard clause
(`if self.F is not None: return self.F` followed by the fill), `if self.F is not None: raise ..` instead of an assert,
De Morgan (`if self.F is not None or self.x is None: return ..`) — means the same thing.  Before a function is handed
to the analysis it is brought into one canonical shape here (on a copy; positions of the original nodes are kept):

* a branch that always leaves (`return` / `raise` / `continue` / `break` last) absorbs nothing; the statements following the
  `if` are moved into the other branch (`if T: return X` + rest  ==  `if T: return X` `else: rest`);
* a test whose negation states that fields are None is negated and its branches swapped, so the None-fact sits on the
  true branch, where sa/cache.py looks for it.

Nothing else changes: stores, resets and calls stay the same nodes in the same order on every path.
"""

from __future__ import annotations

import ast
import copy
from dataclasses import replace

from ..cache import CacheAnalysis, _is_fetch, none_tested_field
from ..normalize import Normalizer, single_assignments


def _negate(t):
    if isinstance(t, ast.UnaryOp) and isinstance(t.op, ast.Not):
        return t.operand
    if isinstance(t, ast.Compare) and len(t.ops) == 1:
        flip = {ast.Is: ast.IsNot, ast.IsNot: ast.Is, ast.Eq: ast.NotEq, ast.NotEq: ast.Eq}.get(type(t.ops[0]))
        if flip is not None:
            return ast.copy_location(ast.Compare(left=t.left, ops=[flip()], comparators=t.comparators), t)
    if isinstance(t, ast.BoolOp):
        op = ast.And() if isinstance(t.op, ast.Or) else ast.Or()
        return ast.copy_location(ast.BoolOp(op=op, values=[_negate(v) for v in t.values]), t)
    return ast.copy_location(ast.UnaryOp(op=ast.Not(), operand=t), t)


def _leaves(stmts) -> bool:
    """the block never falls through to the statement after it"""
    if not stmts:
        return False
    s = stmts[-1]
    if isinstance(s, (ast.Return, ast.Raise, ast.Continue, ast.Break)):
        return True
    if isinstance(s, ast.If):
        return _leaves(s.body) and _leaves(s.orelse)
    return False


def _pass_like(at):
    return ast.copy_location(ast.Pass(), at)


def _block(stmts, sn):
    out = []
    for i, s in enumerate(stmts):
        for fld in ("body", "orelse", "finalbody"):
            blk = getattr(s, fld, None)
            if isinstance(blk, list) and blk and isinstance(blk[0], ast.stmt):
                setattr(s, fld, _block(blk, sn))
        for h in getattr(s, "handlers", []) or []:
            h.body = _block(h.body, sn)
        if isinstance(s, ast.If):
            rest = stmts[i + 1:]
            absorbed = False
            if rest and _leaves(s.body) and not _leaves(s.orelse):
                s.orelse = s.orelse + _block(rest, sn)
                absorbed = True
            elif rest and s.orelse and _leaves(s.orelse) and not _leaves(s.body):
                s.body = s.body + _block(rest, sn)
                absorbed = True
            if not none_tested_field(s.test, sn):
                neg = _negate(s.test)
                if none_tested_field(neg, sn):
                    s.test = neg
                    s.body, s.orelse = (s.orelse or [_pass_like(s)]), s.body
                    if len(s.orelse) == 1 and isinstance(s.orelse[0], ast.Pass):
                        s.orelse = []
            out.append(s)
            if absorbed:
                return out
            continue
        out.append(s)
    return out


_NORM: dict = {}
_EXPANDER: list = [None]


class _SelfPassing(Normalizer):
    """Expands, in place, only the calls that hand the object itself to a function the summaries of sa/cache.py do not follow:
    `helper(self, ..)` (module-level function of the package) and `Class.method(self, ..)` (explicit receiver).  What such a helper
    stores in / resets on the object then happens in the caller's body, under the caller's name for the object."""

    def _callee(self, fn, call):
        sn = fn.self_name
        if sn is None:
            return None
        t = self._const_dispatch(fn, call, sn)
        if t is not None:
            return t
        passed = [a for a in call.args if isinstance(a, ast.Name) and a.id == sn] + [k.value for k in call.keywords if isinstance(k.value, ast.Name) and k.value.id == sn]
        if not passed:
            return None
        f = call.func
        target = None
        if isinstance(f, ast.Name):
            r = self.p.resolve_name(fn.module, f.id)
            target = r[1] if r and r[0] == "func" else None
        elif isinstance(f, ast.Attribute) and isinstance(f.value, ast.Name) and f.value.id not in (sn, "self", "cls"):
            r = self.p.resolve_name(fn.module, f.value.id)
            if r and r[0] == "class":
                m = r[1].lookup(f.attr)
                target = m[2] if m and m[1] == "method" and m[2].kind == "method" else None
            elif r and r[0] == "module":
                target = r[1].functions.get(f.attr)
        if target is None or target.node is fn.node:
            return None
        a = target.node.args
        if a.vararg or a.kwarg or any(isinstance(x, ast.Starred) for x in call.args) or any(k.arg is None for k in call.keywords):
            return None
        if any(ast.unparse(d) not in ("staticmethod",) for d in target.node.decorator_list):
            return None
        if any(isinstance(x, (ast.Yield, ast.YieldFrom, ast.Global, ast.Nonlocal, ast.FunctionDef, ast.Lambda)) for st in target.node.body for x in ast.walk(st)):
            return None
        return target


def _computed_field_access(fn_node) -> bool:
    """the function reaches attributes of an object by a name it computes: getattr / setattr / delattr whose name is not a literal"""
    for c in ast.walk(fn_node):
        if isinstance(c, ast.Call) and isinstance(c.func, ast.Name) and c.func.id in ("getattr", "setattr", "delattr", "hasattr") and len(c.args) >= 2 \
                and not isinstance(c.args[1], ast.Constant):
            return True
    return False


def _const_dispatch(self, fn, call, sn):
    """`self.m(.., "u", ..)`: a method of the class that builds attribute names from a parameter, called with a literal for it — e.g. the
    per-axis siblings collapsed onto `_set_delimiters(axis, value)`.  Expanded in place (the literal bound to the parameter), after which
    the computed names fold to literals and the stores / reads are ordinary field accesses again."""
    f = call.func
    if not (isinstance(f, ast.Attribute) and isinstance(f.value, ast.Name) and f.value.id in (sn, "self", "cls") and fn.cls is not None):
        return None
    if not any(isinstance(a, ast.Constant) and isinstance(a.value, str) for a in list(call.args) + [k.value for k in call.keywords]):
        return None
    m = fn.cls.lookup(f.attr)
    target = m[2] if m and m[1] == "method" else None
    if target is None or target.node is fn.node or not _computed_field_access(target.node):
        return None
    for sub in self.p.subclasses(fn.cls, strict=True):
        if sub.own(f.attr) is not None:
            return None
    a = target.node.args
    if a.vararg or a.kwarg or any(isinstance(x, ast.Starred) for x in call.args) or any(k.arg is None for k in call.keywords):
        return None
    if any(ast.unparse(d) not in ("staticmethod", "classmethod") for d in target.node.decorator_list):
        return None
    if any(isinstance(x, (ast.Yield, ast.YieldFrom, ast.Global, ast.Nonlocal, ast.FunctionDef, ast.Lambda)) for st in target.node.body for x in ast.walk(st)):
        return None
    return target


_SelfPassing._const_dispatch = _const_dispatch


def _unroll_name_loops(node, literal_of):
    """`for name in ("u_cells", "v_cells", ..): .. getattr(self, name) ..`: a loop over a literal table of strings (local literal or module-level
    constant) whose variable is used to compute attribute names is written out, one copy of the body per entry with the entry in place of
    the variable — after which the names fold to literals.  Loops with break / continue / else, or re-binding their variable, are left."""
    def seq_of(e):
        if isinstance(e, ast.Name) and literal_of is not None:
            e = literal_of(e.id) or e
        if isinstance(e, (ast.Tuple, ast.List)) and 0 < len(e.elts) <= 12 and all(isinstance(x, ast.Constant) and isinstance(x.value, str) for x in e.elts):
            return [x.value for x in e.elts]
        return None

    def names_attrs(body, var):
        for st in body:
            for c in ast.walk(st):
                if isinstance(c, ast.Call) and isinstance(c.func, ast.Name) and c.func.id in ("getattr", "setattr", "delattr", "hasattr") and len(c.args) >= 2 \
                        and any(isinstance(x, ast.Name) and x.id == var for x in ast.walk(c.args[1])):
                    return True
        return False

    def block(stmts):
        out = []
        for st in stmts:
            for fld in ("body", "orelse", "finalbody"):
                blk = getattr(st, fld, None)
                if isinstance(blk, list) and blk and isinstance(blk[0], ast.stmt):
                    setattr(st, fld, block(blk))
            for h in getattr(st, "handlers", []) or []:
                h.body = block(h.body)
            if isinstance(st, ast.For) and isinstance(st.target, ast.Name) and not st.orelse:
                var = st.target.id
                vals = seq_of(st.iter)
                jumps = any(isinstance(x, (ast.Break, ast.Continue)) for b in st.body for x in ast.walk(b))
                rebinds = any(isinstance(x, ast.Name) and x.id == var and isinstance(x.ctx, (ast.Store, ast.Del)) for b in st.body for x in ast.walk(b))
                if vals is not None and not jumps and not rebinds and names_attrs(st.body, var):
                    for val in vals:
                        class S(ast.NodeTransformer):
                            def visit_Name(self, n, val=val):
                                return ast.copy_location(ast.Constant(value=val), n) if n.id == var and isinstance(n.ctx, ast.Load) else n

                        out += [S().visit(copy.deepcopy(b)) for b in st.body]
                    continue
            out.append(st)
        return out

    node.body = block(node.body)

    class Comp(ast.NodeTransformer):
        """[.. getattr(self, name) .. for name in TABLE] -> the display with one element per entry"""

        def _written_out(self, n):
            self.generic_visit(n)
            if len(n.generators) != 1 or n.generators[0].ifs or n.generators[0].is_async or not isinstance(n.generators[0].target, ast.Name):
                return n
            var = n.generators[0].target.id
            vals = seq_of(n.generators[0].iter)
            if vals is None or not names_attrs([ast.Expr(value=n.elt)], var):
                return n
            elts = []
            for val in vals:
                class S(ast.NodeTransformer):
                    def visit_Name(self, m, val=val):
                        return ast.copy_location(ast.Constant(value=val), m) if m.id == var and isinstance(m.ctx, ast.Load) else m

                elts.append(S().visit(copy.deepcopy(n.elt)))
            return ast.copy_location((ast.List if isinstance(n, ast.ListComp) else ast.Tuple)(elts=elts, ctx=ast.Load()), n)

        visit_ListComp = _written_out
        visit_GeneratorExp = _written_out

    node = Comp().visit(node)
    ast.fix_missing_locations(node)
    return node


def _fold_names(node, sn, table_of=None):
    """Literal propagation for computed attribute names: locals bound once to a string literal are replaced by it, f-strings / `+` of
    literals become literals, and `setattr(self, "<name>", v)` / `getattr(self, "<name>")` with a literal identifier become `self.<name> = v` /
    `self.<name>`."""
    for _round in range(4):
        consts = {k: v for k, v in single_assignments(node).items() if isinstance(v, ast.Constant) and isinstance(v.value, str)}
        changed = [False]

        class F(ast.NodeTransformer):
            def visit_Name(self, n):
                if isinstance(n.ctx, ast.Load) and n.id in consts:
                    changed[0] = True
                    return ast.copy_location(ast.Constant(value=consts[n.id].value), n)
                return n

            def visit_JoinedStr(self, n):
                self.generic_visit(n)
                parts = []
                for v in n.values:
                    if isinstance(v, ast.Constant) and isinstance(v.value, str):
                        parts.append(v.value)
                    elif isinstance(v, ast.FormattedValue) and v.conversion == -1 and v.format_spec is None and isinstance(v.value, ast.Constant) and isinstance(v.value.value, str):
                        parts.append(v.value.value)
                    else:
                        return n
                changed[0] = True
                return ast.copy_location(ast.Constant(value="".join(parts)), n)

            def visit_Subscript(self, n):
                # an entry of a literal table (local, or a module-level constant of the helper's module) selected by a literal key
                self.generic_visit(n)
                if isinstance(n.ctx, ast.Load) and isinstance(n.slice, ast.Constant):
                    tbl = n.value
                    if isinstance(tbl, ast.Name) and table_of is not None:
                        tbl = table_of(tbl.id) or tbl
                    if isinstance(tbl, ast.Dict):
                        for k, v in zip(tbl.keys, tbl.values):
                            if isinstance(k, ast.Constant) and k.value == n.slice.value and isinstance(v, ast.Constant) and isinstance(v.value, str):
                                changed[0] = True
                                return ast.copy_location(ast.Constant(value=v.value), n)
                return n

            def visit_BinOp(self, n):
                self.generic_visit(n)
                if isinstance(n.op, ast.Add) and all(isinstance(x, ast.Constant) and isinstance(x.value, str) for x in (n.left, n.right)):
                    changed[0] = True
                    return ast.copy_location(ast.Constant(value=n.left.value + n.right.value), n)
                return n

        node = F().visit(node)
        if not changed[0]:
            break

    def literal_field(c, nargs):
        return isinstance(c, ast.Call) and isinstance(c.func, ast.Name) and len(c.args) == nargs and not c.keywords and isinstance(c.args[0], ast.Name) \
            and c.args[0].id == sn and isinstance(c.args[1], ast.Constant) and isinstance(c.args[1].value, str) and c.args[1].value.isidentifier()

    class A(ast.NodeTransformer):
        def visit_Expr(self, n):
            self.generic_visit(n)
            c = n.value
            if literal_field(c, 3) and c.func.id == "setattr":
                tgt = ast.Attribute(value=ast.Name(id=sn, ctx=ast.Load()), attr=c.args[1].value, ctx=ast.Store())
                return ast.copy_location(ast.Assign(targets=[tgt], value=c.args[2], lineno=n.lineno), n)
            if literal_field(c, 2) and c.func.id == "delattr":
                tgt = ast.Attribute(value=ast.Name(id=sn, ctx=ast.Load()), attr=c.args[1].value, ctx=ast.Del())
                return ast.copy_location(ast.Delete(targets=[tgt]), n)
            return n

        def visit_Call(self, n):
            self.generic_visit(n)
            if literal_field(n, 2) and n.func.id == "getattr":
                return ast.copy_location(ast.Attribute(value=ast.Name(id=sn, ctx=ast.Load()), attr=n.args[1].value, ctx=ast.Load()), n)
            return n

    node = A().visit(node)
    ast.fix_missing_locations(node)
    return node


def use_project(project):
    """the project the functions handed to canonical() belong to (needed to find the helpers the object is passed to)"""
    if _EXPANDER[0] is None or _EXPANDER[0].p is not project:
        _EXPANDER[0] = _SelfPassing(project, depth=1)
        _NORM.clear()


def _unalias_self(node, sn):
    """names bound exactly once, by `x = self`, are the object itself: written `self` again (helper parameters after expansion, `me = self`)"""
    aliases = {k for k, v in single_assignments(node).items() if isinstance(v, ast.Name) and v.id == sn}
    if not aliases:
        return node

    class R(ast.NodeTransformer):
        def visit_Name(self, n):
            return ast.copy_location(ast.Name(id=sn, ctx=n.ctx), n) if n.id in aliases and isinstance(n.ctx, ast.Load) else n

    return R().visit(node)


def canonical(fn):
    """FuncInfo with the canonical body (cached per function node)."""
    key = id(fn.node)
    hit = _NORM.get(key)
    if hit is not None and hit[0] is fn.node:
        return hit[1]
    sn = fn.self_name
    if sn is None:
        _NORM[key] = (fn.node, fn)
        return fn
    def passes_self(nd):
        for c in ast.walk(nd):
            if isinstance(c, ast.Call):
                args = list(c.args) + [k.value for k in c.keywords]
                if any(isinstance(x, ast.Name) and x.id == sn for x in args):
                    return True
                if isinstance(c.func, ast.Attribute) and isinstance(c.func.value, ast.Name) and c.func.value.id == sn \
                        and any(isinstance(x, ast.Constant) and isinstance(x.value, str) for x in args):
                    return True  # maybe a literal handed to a helper that computes field names from it
        return False

    def table_of(name):
        """literal dict bound to a module-level name, looked up in the function's module and in the modules of the classes its class derives
        from (an expanded helper of a base class names the constants of its module)"""
        if _EXPANDER[0] is None or name in bound_here:
            return None
        mods = [fn.module] + [c.module for c in (fn.cls.mro if fn.cls is not None else []) if not isinstance(c, str) and c.module is not None]
        for mod in mods:
            r = _EXPANDER[0].p.resolve_name(mod, name)
            if r and r[0] == "assign" and isinstance(r[1][1], (ast.Dict, ast.Tuple, ast.List)):
                return r[1][1]
        return None

    bound_here = {x.id for x in ast.walk(fn.node) if isinstance(x, ast.Name) and isinstance(x.ctx, (ast.Store, ast.Del))} | set(fn.params)
    node = _unroll_name_loops(copy.deepcopy(fn.node), table_of)
    for _round in range(3):  # a helper handing the object on to another helper: one level per round, the parameter un-aliased in between
        if _EXPANDER[0] is None or not passes_self(node):
            break
        try:
            _EXPANDER[0]._views.clear()  # its cache is keyed by id(node): the nodes of earlier rounds are gone
            new = _EXPANDER[0].view(replace(fn, node=node), inline=True, consts=False).node
        except Exception:  # an expansion that cannot be done leaves the function as it is
            break
        new = _fold_names(_unalias_self(_unroll_name_loops(new, table_of), sn), sn, table_of)
        if ast.dump(new) == ast.dump(node):
            break
        node = new
    node = _fold_names(_unalias_self(node, sn), sn, table_of)
    node.body = _block(node.body, sn)
    ast.fix_missing_locations(node)
    new = replace(fn, node=node)
    _NORM[key] = (fn.node, new)
    return new


def deps(K, getter, cache_field: str, _seen=None) -> set:
    """sa.cache.deps (backing fields transitively read by `getter` on class K) on the canonical bodies: a field reached through a helper
    that computes its name from a literal argument counts as what it is."""
    from ..cache import NOT_FOLLOWED

    seen = _seen if _seen is not None else set()
    out: set = set()
    if getter in seen:
        return out
    seen.add(getter)
    sn = getter.self_name
    for n in ast.walk(canonical(getter).node):
        if isinstance(n, ast.Attribute) and isinstance(n.value, ast.Name) and n.value.id == sn and isinstance(n.ctx, ast.Load):
            name = n.attr
            if name in NOT_FOLLOWED or name.startswith("__"):
                continue
            m = K.lookup(name)
            if m and m[1] == "prop" and m[2].getter is not None:
                out |= deps(K, m[2].getter, cache_field, seen)
            elif m and m[1] == "method":
                out |= deps(K, m[2], cache_field, seen)
            elif name.startswith("_"):
                out.add(name)
        elif (
            isinstance(n, ast.Call) and isinstance(n.func, ast.Name) and n.func.id == "getattr"
            and len(n.args) >= 2 and isinstance(n.args[0], ast.Name) and n.args[0].id == sn
            and isinstance(n.args[1], ast.Constant) and str(n.args[1].value).startswith("_")
        ):
            out.add(n.args[1].value)
    out.discard(cache_field)
    return {f for f in out if "_" + f[1:] == f and f[1:] not in NOT_FOLLOWED}


def memo_getters(K):
    """(property name, cache field, getter) for derived-value memoisation on K's class hierarchy — sa.cache.memo_getters on the canonical shape."""
    out = []
    seen = set()
    for c in K.mro:
        if isinstance(c, str):
            continue
        for name, pr in c.props.items():
            if name in seen:
                continue
            seen.add(name)
            g = pr.getter
            if g is None:
                continue
            sn = g.self_name
            for n in ast.walk(canonical(g).node):
                if not isinstance(n, ast.If):
                    continue
                flds = none_tested_field(n.test, sn)
                if not flds:
                    continue
                for st in ast.walk(ast.Module(body=n.body, type_ignores=[])):
                    if isinstance(st, (ast.Assign, ast.AnnAssign)) and st.value is not None:
                        for t in (st.targets if isinstance(st, ast.Assign) else [st.target]):
                            for e in (t.elts if isinstance(t, (ast.Tuple, ast.List)) else [t]):
                                if isinstance(e, ast.Attribute) and isinstance(e.value, ast.Name) and e.value.id == sn and e.attr in flds and not _is_fetch(st.value):
                                    if (name, e.attr) not in [(a, b) for a, b, _ in out]:
                                        out.append((name, e.attr, g))
                    # the fill handed to a method of the class: `if self.F is None: self.build_default()` with build_default storing self.F
                    elif isinstance(st, ast.Call) and isinstance(st.func, ast.Attribute) and isinstance(st.func.value, ast.Name) and st.func.value.id == sn:
                        m = K.lookup(st.func.attr)
                        if m and m[1] == "method" and m[2].self_name:
                            msn = m[2].self_name
                            for x in ast.walk(m[2].node):
                                if isinstance(x, (ast.Assign, ast.AnnAssign)) and x.value is not None and not _is_fetch(x.value):
                                    for t in (x.targets if isinstance(x, ast.Assign) else [x.target]):
                                        if isinstance(t, ast.Attribute) and isinstance(t.value, ast.Name) and t.value.id == msn and t.attr in flds:
                                            if (name, t.attr) not in [(a, b) for a, b, _ in out]:
                                                out.append((name, t.attr, g))
    return out


class ShapeFreeCacheAnalysis(CacheAnalysis):
    """CacheAnalysis looking at every function (the analysed one and every callee it summarises) in canonical shape."""

    def summary(self, fn, depth=0, stack=()):
        return super().summary(canonical(fn), depth, stack)
