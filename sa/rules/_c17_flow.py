"""Flow-sensitive value provenance inside one function (used by C17.ROT / C17.ORIGIN / C18.PROV / C18.MATCH).

`Flow(fn_node)` computes reaching definitions on the control-flow graph of the function.  `cone(expr)` is the list of expressions the value
of `expr` is computed from: the expression itself and, transitively, the defining expressions of every local name /
`self.x` chain it reads, as they reach the statement holding `expr`.  Rules ask questions about the cone ("does it read the
origin", "does it contain an abs / sort call", "is parameter p among its roots") instead of comparing the spelling of locals,
so renamed locals, temporaries, aliases (`o = self.origin`, `o := self.origin`), values read once into a local, loops vs
vectorised / comprehension forms and reordered independent statements do not change a verdict — and a name that is re-bound
later (`xyz = rot @ xyz.T; xyz += origin`) does not taint an earlier use.

Bindings: `x = e`, `x: T = e`, `a, b = e` (element-wise when both sides are tuples of the same length), `x op= e` and
`x[i] = e` / `x[i] op= e` / `x.m(e)` as statement (weak: the old value flows on, also into / out of a plain alias of x),
`for x in e` (statement or comprehension), `with e as x`, `(x := e)`.  Nothing is executed.
"""

from __future__ import annotations

import ast

from collections import deque

from ..cfg import CFG

_ENTRY = -1
_E = frozenset([_ENTRY])


def key_of(e):
    """'x' for a Name, 'self.a.b' for a dotted chain on a Name, else None."""
    parts = []
    while isinstance(e, ast.Attribute):
        parts.append(e.attr)
        e = e.value
    if isinstance(e, ast.Name):
        parts.append(e.id)
        return ".".join(reversed(parts))
    return None


def call_name(c):
    """Last component of the called function: 'abs' for np.abs(..) / abs(..) / x.abs()."""
    f = c.func
    if isinstance(f, ast.Attribute):
        return f.attr
    if isinstance(f, ast.Name):
        return f.id
    return None


class Def:
    __slots__ = ("id", "key", "value", "node", "strong", "stmt", "walrus", "scoped", "index")

    def __init__(self, i, key, value, node, strong, stmt):
        self.id, self.key, self.value, self.node, self.strong, self.stmt = i, key, value, node, strong, stmt
        self.walrus = False  # visible to the other expressions of its own node
        self.scoped = False  # comprehension variable: not visible after its node
        self.index = None  # (i, n): bound to element i of an n-tuple `value` evaluates to (a, b = value)


def _expr_roots(node):
    """Expression trees evaluated by a graph node (not the nested statement bodies)."""
    a = node.ast
    if a is None or isinstance(a, list):
        return []
    if node.kind == "with":
        return [it.context_expr for it in a.items] + [it.optional_vars for it in a.items if it.optional_vars is not None]
    if node.kind == "except":
        return [a.type] if a.type is not None else []
    if node.kind == "def":
        return []
    return [a]


class Flow:
    def __init__(self, fn_node):
        self.fn = fn_node
        self.g = CFG(fn_node)
        self.defs: list[Def] = []
        self.gen: dict = {}  # cfg node -> [Def] in evaluation order
        self.where: dict = {}  # id(ast node) -> [cfg nodes]
        a = fn_node.args
        self.params = [x.arg for x in a.posonlyargs + a.args + a.kwonlyargs] + ([a.vararg.arg] if a.vararg else []) + ([a.kwarg.arg] if a.kwarg else [])
        # `self.m(..)` as a statement is not taken as a redefinition of `self` (every later self.x would depend on the arguments)
        self._is_method = bool(self.params) and self.params[0] in ("self", "cls")
        for n in self.g.nodes:
            for r in _expr_roots(n):
                for x in ast.walk(r):
                    self.where.setdefault(id(x), []).append(n)
            self.gen[n] = self._bindings(n)
        self.IN = {self.g.entry: {}}
        work = deque([self.g.entry])
        while work:
            n = work.popleft()
            out = self._transfer(n, self.IN[n])
            for m, _lab in n.succ:
                if m not in self.IN:
                    self.IN[m] = out
                    work.append(m)
                else:
                    j = self._join(self.IN[m], out)
                    if j != self.IN[m]:
                        self.IN[m] = j
                        work.append(m)

    # ------------------------------------------------------------------ definitions
    def _new(self, key, value, node, strong, stmt):
        d = Def(len(self.defs), key, value, node, strong, stmt)
        self.defs.append(d)
        return d

    def _target(self, t, value, node, stmt, out, weak=False):
        if isinstance(t, ast.Starred):
            t = t.value
        if isinstance(t, (ast.Tuple, ast.List)):
            vs = value.elts if isinstance(value, (ast.Tuple, ast.List)) and len(value.elts) == len(t.elts) and not any(isinstance(e, ast.Starred) for e in t.elts) else None
            for i, e in enumerate(t.elts):
                n0 = len(out)
                self._target(e, vs[i] if vs else value, node, stmt, out, weak)
                if vs is None and not isinstance(e, (ast.Tuple, ast.List, ast.Starred)) and not any(isinstance(x, ast.Starred) for x in t.elts):
                    for d in out[n0:]:
                        if d.index is None and d.value is value:
                            d.index = (i, len(t.elts))
            return
        strong = not weak
        b = t
        while isinstance(b, ast.Subscript):
            b = b.value
            strong = False
        k = key_of(b)
        if k is not None:
            out.append(self._new(k, value, node, strong, stmt))

    def _bindings(self, node):
        out = []
        a = node.ast
        if a is None or isinstance(a, list):
            return out
        # walrus targets anywhere in the expressions of this node
        for r in _expr_roots(node):
            for x in ast.walk(r):
                if isinstance(x, ast.NamedExpr) and isinstance(x.target, ast.Name):
                    out.append(self._new(x.target.id, x.value, node, True, a))
                    out[-1].walrus = True
                elif isinstance(x, ast.comprehension):
                    # comprehension variables: bound from their iterable, visible to the expressions of this node
                    n0 = len(out)
                    self._target(x.target, x.iter, node, a, out)
                    for d in out[n0:]:
                        d.walrus = d.scoped = True
        if node.kind == "stmt":
            if isinstance(a, ast.Assign):
                for t in a.targets:
                    self._target(t, a.value, node, a, out)
            elif isinstance(a, ast.AnnAssign) and a.value is not None:
                self._target(a.target, a.value, node, a, out)
            elif isinstance(a, ast.AugAssign):
                self._target(a.target, a.value, node, a, out, weak=True)
            elif isinstance(a, ast.Expr) and isinstance(a.value, ast.Call) and isinstance(a.value.func, ast.Attribute):
                k = key_of(a.value.func.value)
                recv_is_self = k is not None and bool(self.params) and k.split(".")[0] == self.params[0] and self._is_method
                if k is not None and not recv_is_self and (a.value.args or a.value.keywords or a.value.func.attr in ("sort", "reverse")):
                    out.append(self._new(k, a.value, node, False, a))  # x.append(v) / x.sort(): x now also depends on the call
        elif node.kind == "fornext":
            st = node.stmt
            self._target(a, st.iter, node, st, out)
        elif node.kind == "with":
            for it in a.items:
                if it.optional_vars is not None:
                    self._target(it.optional_vars, it.context_expr, node, a, out)
        elif node.kind == "except" and getattr(a, "name", None):
            out.append(self._new(a.name, None, node, True, a))
        return out

    @staticmethod
    def _join(x, y):
        if x is None:
            return y
        if y is None:
            return x
        if x == y:
            return x
        return {k: x.get(k, _E) | y.get(k, _E) for k in set(x) | set(y)}

    def _alias_keys(self, st, k):
        """keys that are plain aliases of k (one step, both directions) in state st."""
        out = set()
        for d in st.get(k, _E):
            if d != _ENTRY and self.defs[d].strong and self.defs[d].value is not None:
                ak = key_of(self.defs[d].value)
                if ak is not None and ak != k:
                    out.add(ak)
        for j, ds in st.items():
            if j != k and any(d != _ENTRY and self.defs[d].strong and self.defs[d].value is not None and key_of(self.defs[d].value) == k for d in ds):
                out.add(j)
        return out

    def _transfer(self, node, st):
        gens = self.gen.get(node)
        if not gens:
            return st
        st = dict(st)
        for d in gens:
            if d.scoped:
                continue
            if d.strong:
                st[d.key] = frozenset([d.id])
                # a store to x also ends what was known about x.attr chains
                for j in [j for j in st if j.startswith(d.key + ".")]:
                    del st[j]
            else:
                for k in {d.key} | self._alias_keys(st, d.key):
                    st[k] = st.get(k, _E) | {d.id}
        return st

    # ------------------------------------------------------------------ queries
    def nodes_of(self, e):
        return self.where.get(id(e), [])

    def env(self, nodes):
        """reaching definitions seen by an expression evaluated in `nodes` (walrus bindings of the same node included)."""
        st = None
        for n in nodes:
            s = self.IN.get(n)
            if s is None:
                continue
            w = [d for d in self.gen.get(n, []) if d.walrus]
            if w:
                s = dict(s)
                for d in w:
                    s[d.key] = frozenset([d.id])
            st = self._join(st, s)
        return st or {}

    def env_exit(self):
        return self.IN.get(self.g.exit) or {}

    def reaching(self, e, env=None):
        """[Def] of the Name / dotted chain `e` that reach it (_ENTRY excluded), and whether the entry value may reach."""
        k = key_of(e)
        env = env if env is not None else self.env(self.nodes_of(e))
        ds = env.get(k, _E) if k is not None else _E
        return [self.defs[d] for d in sorted(ds) if d != _ENTRY], _ENTRY in ds

    def value_of(self, d):
        """(defining expression, its environment) of a definition; for `a, b = t` with t bound to a tuple display of the same
        length, the matching element (so that a helper returning `(perm, positions)` keeps the two apart)."""
        env = self.env([d.node])
        if d.value is None or d.index is None:
            return d.value, env
        v, venv = self.resolve(d.value, env)
        i, n = d.index
        if isinstance(v, (ast.Tuple, ast.List)) and len(v.elts) == n and not any(isinstance(x, ast.Starred) for x in v.elts):
            return v.elts[i], venv
        return d.value, env

    def cone(self, expr, env=None, stop=None, skip_index=False, builders=False):
        """[expr, defining expressions ...] (transitively).  `stop(e)` true: the sub-expression e is not looked into.
        skip_index: of `a[i]` only `a` is looked into (what the value is made of, not what selected it); with builders, np.c_[..] /
        np.r_[..] (constructors written as subscripts) are looked into all the same."""
        out = []
        seen = set()
        env0 = env if env is not None else self.env(self.nodes_of(expr))

        def walk(e):
            yield e
            if stop is not None and stop(e):
                return
            if skip_index and isinstance(e, ast.Subscript) and not (builders and (key_of(e.value) or "").split(".")[-1] in ("c_", "r_", "mgrid", "ogrid", "s_")):
                yield from walk(e.value)
                return
            for c in ast.iter_child_nodes(e):
                yield from walk(c)

        def visit(e, en):
            out.append(e)
            for x in walk(e):
                if isinstance(x, (ast.Name, ast.Attribute)) and isinstance(getattr(x, "ctx", None), ast.Load):
                    k = key_of(x)
                    if k is None:
                        continue
                    for d in en.get(k, _E):
                        if d == _ENTRY or d in seen:
                            continue
                        seen.add(d)
                        val, venv = self.value_of(self.defs[d])
                        if val is not None:
                            visit(val, venv)

        visit(expr, env0)
        return out

    def atoms(self, expr, env=None, stop=None, skip_index=False, builders=False):
        """all syntax nodes of the cone (stop-pruned)."""
        def walk(e):
            yield e
            if stop is not None and stop(e):
                return
            if skip_index and isinstance(e, ast.Subscript) and not (builders and (key_of(e.value) or "").split(".")[-1] in ("c_", "r_", "mgrid", "ogrid", "s_")):
                yield from walk(e.value)
                return
            for c in ast.iter_child_nodes(e):
                yield from walk(c)

        for e in self.cone(expr, env, stop, skip_index, builders):
            yield from walk(e)

    def roots(self, expr, env=None, stop=None):
        """parameter names whose _ENTRY value may flow into expr."""
        out = set()
        seen = set()

        def walk(e):
            yield e
            if stop is not None and stop(e):
                return
            for c in ast.iter_child_nodes(e):
                yield from walk(c)

        def visit(e, en):
            for x in walk(e):
                if isinstance(x, ast.Name) and isinstance(x.ctx, ast.Load):
                    ds = en.get(x.id, _E)
                    if _ENTRY in ds and x.id in self.params:
                        out.add(x.id)
                    for d in ds:
                        if d != _ENTRY and d not in seen:
                            seen.add(d)
                            val, venv = self.value_of(self.defs[d])
                            if val is not None:
                                visit(val, venv)
                elif isinstance(x, ast.Attribute) and isinstance(x.ctx, ast.Load):
                    k = key_of(x)
                    if k is None:
                        continue
                    for d in en.get(k, _E):
                        if d != _ENTRY and d not in seen:
                            seen.add(d)
                            val, venv = self.value_of(self.defs[d])
                            if val is not None:
                                visit(val, venv)

        visit(expr, env if env is not None else self.env(self.nodes_of(expr)))
        return out

    def resolve(self, e, env=None, depth=0):
        """Follow a Name / dotted chain to its defining expression while exactly one strong definition reaches it."""
        env = env if env is not None else self.env(self.nodes_of(e))
        while depth < 10 and key_of(e) is not None:
            ds, entry = self.reaching(e, env)
            if entry or len(ds) != 1 or not ds[0].strong or ds[0].value is None:
                break
            stmt = ds[0].stmt
            # tuple unpacking of a call result: not the value itself
            if ds[0].index is not None:
                val, venv = self.value_of(ds[0])
                if val is ds[0].value:
                    break
                e, env = val, venv
                depth += 1
                continue
            if isinstance(stmt, ast.Assign) and any(isinstance(t, (ast.Tuple, ast.List)) for t in stmt.targets) and ds[0].value is stmt.value:
                break
            if isinstance(stmt, (ast.For, ast.AsyncFor, ast.With, ast.AsyncWith)):
                break
            e = ds[0].value
            env = self.env([ds[0].node])
            depth += 1
        return e, env

    def uses_of(self, d):
        """Name / dotted loads that definition d reaches."""
        out = []
        for n in self.g.nodes:
            for r in _expr_roots(n):
                for x in ast.walk(r):
                    if isinstance(x, (ast.Name, ast.Attribute)) and isinstance(getattr(x, "ctx", None), ast.Load) and key_of(x) == d.key:
                        if d.id in self.env([n]).get(d.key, _E):
                            out.append(x)
        return out


_VIEW_CALLS = {"asarray", "asanyarray", "ravel", "reshape", "squeeze", "view", "transpose", "swapaxes", "atleast_1d", "atleast_2d", "ascontiguousarray"}


def alias_origins(fl, e, env=None, depth=0):
    """The expressions whose object `e` may be (or be a view of): followed through locals bound to plain names / attribute reads and through
    operations that do not copy (np.asarray, .T, slices, reshape / ravel / view ...).  A call that builds a new array, arithmetic, a
    literal end the chain (nothing is returned for them).  Result: [(expression, env)] of names / attribute reads with no local definition
    (parameters, self.x, globals)."""
    if depth > 10:
        return []
    if isinstance(e, ast.Attribute) and e.attr == "T":
        return alias_origins(fl, e.value, env, depth + 1)
    if isinstance(e, ast.Subscript):
        idx = e.slice.elts if isinstance(e.slice, ast.Tuple) else [e.slice]
        if all(isinstance(i, ast.Slice) or (isinstance(i, ast.Constant) and i.value in (None, Ellipsis)) for i in idx):
            return alias_origins(fl, e.value, env, depth + 1)  # basic slicing: a view
        return []
    if isinstance(e, ast.Call) and call_name(e) in _VIEW_CALLS:
        f = e.func
        inner = f.value if isinstance(f, ast.Attribute) and not (isinstance(f.value, ast.Name) and f.value.id in ("np", "numpy")) else (e.args[0] if e.args else None)
        return alias_origins(fl, inner, env, depth + 1) if inner is not None else []
    if isinstance(e, ast.IfExp):
        return alias_origins(fl, e.body, env, depth + 1) + alias_origins(fl, e.orelse, env, depth + 1)
    if isinstance(e, ast.NamedExpr):
        return alias_origins(fl, e.value, env, depth + 1)
    k = key_of(e)
    if k is None:
        return []
    env = env if env is not None else (fl.env(fl.nodes_of(e)) if fl.nodes_of(e) else {})
    ds, entry = fl.reaching(e, env)
    out = [(e, env)] if entry else []
    for d in ds:
        if d.strong and d.value is not None:
            if isinstance(d.stmt, (ast.For, ast.AsyncFor, ast.With, ast.AsyncWith)):
                continue
            val, venv = fl.value_of(d)
            if d.index is not None and val is d.value:
                continue
            out += alias_origins(fl, val, venv, depth + 1)
    return out


def inplace_updates(fl, fn_node):
    """(statement, target base expression, env) for every in-place update of an array: `a op= v`, `a[i] = v`, `a[i] op= v`."""
    out = []
    for n in fl.g.nodes:
        st = n.ast
        if n.kind != "stmt" or st is None or isinstance(st, list):
            continue
        tgs = []
        if isinstance(st, ast.AugAssign):
            tgs = [st.target]
        elif isinstance(st, ast.Assign):
            tgs = [t for t in st.targets if isinstance(t, ast.Subscript)]
        for t in tgs:
            b = t
            while isinstance(b, ast.Subscript):
                b = b.value
            if key_of(b) is not None:
                out.append((st, b, fl.env([n])))
    return out
