"""C19 helpers: what the reader rules decide BY MEANING (normalised code, alias-expanded expressions, guard regions, path
facts) instead of by spelling.  Nothing here names a local variable of the library."""

from __future__ import annotations

import ast
import copy
import re

from ..model import unparse
from ..normalize import expanded, single_assignments

CATCHES = {"KeyError", "Exception", "BaseException", "LookupError"}


# ---------------------------------------------------------------------- handles
def mentions(expr, names) -> bool:
    return any(isinstance(n, ast.Name) and n.id in names for n in ast.walk(expr))


def handle_expr(e, tainted) -> bool:
    """Name / subscript / .get() / attribute chain rooted at a tainted name, without materialisation
    ([:] / [()] slices are arrays, not handles)."""
    while True:
        if isinstance(e, ast.Name):
            return e.id in tainted
        if isinstance(e, ast.NamedExpr):
            e = e.value
        elif isinstance(e, ast.Subscript):
            s = e.slice
            if isinstance(s, ast.Slice) or (isinstance(s, ast.Tuple) and not s.elts):
                return False
            e = e.value
        elif isinstance(e, ast.Call) and isinstance(e.func, ast.Attribute) and e.func.attr == "get":
            e = e.func.value
        elif isinstance(e, ast.Attribute) and e.attr in ("attrs", "parent", "file"):
            e = e.value
        elif copied_from(e) is not None:
            e = copied_from(e)  # a plain copy of the members / attributes: a missing key raises KeyError just the same
        else:
            return False


def copied_from(e):
    """`dict(h)` / `dict(h.items())` / `h.copy()` / `{k: v for k, v in h.items()}` -> h (else None): a dictionary holding exactly what
    the node (or its attribute set) holds."""
    if isinstance(e, ast.Call) and isinstance(e.func, ast.Name) and e.func.id in ("dict", "OrderedDict") and len(e.args) == 1 and not e.keywords:
        a = e.args[0]
        if isinstance(a, ast.Call) and isinstance(a.func, ast.Attribute) and a.func.attr == "items" and not a.args:
            return a.func.value
        return a
    if isinstance(e, ast.Call) and isinstance(e.func, ast.Attribute) and e.func.attr == "copy" and not e.args:
        return e.func.value
    if isinstance(e, ast.DictComp) and len(e.generators) == 1 and not e.generators[0].ifs:
        g = e.generators[0]
        if isinstance(g.iter, ast.Call) and isinstance(g.iter.func, ast.Attribute) and g.iter.func.attr == "items" and isinstance(g.target, ast.Tuple) \
                and len(g.target.elts) == 2 and all(isinstance(t, ast.Name) for t in g.target.elts) \
                and isinstance(e.key, ast.Name) and isinstance(e.value, ast.Name) and (e.key.id, e.value.id) == (g.target.elts[0].id, g.target.elts[1].id):
            return g.iter.func.value
    return None


def stores_of(stmt) -> set:
    """(local name, key text) of the items a statement stores into a dictionary the function holds (`d[k] = v`,
    `d.setdefault(k, v)`): reading them back afterwards cannot fail, whatever the file lacks"""
    out = set()
    for n in ast.walk(stmt):
        if isinstance(n, ast.Subscript) and isinstance(n.ctx, ast.Store) and isinstance(n.value, ast.Name):
            out.add((n.value.id, unparse(n.slice)))
        elif isinstance(n, ast.Call) and isinstance(n.func, ast.Attribute) and n.func.attr == "setdefault" and isinstance(n.func.value, ast.Name) and n.args:
            out.add((n.func.value.id, unparse(n.args[0])))
    return out


def stored_before(fn_node) -> dict:
    """id(load subscript) -> True when an EARLIER simple statement of the function stores the same key into the same local"""
    simple = [s for s in ast.walk(fn_node) if isinstance(s, (ast.Assign, ast.AnnAssign, ast.AugAssign, ast.Expr, ast.Return))]
    st = [(s, stores_of(s)) for s in simple]
    out = {}
    for s in simple:
        for x in ast.walk(s):
            if isinstance(x, ast.Subscript) and isinstance(x.ctx, ast.Load) and isinstance(x.value, ast.Name):
                k = (x.value.id, unparse(x.slice))
                if any(k in keys and t is not s and (t.lineno, t.col_offset) < (s.lineno, s.col_offset) for t, keys in st):
                    out[id(x)] = True
    return out


def is_materialisation(sub) -> bool:
    return isinstance(sub.slice, ast.Slice) or (isinstance(sub.slice, ast.Tuple) and not sub.slice.elts)


def _member_targets(target, it, tainted):
    """Names of a loop / comprehension target that hold members (handles) of a tainted handle."""
    base = it.func.value if isinstance(it, ast.Call) and isinstance(it.func, ast.Attribute) and it.func.attr in ("items", "values") else it
    if not handle_expr(base, tainted):
        return []
    names = [t.id for t in ast.walk(target) if isinstance(t, ast.Name)]
    if isinstance(it, ast.Call) and it.func.attr == "items" and len(names) == 2:
        return names[1:]
    if not isinstance(it, ast.Call):
        return []  # iterating a group yields key strings
    return names


def tainted_names(fn, extra=()) -> set:
    """Locals of `fn` that hold (a node of) the open file: the file parameter, what is bound from it by `with`, `=`, `:=`,
    and the members drawn from a handle by a loop or a comprehension.  `extra`: parameters known to receive a handle."""
    tainted = set(extra)
    params = fn.params
    if fn.kind in ("classmethod", "method") and params:
        params = params[1:]
    for prm, arg in zip(params, [a for a in fn.node.args.args if a.arg in params]):
        ann = unparse(arg.annotation) if arg.annotation is not None else ""
        if prm in ("file", "h5file") or "h5py" in ann:
            tainted.add(prm)
    changed = True
    while changed:
        changed = False

        def add(nm):
            nonlocal changed
            if nm not in tainted:
                tainted.add(nm)
                changed = True

        for n in ast.walk(fn.node):
            if isinstance(n, ast.With):
                for it in n.items:
                    if it.optional_vars is not None and isinstance(it.optional_vars, ast.Name) and mentions(it.context_expr, tainted):
                        add(it.optional_vars.id)
            elif isinstance(n, ast.Assign) and len(n.targets) == 1 and isinstance(n.targets[0], ast.Name):
                if handle_expr(n.value, tainted):
                    add(n.targets[0].id)
            elif isinstance(n, ast.AnnAssign) and n.value is not None and isinstance(n.target, ast.Name):
                if handle_expr(n.value, tainted):
                    add(n.target.id)
            elif isinstance(n, ast.NamedExpr) and isinstance(n.target, ast.Name):
                if handle_expr(n.value, tainted):
                    add(n.target.id)
            elif isinstance(n, ast.For):
                # `for child_type, child_list in entity.items()` / `for x in handle` — members of a handle
                for nm in _member_targets(n.target, n.iter, tainted):
                    add(nm)
                # `for k, v in handle.items(): copy[k] = v` — a copy made item by item
                it = n.iter
                if isinstance(it, ast.Call) and isinstance(it.func, ast.Attribute) and it.func.attr == "items" and handle_expr(it.func.value, tainted) \
                        and isinstance(n.target, ast.Tuple) and len(n.target.elts) == 2 and all(isinstance(t, ast.Name) for t in n.target.elts):
                    k, v = n.target.elts[0].id, n.target.elts[1].id
                    for st in n.body:
                        if isinstance(st, ast.Assign) and len(st.targets) == 1 and isinstance(st.targets[0], ast.Subscript) and isinstance(st.targets[0].value, ast.Name) \
                                and isinstance(st.targets[0].slice, ast.Name) and st.targets[0].slice.id == k and isinstance(st.value, ast.Name) and st.value.id == v:
                            add(st.targets[0].value.id)
            elif isinstance(n, ast.comprehension):
                for nm in _member_targets(n.target, n.iter, tainted):
                    add(nm)
    return tainted


# ---------------------------------------------------------------------- guard regions
def catches_keyerror(type_expr) -> bool:
    if type_expr is None:
        return True
    names = type_expr.elts if isinstance(type_expr, ast.Tuple) else [type_expr]
    for x in names:
        nm = x.id if isinstance(x, ast.Name) else (x.attr if isinstance(x, ast.Attribute) else None)
        if nm in CATCHES:
            return True
    return False


def _is_suppress(e) -> bool:
    if not isinstance(e, ast.Call):
        return False
    f = e.func
    nm = f.attr if isinstance(f, ast.Attribute) else getattr(f, "id", None)
    return nm == "suppress" and any(catches_keyerror(a) for a in e.args)


def guard_regions(fn_node) -> list:
    """[(owner statement, guarded statements)]: the code whose KeyError is absorbed — the body of a `try` with a handler for
    KeyError (or a wider class), the body of `with contextlib.suppress(KeyError)`."""
    out = []
    for t in ast.walk(fn_node):
        if isinstance(t, ast.Try) and any(catches_keyerror(h.type) for h in t.handlers):
            out.append((t, t.body))
        elif isinstance(t, ast.With) and any(_is_suppress(it.context_expr) for it in t.items):
            out.append((t, t.body))
    return out


def guarded_ids(fn_node) -> set:
    return {id(x) for _, body in guard_regions(fn_node) for s in body for x in ast.walk(s)}


# ---------------------------------------------------------------------- alias expansion
_RET = re.compile(r"^_ret__i\d+$")


def alias_defs(fn_node) -> dict:
    """single-assignment locals -> defining expression; plus the result names of expanded helpers with one `return`
    (`_ret = None; ...; _ret = <expr>`)."""
    defs = dict(single_assignments(fn_node))
    rets: dict = {}
    for n in ast.walk(fn_node):
        if isinstance(n, ast.Assign) and len(n.targets) == 1 and isinstance(n.targets[0], ast.Name) and _RET.match(n.targets[0].id):
            rets.setdefault(n.targets[0].id, []).append(n.value)
    for nm, vals in rets.items():
        real = [v for v in vals if not (isinstance(v, ast.Constant) and v.value is None)]
        if len(vals) == 2 and len(real) == 1:
            defs[nm] = real[0]
    return defs


class Alias:
    """Expressions of one function with temporaries and aliases undone."""

    def __init__(self, fn_node, keep=()):
        self.fn_node = fn_node
        self.defs = {k: v for k, v in alias_defs(fn_node).items() if k not in keep}

    def x(self, expr):
        return expanded(expr, self.fn_node, self.defs)

    def text(self, expr) -> str:
        return unparse(self.x(expr))


def strip_view(e):
    """`h.keys()` / `list(h)` / `tuple(h)` / `sorted(h)` / `set(h)` / `iter(h)` / `reversed(h)` -> h  (the same keys)."""
    while True:
        if isinstance(e, ast.Call) and isinstance(e.func, ast.Attribute) and e.func.attr == "keys" and not e.args:
            e = e.func.value
        elif isinstance(e, ast.Call) and isinstance(e.func, ast.Name) and e.func.id in ("list", "tuple", "sorted", "set", "iter", "reversed", "frozenset") and len(e.args) == 1 and not e.keywords:
            e = e.args[0]
        else:
            return e


def names_in(e) -> frozenset:
    return frozenset(n.id for n in ast.walk(e) if isinstance(n, ast.Name))


# ---------------------------------------------------------------------- membership / equality facts
def facts_of(test, truth: bool) -> set:
    """Facts a test establishes on its `truth` edge (the test is expected alias-expanded):
    ('in' | 'notin', key text, container text, names) and ('==', expression text, constant, names)."""
    if isinstance(test, ast.UnaryOp) and isinstance(test.op, ast.Not):
        return facts_of(test.operand, not truth)
    if isinstance(test, ast.BoolOp):
        if isinstance(test.op, ast.And) and truth:
            return set().union(*[facts_of(v, True) for v in test.values])
        if isinstance(test.op, ast.Or) and not truth:
            return set().union(*[facts_of(v, False) for v in test.values])
        return set()
    if isinstance(test, ast.Compare) and len(test.ops) == 1:
        op, left, right = test.ops[0], test.left, test.comparators[0]
        if (isinstance(op, ast.In) and truth) or (isinstance(op, ast.NotIn) and not truth):
            cont = strip_view(right)
            return {("in", unparse(left), unparse(cont), names_in(left) | names_in(cont))}
        if (isinstance(op, ast.NotIn) and truth) or (isinstance(op, ast.In) and not truth):
            cont = strip_view(right)
            return {("notin", unparse(left), unparse(cont), names_in(left) | names_in(cont))}
        if (isinstance(op, ast.Eq) and truth) or (isinstance(op, ast.NotEq) and not truth):
            if isinstance(right, ast.Constant) and not isinstance(left, ast.Constant):
                return {("==", unparse(left), right.value, names_in(left))}
            if isinstance(left, ast.Constant) and not isinstance(right, ast.Constant):
                return {("==", unparse(right), left.value, names_in(right))}
    return set()


def inner_facts(root, target, expand) -> set:
    """Facts established INSIDE one expression / statement on the way down to `target`: the test of a conditional expression,
    the earlier operands of `and` / `or`, the `if` clauses of a comprehension."""
    out: set = set()

    def down(e, facts) -> bool:
        if e is target:
            out.update(facts)
            return True
        if isinstance(e, ast.IfExp):
            return (down(e.test, facts) or down(e.body, facts | facts_of(expand(e.test), True))
                    or down(e.orelse, facts | facts_of(expand(e.test), False)))
        if isinstance(e, ast.BoolOp):
            acc = set(facts)
            for v in e.values:
                if down(v, acc):
                    return True
                acc = acc | facts_of(expand(v), isinstance(e.op, ast.And))
            return False
        if isinstance(e, (ast.ListComp, ast.SetComp, ast.GeneratorExp, ast.DictComp)):
            acc = set(facts)
            for gen in e.generators:
                if down(gen.iter, acc) or down(gen.target, acc):
                    return True
                for c in gen.ifs:
                    if down(c, acc):
                        return True
                    acc = acc | facts_of(expand(c), True)
            parts = [e.elt] if hasattr(e, "elt") else [e.key, e.value]
            return any(down(part, acc) for part in parts)
        if isinstance(e, (ast.Lambda, ast.FunctionDef, ast.AsyncFunctionDef, ast.ClassDef)):
            return any(x is target for x in ast.walk(e))  # found, but nothing is known inside a deferred body
        return any(down(c, facts) for c in ast.iter_child_nodes(e))

    down(root, set())
    return out


def bound_by(node) -> set:
    """Names (re)bound by a CFG node: facts that mention them no longer hold."""
    src = node.ast
    out = set()
    if src is None or isinstance(src, list):
        return out
    if node.kind == "fornext":
        return {x.id for x in ast.walk(src) if isinstance(x, ast.Name)}
    if node.kind == "with":
        for it in src.items:
            if it.optional_vars is not None:
                out |= {x.id for x in ast.walk(it.optional_vars) if isinstance(x, ast.Name)}
        return out
    if node.kind == "except":
        return {src.name} if getattr(src, "name", None) else out
    for x in ast.walk(src):
        if isinstance(x, ast.Name) and isinstance(x.ctx, (ast.Store, ast.Del)):
            out.add(x.id)
    return out


# ---------------------------------------------------------------------- roles of expressions (after alias expansion)
def root_names(fn, tainted) -> set:
    """Locals that ARE the open file (not a node below it): the file parameter and what `fetch_h5_handle(..)` yields."""
    roots = set()
    params = set(fn.params)
    for nm in tainted:
        if nm in params:
            roots.add(nm)
    for n in ast.walk(fn.node):
        if isinstance(n, ast.With):
            for it in n.items:
                if isinstance(it.optional_vars, ast.Name) and _is_open(it.context_expr, roots):
                    roots.add(it.optional_vars.id)
        elif isinstance(n, ast.Assign) and len(n.targets) == 1 and isinstance(n.targets[0], ast.Name):
            if (_is_open(n.value, roots) or (isinstance(n.value, ast.Name) and n.value.id in roots)) and n.targets[0].id in tainted:
                roots.add(n.targets[0].id)
    return roots


def _is_open(e, roots) -> bool:
    if isinstance(e, ast.Call):
        f = e.func
        nm = f.attr if isinstance(f, ast.Attribute) else getattr(f, "id", None)
        return nm == "fetch_h5_handle"
    return False


def is_root(e, roots) -> bool:
    return (isinstance(e, ast.Name) and e.id in roots) or _is_open(e, roots)


def is_project_key(s, roots) -> bool:
    """The name of the project group: `list(<file>)[0]` (also through `.keys()`), `next(iter(<file>))`."""
    if isinstance(s, ast.Subscript) and isinstance(s.slice, ast.Constant) and s.slice.value == 0:
        v = s.value
        if isinstance(v, ast.Call) and isinstance(v.func, ast.Name) and v.func.id in ("list", "tuple", "sorted") and len(v.args) == 1:
            return is_root(strip_view(v.args[0]), roots)
    if isinstance(s, ast.Call) and isinstance(s.func, ast.Name) and s.func.id == "next" and s.args:
        return is_root(strip_view(s.args[0]), roots)
    return False


def is_project_group(e, roots) -> bool:
    return isinstance(e, ast.Subscript) and is_root(e.value, roots) and is_project_key(e.slice, roots)


def is_kind_selector(e, fn) -> bool:
    """The container name chosen by the KIND of entity: the public parameter `entity_type`, possibly formatted."""
    if isinstance(e, ast.Call) and len(e.args) == 1 and not e.keywords:
        f = e.func
        nm = f.attr if isinstance(f, ast.Attribute) else getattr(f, "id", None)
        if nm == "format_type_string":
            e = e.args[0]
    return isinstance(e, ast.Name) and e.id == "entity_type" and e.id in fn.params


# ---------------------------------------------------------------------- helper functions of the reader
def refs(node, name) -> list:
    return [n for n in ast.walk(node)
            if (isinstance(n, ast.Attribute) and n.attr == name) or (isinstance(n, ast.Name) and n.id == name and isinstance(n.ctx, ast.Load))]


def _own_params(fn) -> list:
    return fn.params[1:] if fn.kind in ("method", "classmethod") and fn.params else fn.params


def _rebound(fn_node) -> set:
    return {x.id for x in ast.walk(fn_node) if isinstance(x, ast.Name) and isinstance(x.ctx, (ast.Store, ast.Del))}


def denotes_project_group(e, roots, roles) -> bool:
    """alias-expanded `e` is the project group: `<file>[list(<file>)[0]]`, or a parameter that receives it at every call site"""
    return is_project_group(e, roots) or (isinstance(e, ast.Name) and "project" in roles.get(e.id, ()))


def denotes_kind_selector(e, fn, roles) -> bool:
    """alias-expanded `e` is the container name chosen by the kind of entity, or a parameter that receives it at every call site"""
    if is_kind_selector(e, fn):
        return True
    if isinstance(e, ast.Call) and len(e.args) == 1 and not e.keywords:
        f = e.func
        if (f.attr if isinstance(f, ast.Attribute) else getattr(f, "id", None)) == "format_type_string":
            e = e.args[0]
    return isinstance(e, ast.Name) and "kind" in roles.get(e.id, ())


def reader_units(ctx) -> list:
    """[(name, normalised FuncInfo, guarded_by_callers, handle parameters, parameter roles)] — the functions of the reader a
    rule looks into: the H5Reader methods and the functions of its module, in normalised form (helpers expanded in place, so
    a helper's lookups are judged in the context of each caller).  A private helper is looked at on its own only when some
    use of it could not be expanded.  What a function's PARAMETERS stand for is taken from its call sites inside the reader:
    the parameters that receive a handle, and — when every use in the project is a direct call from the reader and all of
    them agree — the parameters that receive the project group ('project') / the container name chosen by kind ('kind')."""
    if "c19.units" in ctx.cache:
        return ctx.cache["c19.units"]
    p = ctx.p
    R = p.cls("H5Reader")
    rmod = next(iter(R.methods.values())).module
    cands = dict(rmod.functions)
    cands.update(R.methods)
    own = {id(f.node) for f in cands.values()}
    helpers = {n: f for n, f in cands.items() if n.startswith("_") and not n.startswith("__")}
    def uses(f, n) -> list:
        """references of function f to the reader's function n: `H5Reader.n` anywhere, `cls.n` / `self.n` inside the reader
        class, the bare name inside the reader's module (another class' own `self.n` is not one)"""
        out = []
        for r in refs(f.node, n):
            if isinstance(r, ast.Name):
                if f.module is rmod and n in rmod.functions:
                    out.append(r)
            elif isinstance(r.value, ast.Name) and (r.value.id == R.name or (f.cls is R and r.value.id in ("self", "cls", f.self_name))):
                if n in R.methods:
                    out.append(r)
            elif not isinstance(r.value, ast.Name) and n in R.methods and f.cls is not R:
                out.append(r)  # reached through some other expression: counted (conservatively) as a use
        return out

    users: dict = {n: [] for n in cands}
    for f in p.all_functions():
        for n, h in cands.items():
            if f.node is not h.node and n in f.module.source and uses(f, n):
                users[n].append(f)

    def calls_of(u, n):
        return [(r, next((c for c in ast.walk(u.node) if isinstance(c, ast.Call) and c.func is r), None)) for r in uses(u, n)]

    def unit_view(fn):
        return ctx.view(fn)

    def call_sites_guarded(n, depth=0) -> bool:
        """every use of helper n is a direct call inside a guard region of its (reader) caller, or of that caller's callers"""
        if depth > 3 or not users[n]:
            return False
        for u in users[n]:
            if id(u.node) not in own:
                return False
            g = guarded_ids(u.node)
            for _r, call in calls_of(u, n):
                if call is None:
                    return False
                if id(call) in g:
                    continue
                if u.name in helpers and helpers[u.name].node is u.node and call_sites_guarded(u.name, depth + 1):
                    continue
                return False
        return True

    memo: dict = {}

    def param_info(n, depth=0):
        """(parameters of n that receive a handle at some call site inside the reader, {parameter: roles all call sites agree on})"""
        if n in memo:
            return memo[n]
        memo[n] = (set(), {})  # recursion guard
        fn = cands[n]
        prms = _own_params(fn)
        handles, external, sites = set(), False, []
        for u in users[n]:
            if id(u.node) not in own:
                external = True
                continue
            for _r, call in calls_of(u, n):
                if call is None:
                    external = True
                else:
                    sites.append((u, call))
        per_site = []
        for u, call in sites:
            u_handles, u_roles = param_info(u.name, depth + 1) if (depth < 3 and cands.get(u.name) is not None and cands[u.name].node is u.node) else (set(), {})
            t_u = tainted_names(u, u_handles)
            roots_u = root_names(u, t_u)
            al_u = Alias(u.node)
            bound = dict(list(zip(prms, call.args)) + [(k.arg, k.value) for k in call.keywords if k.arg in prms])
            site_roles = {}
            for prm, a in bound.items():
                if isinstance(a, ast.Starred):
                    continue
                if handle_expr(a, t_u):
                    handles.add(prm)
                ax = al_u.x(a)
                rs = set()
                if denotes_project_group(ax, roots_u, u_roles):
                    rs.add("project")
                if denotes_kind_selector(ax, u, u_roles):
                    rs.add("kind")
                site_roles[prm] = rs
            per_site.append(site_roles)
        roles = {}
        if per_site and not external:
            stable = set(prms) - _rebound(fn.node)
            for prm in stable:
                common = set.intersection(*[sr.get(prm, set()) for sr in per_site])
                if common:
                    roles[prm] = common
        memo[n] = (handles, roles)
        return memo[n]

    units = []
    for name, fn in cands.items():
        handles, roles = param_info(name)
        if name in helpers:
            us = users[name]
            if us and all(id(u.node) in own and not refs(unit_view(u).node, name) for u in us):
                continue  # expanded into every caller: judged there
            units.append((name, unit_view(fn), call_sites_guarded(name), handles, roles))
        else:
            units.append((name, unit_view(fn), False, handles, roles))
    ctx.cache["c19.units"] = units
    return units


# ---------------------------------------------------------------------- small CFG helpers
def node_exprs(node) -> list:
    """The expressions a CFG node evaluates itself (a `with` node: its context expressions only)."""
    if node.ast is None or isinstance(node.ast, list):
        return []
    if node.kind == "with":
        return [it.context_expr for it in node.ast.items]
    if node.kind == "except":
        return []
    return [node.ast]


def clone(e):
    return copy.deepcopy(e)


# ---------------------------------------------------------------------- literal substitutes for missing items
def is_literal_value(e) -> bool:
    if isinstance(e, ast.Constant):
        return True
    if isinstance(e, ast.UnaryOp) and isinstance(e.op, (ast.USub, ast.UAdd)):
        return is_literal_value(e.operand)
    if isinstance(e, (ast.List, ast.Tuple, ast.Set)):
        return all(is_literal_value(x) for x in e.elts)
    if isinstance(e, ast.Dict):
        return all(k is not None and is_literal_value(k) and is_literal_value(v) for k, v in zip(e.keys, e.values))
    return False


def record_root(e):
    """the expression a record expression is rooted at: subscripts, attributes, `.get(..)` / `.copy()` / `dict(..)` copies peeled"""
    while True:
        if isinstance(e, (ast.Subscript, ast.Attribute)):
            e = e.value
        elif isinstance(e, ast.Call) and isinstance(e.func, ast.Attribute) and e.func.attr in ("get", "copy"):
            e = e.func.value
        elif copied_from(e) is not None:
            e = copied_from(e)
        else:
            return e


def substitutes(fn_node, is_record, al, stmt_facts) -> list:
    """[(node, description)] — places where a record read from the file gets a LITERAL value for an item the file lacks:
    `rec.setdefault(K, lit)`, `if K not in rec: rec[K] = lit`, a literal dictionary completed by the record
    (`{K: lit, **rec}`, `dict({K: lit}, **rec)`)."""
    out = []
    for n in ast.walk(fn_node):
        if isinstance(n, ast.Call) and isinstance(n.func, ast.Attribute) and n.func.attr == "setdefault" and len(n.args) == 2:
            if is_record(n.func.value) and is_literal_value(al.x(n.args[1])):
                out.append((n, f"setdefault({unparse(n.args[0])}, {unparse(al.x(n.args[1]))})"))
        elif isinstance(n, ast.Dict) and None in n.keys:
            first = n.keys.index(None)
            lits = [(k, v) for k, v in zip(n.keys[:first], n.values[:first]) if k is not None and is_literal_value(al.x(v))]
            if lits and any(k is None and is_record(v) for k, v in zip(n.keys, n.values)):
                out.append((n, f"literal {unparse(lits[0][0])}: {unparse(al.x(lits[0][1]))} completed by the record"))
        elif isinstance(n, ast.Call) and isinstance(n.func, ast.Name) and n.func.id == "dict" and len(n.args) == 1 and isinstance(al.x(n.args[0]), ast.Dict):
            d = al.x(n.args[0])
            if d.keys and is_literal_value(d) and any(k.arg is None and is_record(k.value) for k in n.keywords):
                out.append((n, f"literal {unparse(d.keys[0])}: {unparse(d.values[0])} completed by the record"))
    for stmt, facts in stmt_facts:
        if isinstance(stmt, ast.Assign) and is_literal_value(al.x(stmt.value)):
            for t in stmt.targets:
                if isinstance(t, ast.Subscript) and is_record(t.value):
                    kx, bx = unparse(al.x(t.slice)), unparse(strip_view(al.x(t.value)))
                    if any(f[0] == "notin" and f[1] == kx and f[2] == bx for f in facts):
                        out.append((stmt, f"{unparse(t.slice)} stored when absent: {unparse(al.x(stmt.value))}"))
    return out
