"""Semantic helpers for the C20 rules: value origins of locals (so that aliases, temporaries, renamed locals, hoisted
tables and loops over name tables do not change a verdict), and small predicates on survey code that decide by what an
expression IS (the entity's metadata dictionary, a copy call on an entity, ...) and not by how it is spelled."""

from __future__ import annotations

import ast

from ..model import unparse

_CAP = 48  # alternatives kept per expression


def view(ctx, fn):
    """Normalised view (private helpers expanded, hoisted literals substituted) when the context offers one."""
    if fn is None:
        return None
    v = getattr(ctx, "view", None)
    return v(fn) if v is not None else fn


def _elem(it):
    """Opaque 'some element of <it>' (never matches a predicate)."""
    return ast.Call(func=ast.Name(id="__elem__", ctx=ast.Load()), args=[it], keywords=[])


def _is_seq(e) -> bool:
    return isinstance(e, (ast.List, ast.Tuple, ast.Set))


class Flow:
    """Flow-insensitive value origins inside one function.

    `alts(expr)` is the list of expressions `expr` may stand for once every local is replaced by each of its defining
    expressions (transitively; parameters also stand for themselves).  Loop / comprehension variables over a literal
    sequence stand for each element; over a known name table (tables={'name': {k: v}}) for its keys / values."""

    def __init__(self, fn_node, tables: dict | None = None, outer=None):
        """outer(kind, name) -> defining expression | None for names bound OUTSIDE the function: kind 'global' (module level /
        imported name) or 'attr' (class-level attribute read through self / cls).  Only literal constants and literal
        tables are taken from there (a hoisted key, a hoisted list of names)."""
        self.node = fn_node
        self.tables = tables or {}
        self.outer = outer
        self._me = {"self", "cls"} | ({fn_node.args.args[0].arg} if fn_node.args.args else set())
        a = fn_node.args
        self.params = {x.arg for x in a.posonlyargs + a.args + a.kwonlyargs}
        if a.vararg:
            self.params.add(a.vararg.arg)
        if a.kwarg:
            self.params.add(a.kwarg.arg)
        self.defs: dict[str, list] = {}
        self._loops: list = []
        self.stmt_loops: list = []  # `for` statements only (comprehension variables live in their own scope)
        for n in ast.walk(fn_node):
            if isinstance(n, (ast.Assign, ast.AnnAssign)) and n.value is not None:
                for t in (n.targets if isinstance(n, ast.Assign) else [n.target]):
                    self._bind(t, n.value)
            elif isinstance(n, ast.AugAssign) and isinstance(n.target, ast.Name):
                self._add(n.target.id, ast.BinOp(left=ast.Name(id=n.target.id, ctx=ast.Load()), op=n.op, right=n.value))
            elif isinstance(n, (ast.With, ast.AsyncWith)):
                for it in n.items:
                    if isinstance(it.optional_vars, ast.Name):
                        self._add(it.optional_vars.id, it.context_expr)
            elif isinstance(n, ast.NamedExpr) and isinstance(n.target, ast.Name):
                self._add(n.target.id, n.value)
            elif isinstance(n, (ast.For, ast.AsyncFor, ast.comprehension)):
                self._loops.append((n.target, n.iter))
                if not isinstance(n, ast.comprehension):
                    self.stmt_loops.append((n.target, n.iter))
        # loop variables last: their iterables may be locals themselves
        for tgt, it in self._loops:
            self._bind_loop(tgt, it)

    # ------------------------------------------------------------------ bindings
    def _add(self, name, value):
        self.defs.setdefault(name, []).append(value)

    def _bind(self, target, value):
        if isinstance(target, ast.Name):
            self._add(target.id, value)
        elif isinstance(target, (ast.Tuple, ast.List)):
            if _is_seq(value) and len(value.elts) == len(target.elts) and not any(isinstance(e, ast.Starred) for e in list(value.elts) + list(target.elts)):
                for t, v in zip(target.elts, value.elts):
                    self._bind(t, v)
            else:
                for x in ast.walk(target):
                    if isinstance(x, ast.Name) and isinstance(x.ctx, ast.Store):
                        self._add(x.id, _elem(value))

    def _table_of(self, e):
        """(table dict, 'keys'|'values'|'items') for t / t.keys() / t.values() / t.items() / list(...) of those, t a known name table."""
        if isinstance(e, ast.Call) and isinstance(e.func, ast.Name) and e.func.id in ("list", "tuple", "sorted", "set", "iter") and len(e.args) == 1:
            return self._table_of(e.args[0])
        if isinstance(e, ast.Name) and e.id in self.tables:
            return self.tables[e.id], "keys"
        if isinstance(e, ast.Call) and isinstance(e.func, ast.Attribute) and isinstance(e.func.value, ast.Name) and e.func.value.id in self.tables \
                and e.func.attr in ("keys", "values", "items") and not e.args:
            return self.tables[e.func.value.id], e.func.attr
        return None

    def _bind_loop(self, target, it):
        for el in self.elements(it):
            self._bind(target, el)

    _WRAPPERS = ("list", "tuple", "sorted", "set", "frozenset", "iter", "reversed")

    def elements(self, it, depth=0) -> list:
        """Expressions an element of the iterable `it` may be (opaque `__elem__(..)` when unknown): literal sequences,
        comprehensions / generator expressions, the known name tables and literal dictionaries (keys / values / items),
        list() / sorted() / reversed() / filter() / chain() / enumerate() / zip() / map(lambda) around those, and calls of
        generator functions (their `yield` / `yield from` values, parameters bound to the arguments)."""
        out = []
        if depth > 4:
            return [_elem(it)]
        for c in self.origins(it):
            fname = c.func.attr if isinstance(c, ast.Call) and isinstance(c.func, ast.Attribute) else getattr(getattr(c, "func", None), "id", None) if isinstance(c, ast.Call) else None
            tab = self._table_of(c)
            if isinstance(c, (ast.ListComp, ast.SetComp, ast.GeneratorExp)):
                out.append(c.elt)  # its own loops are bound separately
            elif _is_seq(c):
                for e in c.elts:
                    out += self.elements(e.value, depth + 1) if isinstance(e, ast.Starred) else [e]
            elif tab is not None:
                d, what = tab
                for k, v in d.items():
                    kc, vc = ast.Constant(value=k), ast.Constant(value=v)
                    out.append(ast.Tuple(elts=[kc, vc], ctx=ast.Load()) if what == "items" else kc if what == "keys" else vc)
            elif isinstance(c, ast.Dict) and all(k is not None for k in c.keys):
                out += list(c.keys)
            elif isinstance(c, ast.Call) and isinstance(c.func, ast.Attribute) and c.func.attr in ("keys", "values", "items") and not c.args \
                    and any(isinstance(o, ast.Dict) and all(k is not None for k in o.keys) for o in self.origins(c.func.value)):
                for o in self.origins(c.func.value):
                    if isinstance(o, ast.Dict) and all(k is not None for k in o.keys):
                        for k, v in zip(o.keys, o.values):
                            out.append(ast.Tuple(elts=[k, v], ctx=ast.Load()) if c.func.attr == "items" else k if c.func.attr == "keys" else v)
                    else:
                        out.append(_elem(c))
            elif fname in self._WRAPPERS and isinstance(c.func, ast.Name) and len(c.args) >= 1:
                out += self.elements(c.args[0], depth + 1)
            elif fname == "filter" and len(c.args) == 2:
                out += self.elements(c.args[1], depth + 1)
            elif fname == "chain" and c.args:
                for a in c.args:
                    out += self.elements(a, depth + 1)
            elif fname == "from_iterable" and len(c.args) == 1:
                for inner in self.elements(c.args[0], depth + 1):
                    out += self.elements(inner, depth + 1)
            elif fname == "enumerate" and c.args:
                out += [ast.Tuple(elts=[_elem(c), e], ctx=ast.Load()) for e in self.elements(c.args[0], depth + 1)]
            elif fname == "zip" and len(c.args) >= 2:
                cols = [self.elements(a, depth + 1) for a in c.args]
                if len({len(x) for x in cols}) == 1:
                    out += [ast.Tuple(elts=list(row), ctx=ast.Load()) for row in zip(*cols)]
                else:
                    out.append(_elem(c))
            elif fname == "map" and len(c.args) == 2 and isinstance(c.args[0], ast.Lambda) and len(c.args[0].args.args) == 1 and not c.args[0].args.defaults:
                prm = c.args[0].args.args[0].arg
                out += [_subst(c.args[0].body, prm, e) for e in self.elements(c.args[1], depth + 1)]
            elif isinstance(c, ast.Call) and self.outer is not None and self.outer("callable", c) is not None:
                out += self._generated(c, self.outer("callable", c), depth)
            else:
                out.append(_elem(c))
        return out

    def _generated(self, call, fn_node, depth) -> list:
        """Values a call of a generator function yields, in the caller's terms."""
        ys = [n for n in ast.walk(fn_node) if isinstance(n, (ast.Yield, ast.YieldFrom))]
        if not ys or fn_node is self.node:
            return [_elem(call)]
        a = fn_node.args
        if a.vararg or a.kwarg or any(isinstance(x, ast.Starred) for x in call.args) or any(k.arg is None for k in call.keywords):
            return [_elem(call)]
        params = [x.arg for x in a.posonlyargs + a.args]
        args = list(call.args)
        decos = {getattr(d, "id", None) for d in fn_node.decorator_list}
        if isinstance(call.func, ast.Attribute) and "staticmethod" not in decos:
            args = [call.func.value] + args  # the receiver is the first parameter
        binding = dict(zip(params, args))
        for k in call.keywords:
            binding[k.arg] = k.value
        defaults = dict(zip(params[len(params) - len(a.defaults):], a.defaults))
        for k, d in zip(a.kwonlyargs, a.kw_defaults):
            if d is not None:
                defaults[k.arg] = d
        for prm in params + [k.arg for k in a.kwonlyargs]:
            if prm not in binding and prm in defaults:
                binding[prm] = defaults[prm]
        sub = Flow(fn_node, self.tables, self.outer)
        vals = []
        for y in ys:
            if y.value is None:
                continue
            vals += sub.elements(y.value, depth + 1) if isinstance(y, ast.YieldFrom) else sub.values(y.value)
        out = []
        for v in vals:
            # the generator's parameters in the caller's terms (one simultaneous substitution)
            out.append(_rewrite(v, lambda n: binding.get(n.id) if isinstance(n, ast.Name) and isinstance(n.ctx, ast.Load) and n.id in binding else None))
        return out or [_elem(call)]

    def _opaque(self, target, it):
        for x in ast.walk(target):
            if isinstance(x, ast.Name) and isinstance(x.ctx, ast.Store):
                self._add(x.id, _elem(it))

    # ------------------------------------------------------------------ names bound outside the function
    def _outer_value(self, e, tables_too: bool):
        """Literal a global name / self.<class attribute> stands for (strings; with tables_too also literal sequences / dicts)."""
        if self.outer is None:
            return None
        if isinstance(e, ast.Name) and isinstance(e.ctx, ast.Load) and e.id not in self.defs and e.id not in self.params and e.id not in self.tables:
            v = self.outer("global", e.id)
        elif isinstance(e, ast.Attribute) and isinstance(e.ctx, ast.Load) and isinstance(e.value, ast.Name) and e.value.id in self._me:
            v = self.outer("attr", e.attr)
        else:
            return None
        if isinstance(v, ast.Constant) and isinstance(v.value, str):
            return v
        if tables_too and (_is_seq(v) or isinstance(v, ast.Dict)):
            return v
        return None

    def _with_outer_constants(self, e):
        if self.outer is None:
            return e
        return _rewrite(e, lambda n: self._outer_value(n, False))

    # ------------------------------------------------------------------ alternatives
    def fold(self, e):
        """Constant-fold look-ups in the known name tables — t[const], t.get(const) — and strings assembled from constants
        (f"_{'x'}", "_" + "x", "_%s" % "x", "_{}".format("x"))."""
        tables = self.tables
        if not any((isinstance(n, ast.Name) and n.id in tables) or isinstance(n, (ast.JoinedStr, ast.BinOp)) or
                   (isinstance(n, ast.Attribute) and n.attr == "format") for n in ast.walk(e)):
            return e

        def sconst(n):
            return isinstance(n, ast.Constant) and isinstance(n.value, str)

        def f(n):
            if isinstance(n, ast.Subscript) and isinstance(n.ctx, ast.Load) and isinstance(n.value, ast.Name) and n.value.id in tables \
                    and isinstance(n.slice, ast.Constant) and n.slice.value in tables[n.value.id]:
                return ast.copy_location(ast.Constant(value=tables[n.value.id][n.slice.value]), n)
            if isinstance(n, ast.Call) and isinstance(n.func, ast.Attribute) and n.func.attr == "get" and isinstance(n.func.value, ast.Name) \
                    and n.func.value.id in tables and n.args and isinstance(n.args[0], ast.Constant) and n.args[0].value in tables[n.func.value.id]:
                return ast.copy_location(ast.Constant(value=tables[n.func.value.id][n.args[0].value]), n)
            if isinstance(n, ast.JoinedStr) and all(sconst(v) or (isinstance(v, ast.FormattedValue) and sconst(v.value) and v.conversion == -1 and v.format_spec is None)
                                                    for v in n.values):
                return ast.copy_location(ast.Constant(value="".join(v.value if sconst(v) else v.value.value for v in n.values)), n)
            if isinstance(n, ast.BinOp) and isinstance(n.op, ast.Add) and sconst(n.left) and sconst(n.right):
                return ast.copy_location(ast.Constant(value=n.left.value + n.right.value), n)
            if isinstance(n, ast.BinOp) and isinstance(n.op, ast.Mod) and sconst(n.left) and sconst(n.right) and n.left.value.count("%") == 1 and "%s" in n.left.value:
                return ast.copy_location(ast.Constant(value=n.left.value % n.right.value), n)
            if isinstance(n, ast.Call) and isinstance(n.func, ast.Attribute) and n.func.attr == "format" and sconst(n.func.value) and not n.keywords \
                    and n.args and all(sconst(a) for a in n.args) and n.func.value.value.count("{}") == len(n.args) and n.func.value.value.count("{") == len(n.args):
                return ast.copy_location(ast.Constant(value=n.func.value.value.format(*[a.value for a in n.args])), n)
            return None

        for _ in range(4):  # inner look-ups first, then the strings built from them
            new = _rewrite(e, f)
            if new is e:
                break
            e = new
        return e

    def alts(self, expr, stop=()) -> list:
        """`stop`: names left as they are (e.g. the loop variable a condition is about)."""
        out, seen_txt = [], set()
        work = [(expr, frozenset(stop))]
        steps = 0
        while work and len(out) < _CAP and steps < 400:
            steps += 1
            e, used = work.pop()
            nm = next((n.id for n in ast.walk(e) if isinstance(n, ast.Name) and isinstance(n.ctx, ast.Load) and n.id in self.defs and n.id not in used), None)
            if nm is None:
                e = self.fold(self._with_outer_constants(e))
                t = unparse(e)
                if t not in seen_txt:
                    seen_txt.add(t)
                    out.append(e)
                continue
            choices = list(self.defs[nm])
            if nm in self.params:
                choices.append(None)
            for c in choices:
                work.append((e if c is None else _subst(e, nm, c), used | {nm}))
        return out

    def texts(self, expr) -> set:
        return {unparse(a) for a in self.alts(expr)}

    def consts(self, expr):
        """Set of constant values `expr` may stand for, or None when some alternative is not a constant."""
        vals = set()
        for a in self.values(expr):
            if not isinstance(a, ast.Constant):
                return None
            vals.add(a.value)
        return vals

    def origins(self, expr) -> list:
        """What the VALUE `expr` may be: locals followed to their defining expressions (transitively), conditional
        expressions / `or` / `and` chains / cast(T, x) split into their possible results; sub-expressions (call arguments, ...)
        are left as written."""
        out = []

        def go(e, used):
            if isinstance(e, ast.Name) and isinstance(e.ctx, ast.Load) and e.id in self.defs and e.id not in used:
                for d in self.defs[e.id]:
                    go(d, used | {e.id})
                if e.id in self.params:
                    out.append(e)
            elif isinstance(e, ast.IfExp):
                go(e.body, used)
                go(e.orelse, used)
            elif isinstance(e, ast.BoolOp):
                for v in e.values:
                    go(v, used)
            elif isinstance(e, ast.NamedExpr):
                go(e.value, used)
            elif isinstance(e, ast.Call) and isinstance(e.func, ast.Name) and e.func.id == "cast" and len(e.args) == 2:
                go(e.args[1], used)
            else:
                g = self._outer_value(e, True)
                out.append(g if g is not None else e)

        go(expr, frozenset())
        return out

    def values(self, expr) -> list:
        """origins() of the value, each with its locals expanded (alts)."""
        out, seen = [], set()
        for o in self.origins(expr):
            for a in self.alts(o):
                t = unparse(a)
                if t not in seen:
                    seen.add(t)
                    out.append(a)
        return out


def _rewrite(node, f):
    """Copy-on-write rewriting: f(node) -> replacement | None (descend).  Unchanged subtrees are shared, never mutated."""
    r = f(node)
    if r is not None:
        return r
    changed = False
    fields = {}
    for name, val in ast.iter_fields(node):
        if isinstance(val, ast.AST):
            nv = _rewrite(val, f)
            changed = changed or nv is not val
            fields[name] = nv
        elif isinstance(val, list):
            nl = [(_rewrite(x, f) if isinstance(x, ast.AST) else x) for x in val]
            changed = changed or any(a is not b for a, b in zip(nl, val))
            fields[name] = nl
        else:
            fields[name] = val
    if not changed:
        return node
    return ast.copy_location(type(node)(**fields), node)


def _subst(e, name, value):
    return _rewrite(e, lambda n: value if isinstance(n, ast.Name) and n.id == name and isinstance(n.ctx, ast.Load) else None)


def specialise(fn_node, sn, is_a):
    """The function body for ONE class of `self`: `if` statements / conditional expressions whose test is decided by
    isinstance(self, <class>) facts (is_a(class name) -> True | False | None; and / or / not handled three-valued) keep only
    the side taken.  Copy-on-write; the input is not modified."""
    from ..kinds import tv

    names = set()
    for n in ast.walk(fn_node):
        if isinstance(n, ast.Call) and isinstance(n.func, ast.Name) and n.func.id == "isinstance" and len(n.args) == 2 and is_self(n.args[0], sn):
            for c in (n.args[1].elts if isinstance(n.args[1], ast.Tuple) else [n.args[1]]):
                nm = c.attr if isinstance(c, ast.Attribute) else getattr(c, "id", None)
                if nm:
                    names.add(nm)
    facts = {}
    for nm in names:
        v = is_a(nm)
        if v is not None:
            facts[nm] = v
    if not facts:
        return fn_node

    return _specialise_with(fn_node, lambda t: tv(t, sn, facts))


def _specialise_with(fn_node, decide):
    """Keep only the side taken of every `if` / conditional expression whose test decide(test) -> True | False | None settles."""
    def f(n):
        if isinstance(n, ast.If):
            v = decide(n.test)
            if v is None:
                return None
            taken = n.body if v else n.orelse
            body = [_rewrite(x, f) for x in taken] or [ast.copy_location(ast.Pass(), n)]
            return ast.copy_location(ast.If(test=ast.copy_location(ast.Constant(value=True), n), body=body, orelse=[]), n)
        if isinstance(n, ast.IfExp):
            v = decide(n.test)
            if v is None:
                return None
            return _rewrite(n.body if v else n.orelse, f)
        return None

    return _rewrite(fn_node, f)


def specialise_consts(fn_node, sn, const_of):
    """Third specialisation step: tests on a CLASS CONSTANT read through self / cls — `self.X is None`, `self.X is not None`,
    `self.X == <const>`, `self.X in (<consts>)`, plain truth of `self.X`, under not / and / or — are settled with the value the
    class under analysis has for X (const_of(attr) -> ast.Constant | None: resolved through that class' MRO, only for
    attributes no code ever re-binds).  E.g. one generic accessor driven by a per-class attribute."""
    me = {sn, "cls"}

    def value(e):
        if isinstance(e, ast.Attribute) and isinstance(e.ctx, ast.Load) and isinstance(e.value, ast.Name) and e.value.id in me:
            return const_of(e.attr)
        if isinstance(e, ast.Constant):
            return e
        return None

    def decide(t):
        if isinstance(t, ast.UnaryOp) and isinstance(t.op, ast.Not):
            v = decide(t.operand)
            return None if v is None else not v
        if isinstance(t, ast.BoolOp):
            vals = [decide(v) for v in t.values]
            if isinstance(t.op, ast.And):
                return False if any(v is False for v in vals) else True if all(v is True for v in vals) else None
            return True if any(v is True for v in vals) else False if all(v is False for v in vals) else None
        if isinstance(t, ast.Compare) and len(t.ops) == 1:
            op, a, b = t.ops[0], t.left, t.comparators[0]
            if not any(isinstance(x, ast.Attribute) for x in (a, b)):
                return None
            va = value(a)
            if isinstance(op, (ast.In, ast.NotIn)) and va is not None and isinstance(b, (ast.Tuple, ast.List, ast.Set)) and all(isinstance(e, ast.Constant) for e in b.elts):
                r = va.value in [e.value for e in b.elts]
                return r if isinstance(op, ast.In) else not r
            vb = value(b)
            if va is None or vb is None:
                return None
            if isinstance(op, (ast.Is, ast.IsNot)) and (va.value is None or vb.value is None):
                r = va.value is None and vb.value is None
                return r if isinstance(op, ast.Is) else not r
            if isinstance(op, (ast.Eq, ast.NotEq)):
                r = va.value == vb.value
                return r if isinstance(op, ast.Eq) else not r
            return None
        if isinstance(t, ast.Attribute):
            v = value(t)
            return None if v is None else bool(v.value)
        return None

    return _specialise_with(fn_node, decide)


def specialise_identity(fn_node, sn, flow: Flow, is_a):
    """Second specialisation step, on a body already specialised to one class of self: tests `X is self` / `X is not self`
    (under not / and / or) are settled where X can only stand for self (True), or only for parameters that a refusing guard of
    the function — `if not isinstance(P, C): raise ...` at its top level — has established to be instances of classes self is
    NOT an instance of (False: a different object).  E.g. roles named first (`potential, current = self, partner`) and the
    field then chosen by `if self is potential:`."""
    not_self = set()
    for st in fn_node.body:
        if isinstance(st, ast.If) and not st.orelse and st.body and isinstance(st.body[-1], ast.Raise) and isinstance(st.test, ast.UnaryOp) and isinstance(st.test.op, ast.Not):
            c = st.test.operand
            if isinstance(c, ast.Call) and isinstance(c.func, ast.Name) and c.func.id == "isinstance" and len(c.args) == 2 and isinstance(c.args[0], ast.Name):
                classes = c.args[1].elts if isinstance(c.args[1], ast.Tuple) else [c.args[1]]
                names = [k.attr if isinstance(k, ast.Attribute) else getattr(k, "id", None) for k in classes]
                if names and all(nm is not None and is_a(nm) is False for nm in names):
                    not_self.add(c.args[0].id)

    def same_as_self(e):
        os_ = flow.origins(e)
        if os_ and all(is_self(o, sn) for o in os_):
            return True
        if os_ and all(isinstance(o, ast.Name) and o.id in not_self and o.id in flow.params and not flow.defs.get(o.id) for o in os_):
            return False
        return None

    def decide(t):
        if isinstance(t, ast.UnaryOp) and isinstance(t.op, ast.Not):
            v = decide(t.operand)
            return None if v is None else not v
        if isinstance(t, ast.BoolOp):
            vals = [decide(v) for v in t.values]
            if isinstance(t.op, ast.And):
                return False if any(v is False for v in vals) else True if all(v is True for v in vals) else None
            return True if any(v is True for v in vals) else False if all(v is False for v in vals) else None
        if isinstance(t, ast.Compare) and len(t.ops) == 1 and isinstance(t.ops[0], (ast.Is, ast.IsNot)):
            a, b = t.left, t.comparators[0]
            other = b if is_self(a, sn) else a if is_self(b, sn) else None
            if other is None:
                # both sides through locals: `potential is self` written with an alias of self
                sa_, sb_ = same_as_self(a), same_as_self(b)
                v = True if sa_ is True and sb_ is True else False if {sa_, sb_} == {True, False} else None
            else:
                v = same_as_self(other)
            if v is None:
                return None
            return v if isinstance(t.ops[0], ast.Is) else not v
        return None

    return _specialise_with(fn_node, decide)


# ---------------------------------------------------------------------- predicates
def is_self(e, sn="self") -> bool:
    return isinstance(e, ast.Name) and e.id == sn


def is_metadata_of(e, sn="self") -> bool:
    """`self.metadata` / `self._metadata` (the entity's own metadata dictionary)."""
    return isinstance(e, ast.Attribute) and e.attr in ("metadata", "_metadata") and is_self(e.value, sn)


def key_access(e):
    """(container expr, key expr) for `container[key]` (load) / `container.get(key, ...)`, else None."""
    if isinstance(e, ast.Subscript) and isinstance(e.ctx, ast.Load):
        return e.value, e.slice
    if isinstance(e, ast.Call) and isinstance(e.func, ast.Attribute) and e.func.attr == "get" and e.args:
        return e.func.value, e.args[0]
    return None


def is_em_dataset(e, sn="self") -> bool:
    """The 'EM Dataset' dictionary of the entity's own metadata."""
    ka = key_access(e)
    return ka is not None and isinstance(ka[1], ast.Constant) and ka[1].value == "EM Dataset" and is_metadata_of(ka[0], sn)


def keys_read(flow: Flow, fn_node, container_pred) -> set:
    """Constant keys K for which the function reads `<container>[K]` / `<container>.get(K)`, the container decided by
    container_pred on each thing the container expression may stand for."""
    out = set()
    for n in ast.walk(fn_node):
        ka = key_access(n)
        if ka is None:
            continue
        cont, key = ka
        if not any(container_pred(c) for c in flow.values(cont)):
            continue
        ks = flow.consts(key)
        if ks:
            out |= {k for k in ks if isinstance(k, str)}
    return out


def callee_names(flow: Flow | None, c) -> set:
    """Names of the function a call may invoke: the attribute / bare name as written, or — for a local holding a bound
    method (`update = ws.update_attribute; update(x)`) — the attribute it stands for."""
    if not isinstance(c, ast.Call):
        return set()
    f = c.func
    if isinstance(f, ast.Attribute):
        return {f.attr}
    if isinstance(f, ast.Name):
        out = set()
        if flow is not None and f.id in flow.defs:
            for o in flow.origins(f):
                if isinstance(o, ast.Attribute):
                    out.add(o.attr)
                elif isinstance(o, ast.Name):
                    out.add(o.id)
        return out or {f.id}
    return set()


def dict_keys(flow: Flow, expr):
    """Constant keys of the dictionary literal(s) `expr` may stand for: (set of keys, list of (key, value expr)), or None."""
    keys, pairs = set(), []
    alts = flow.values(expr)
    if not alts:
        return None
    for a in alts:
        if isinstance(a, ast.Call) and isinstance(a.func, ast.Name) and a.func.id == "dict" and not a.args:
            for k in a.keywords:
                if k.arg is None:
                    return None
                keys.add(k.arg)
                pairs.append((k.arg, k.value))
            continue
        if not isinstance(a, ast.Dict):
            return None
        for k, v in zip(a.keys, a.values):
            if k is None:
                return None
            ks = flow.consts(k)
            if not ks:
                return None
            for kk in ks:
                keys.add(kk)
                pairs.append((kk, v))
    # a dictionary built by successive stores on the local that holds it: d = {}; d[k1] = v1; d.update({k2: v2}) / d.update(k3=v3)
    names, work = set(), [expr]
    while work:
        e = work.pop()
        if isinstance(e, ast.Name) and e.id not in names and e.id in flow.defs:
            names.add(e.id)
            work += [d for d in flow.defs[e.id] if isinstance(d, ast.Name)]
    for n in ast.walk(flow.node) if names else ():
        if isinstance(n, (ast.Assign, ast.AnnAssign)) and n.value is not None:
            for t in (n.targets if isinstance(n, ast.Assign) else [n.target]):
                if isinstance(t, ast.Subscript) and isinstance(t.value, ast.Name) and t.value.id in names:
                    ks = flow.consts(t.slice)
                    if not ks:
                        return None
                    for kk in ks:
                        keys.add(kk)
                        pairs.append((kk, n.value))
        elif isinstance(n, ast.Call) and isinstance(n.func, ast.Attribute) and n.func.attr in ("update", "setdefault") and isinstance(n.func.value, ast.Name) and n.func.value.id in names:
            if n.func.attr == "setdefault" and len(n.args) == 2:
                ks = flow.consts(n.args[0])
                if not ks:
                    return None
                for kk in ks:
                    keys.add(kk)
                    pairs.append((kk, n.args[1]))
                continue
            for k in n.keywords:
                if k.arg is None:
                    return None
                keys.add(k.arg)
                pairs.append((k.arg, k.value))
            for a in n.args:
                got = dict_keys(flow, a) if not (isinstance(a, ast.Name) and a.id in names) else (set(), [])
                if got is None:
                    return None
                keys |= got[0]
                pairs += got[1]
    return keys, pairs


def attr_stores(fn_node, attr, flow: Flow | None = None):
    """(receiver, value, node) of `<recv>.<attr> = ...` (plain / annotated / tuple-target assignments) and
    setattr(<recv>, <attr>, ...) — the attribute name a constant, or (with a flow) a variable standing for that constant only."""
    out = []
    for n in ast.walk(fn_node):
        if isinstance(n, (ast.Assign, ast.AnnAssign)) and n.value is not None:
            for t in (n.targets if isinstance(n, ast.Assign) else [n.target]):
                for x in ([t] if not isinstance(t, (ast.Tuple, ast.List)) else t.elts):
                    if isinstance(x, ast.Attribute) and x.attr == attr:
                        out.append((x.value, n.value, n))
        elif isinstance(n, ast.Call) and isinstance(n.func, ast.Name) and n.func.id == "setattr" and len(n.args) == 3:
            nm = n.args[1]
            if (isinstance(nm, ast.Constant) and nm.value == attr) or (flow is not None and not isinstance(nm, ast.Constant) and flow.consts(nm) == {attr}):
                out.append((n.args[0], n.args[2], n))
    return out


def const_seq(flow: Flow | None, expr, resolve_global):
    """Set of constants of the sequence(s) `expr` may stand for — literals, locals, module / class level names (through
    resolve_global(name) -> expr | None), concatenations `a + b`, `[*a, 'x']`, list(a) / tuple(a) — or None."""
    def ev(e, depth=0):
        if depth > 8:
            return None
        if _is_seq(e):
            out = set()
            for x in e.elts:
                if isinstance(x, ast.Starred):
                    s = ev(x.value, depth + 1)
                    if s is None:
                        return None
                    out |= s
                elif isinstance(x, ast.Constant):
                    out.add(x.value)
                else:
                    return None
            return out
        if isinstance(e, ast.BinOp) and isinstance(e.op, (ast.Add, ast.BitOr)):
            a, b = ev(e.left, depth + 1), ev(e.right, depth + 1)
            return None if a is None or b is None else a | b
        if isinstance(e, ast.Call) and isinstance(e.func, ast.Name) and e.func.id in ("list", "tuple", "set", "frozenset", "sorted") and len(e.args) == 1:
            return ev(e.args[0], depth + 1)
        if isinstance(e, ast.Call) and isinstance(e.func, ast.Attribute) and e.func.attr == "copy" and not e.args:
            return ev(e.func.value, depth + 1)
        if isinstance(e, ast.Name):
            g = resolve_global(e.id)
            return ev(g, depth + 1) if g is not None else None
        return None

    alts = flow.alts(expr) if flow is not None else [expr]
    if not alts:
        return None
    res = None
    for a in alts:
        s = ev(a)
        if s is None:
            return None
        res = s if res is None else (res & s)  # what is guaranteed on every alternative
    return res


def assume_truth(flow: Flow, test, var: str, facts: dict):
    """Three-valued truth of a condition about the variable `var` under facts in the vocabulary of sa.kinds.tv
    ({class name: isinstance(var, class)}, 'notnone:<var>', 'truthy:<var>'): named sub-conditions, aliases of var and hoisted
    tuples of classes are expanded first; several possible expansions must agree."""
    from ..kinds import tv

    def norm(t):
        # isinstance(x, <name of a tuple of classes>) -> the tuple itself
        def f(n):
            if isinstance(n, ast.Call) and isinstance(n.func, ast.Name) and n.func.id == "isinstance" and len(n.args) == 2 and not isinstance(n.args[1], ast.Tuple):
                o = flow.origins(n.args[1])
                if len(o) == 1 and isinstance(o[0], ast.Tuple):
                    return ast.copy_location(ast.Call(func=n.func, args=[n.args[0], o[0]], keywords=[]), n)
            return None

        return _rewrite(t, f)

    def truth(a):
        if isinstance(a, ast.Constant):
            return bool(a.value)  # a literal has a known truth value (e.g. the `None` a result variable starts with)
        return tv(norm(a), var, facts)

    vals = {truth(a) for a in flow.alts(test, stop=(var,))}
    return vals.pop() if len(vals) == 1 else None


def reach_assuming(g, truth, avoid=lambda n: False):
    """Nodes of the CFG g reachable from its entry when the outcome of each test node is truth(test expr) -> True | False | None."""
    seen, work = set(), [g.entry]
    while work:
        n = work.pop()
        if n in seen or avoid(n):
            continue
        seen.add(n)
        succ = n.succ
        if n.kind == "test":
            v = truth(n.ast)
            if v is True:
                succ = [(m, l) for m, l in succ if l != "false"]
            elif v is False:
                succ = [(m, l) for m, l in succ if l != "true"]
        work += [m for m, _ in succ if m not in seen]
    return seen
