"""C01 — re-opening yields the state built through the API (structural necessary conditions)."""

from __future__ import annotations

import ast

from ..cfg import CFG
from ..kinds import has_call, reach
from ..model import AnalysisError, unparse
from ..report import RuleResult
from ..roles import bound_from, calls, returned_names
from ..tables import WriterTables
from ._c01_paths import Paths, Sym, attr_name, conjuncts, expand_generators, mk_and, neg, default_of, kind_of, kw, make_call_eval, never_none_fields, norm, record_fields, show_set, sources, specialise, view
from .c06 import rule_own as _c06_own


class _Tables(WriterTables):
    """KEY_MAP and the writer's skip list only: the C01 rules do not consult the route table of update_field, so its shape is not
    theirs to judge (the properties that use it do)."""

    def __init__(self, proj, ctx):
        self._ctx = ctx
        super().__init__(proj)

    def _dispatch(self):
        pass

    def _handler_reads(self):
        pass

    def _skip(self):
        """keys of the attribute map the writer leaves out: the literal table a `<key> in <table>: continue` test of the loop over
        `<entity>.attribute_map.items()` consults — the loop may live in a generator helper feeding write_attributes."""
        fn0 = self.writer.methods.get("write_attributes")
        if fn0 is None:
            raise AnalysisError("anchor H5Writer.write_attributes not found")
        fn = expand_generators(self._ctx, view(self._ctx, fn0))
        S = Sym(fn.node)
        self.skip_keys = []
        found = False
        for lp in ast.walk(fn.node):
            if not (isinstance(lp, ast.For) and isinstance(lp.target, ast.Tuple) and len(lp.target.elts) == 2 and isinstance(lp.target.elts[0], ast.Name)
                    and "attribute_map" in S.text(lp.iter)):
                continue
            found = True
            key = lp.target.elts[0].id
            for n in ast.walk(lp):
                if isinstance(n, ast.If) and any(isinstance(b, ast.Continue) for b in n.body):
                    for x in ast.walk(n.test):
                        if isinstance(x, ast.Compare) and len(x.ops) == 1 and isinstance(x.ops[0], ast.In) and isinstance(x.left, ast.Name) and x.left.id == key:
                            mem = S._literal_members(S.X(x.comparators[0]))
                            if mem is not None:
                                self.skip_keys += [m for m in mem if m not in self.skip_keys]
        if not found:
            raise AnalysisError("H5Writer.write_attributes: loop over attribute_map not found")


def _init_params(K):
    """Parameter names a keyword can reach through K.__init__ and the super().__init__(**kwargs) chain;
    stops at a `**_` sink (discarded)."""
    out = set()
    mro = [c for c in K.mro if not isinstance(c, str)]
    for c in mro:
        fn = c.methods.get("__init__")
        if fn is None:
            continue
        a = fn.node.args
        out |= {x.arg for x in a.args[1:] + a.kwonlyargs}
        if a.kwarg is None or a.kwarg.arg == "_":
            break
        # super().__init__(**kwargs) / super(K, self).__init__(**kwargs) / Base.__init__(self, **kwargs)
        forwards = any(isinstance(n, ast.Call) and isinstance(n.func, ast.Attribute) and n.func.attr == "__init__"
                       and (isinstance(n.func.value, ast.Call) and unparse(n.func.value.func) == "super" or isinstance(n.func.value, ast.Name) and n.func.value.id in {getattr(b, "name", b) for b in mro})
                       and any(k.arg is None and unparse(k.value) == a.kwarg.arg for k in n.keywords)
                       for n in ast.walk(fn.node))
        if not forwards:
            break
    return out


def rule_schema(ctx) -> RuleResult:
    res = RuleResult(
        "C01.SCHEMA",
        "C01",
        "every key the writer emits for a class (attribute map minus the writer's skip list, attribute readable) has somewhere "
        "to go on load: for entities a property with a setter (map_attributes swallows AttributeError), for types an "
        "__init__ parameter on the super().__init__(**kwargs) chain that is not discarded by `**_`",
        floor=800,
    )
    p = ctx.p
    t = _Tables(p, ctx)
    ent, ety = p.cls("Entity"), p.cls("EntityType")
    n_cls = 0
    for K in p.classes:
        is_ent, is_typ = ent in K.mro, ety in K.mro
        if not (is_ent or is_typ):
            continue
        amap = p.attribute_map(K) or {}
        n_cls += 1
        params = _init_params(K) if is_typ else None
        for key, attr in amap.items():
            if not (isinstance(attr, str) and attr.isidentifier()):
                note = f"dead map entry {key!r}: {attr!r} is not an attribute name (never written, never read)"
                if note not in res.notes:
                    res.notes.append(note)
                continue
            if key in t.skip_keys:
                continue
            m = K.lookup(attr)
            if m is None:
                continue  # getattr raises AttributeError in write_attributes: not emitted for this class
            if m[1] == "prop" and m[2].getter is None:
                continue
            if is_ent:
                ok = (m[1] == "prop" and m[2].setter is not None) or m[1] == "assign"
                res.inst(f"{K.name}: {key!r} -> {attr} loadable via setter", ok=ok)
                if not ok:
                    res.find(m[0].name, attr, f"written as {key!r} but has no setter", (m[2].getter.where if m[1] == "prop" else K.where),
                             f"{K.name} writes {key!r} from the read-only property {attr}; on load map_attributes' setattr raises AttributeError, which is "
                             "swallowed: the stored value is lost on every re-open", resolved_on=K.name)
            else:
                ok = attr in params
                res.inst(f"{K.name}: {key!r} -> __init__({attr}=...)", ok=ok)
                if not ok:
                    res.find(K.name, attr, f"written as {key!r} but __init__ has no parameter {attr}", K.where,
                             f"type attributes are rebuilt by keyword; {attr!r} falls into a discarding **kwargs: the stored value is lost on re-open")
    if n_cls < 90:
        raise AnalysisError(f"C01.SCHEMA: only {n_cls} classes in the Entity / EntityType families")
    return res


def _const(sym, e):
    """Value of an expression that is a constant once aliases / temporaries are expanded, else None."""
    if e is None:
        return None
    x = sym.X(e)
    return x.value if isinstance(x, ast.Constant) else None


def _fetch_calls(fn, ws_cls):
    """(kind, key) for lazy loads in a getter (normalised view): <workspace>.fetch_array_attribute(self, key='cells'),
    fetch_metadata(uid, argument='Metadata'), fetch_values; the receiver may be read into a local first."""
    out = []
    S = Sym(fn.node)
    for c in ast.walk(fn.node):
        if isinstance(c, ast.Call) and isinstance(c.func, ast.Attribute) and S.text(c.func.value).endswith("workspace"):
            target = ws_cls.methods.get(c.func.attr)
            if c.func.attr == "fetch_array_attribute":
                key = _const(S, kw(c, "key", 1))
                if key is None and kw(c, "key", 1) is None and target is not None:
                    key = _const(S, default_of(target.node, "key"))
                out.append(("array", key if key is not None else "cells", c))
            elif c.func.attr == "fetch_metadata":
                arg = _const(S, kw(c, "argument", 1))
                if arg is None and kw(c, "argument", 1) is None and target is not None:
                    arg = _const(S, default_of(target.node, "argument"))
                out.append(("json", arg or "Metadata", c))
            elif c.func.attr == "fetch_values":
                out.append(("values", "values", c))
    return out


def _io_target(fn, reader_method):
    """The `self._io_call(H5Reader.<reader_method>, ...)` calls of a Workspace method (normalised view)."""
    S = Sym(fn.node)
    return S, [c for c in ast.walk(fn.node) if isinstance(c, ast.Call) and attr_name(c) == "_io_call" and c.args and S.text(c.args[0]) == f"H5Reader.{reader_method}"]


def rule_fetchkey(ctx) -> RuleResult:
    res = RuleResult(
        "C01.FETCHKEY",
        "C01",
        "for every lazily loaded dataset attribute the key its getter fetches equals the route its setter persists (same "
        "KEY_MAP dataset), and the container the reader looks in covers every entity kind on which the setter is reachable",
        floor=15,
    )
    p = ctx.p
    t = _Tables(p, ctx)
    ent = p.cls("Entity")
    wsc = p.cls("Workspace")
    seen = set()
    for K in p.subclasses(ent):
        for c in K.mro:
            if isinstance(c, str):
                continue
            for name, pr in c.props.items():
                if pr.getter is None or pr.getter in seen or K.lookup(name)[2] is not pr:
                    continue
                fc = _fetch_calls(view(ctx, pr.getter), wsc)
                if not fc:
                    continue
                seen.add(pr.getter)
                st = K.lookup(name)[2].setter
                routes = set()
                if st is not None:
                    sv = view(ctx, st)
                    S = Sym(sv.node)
                    for n in ast.walk(sv.node):
                        if isinstance(n, ast.Call) and attr_name(n) == "update_attribute" and len(n.args) > 1 and S.text(n.args[0]) == "self" and isinstance(_const(S, n.args[1]), str):
                            routes.add(_const(S, n.args[1]))
                for kind, key, call in fc:
                    where = f"{pr.getter.module.relpath}:{call.lineno}"
                    if kind == "array":
                        ok = key in t.key_map and (not routes or key in routes or name in routes and key == name)
                        ok = ok and (key == name or key == "cells" and name == "cells")
                        res.inst(f"{c.name}.{name}: getter fetches {key!r}, setter persists {sorted(routes)}", nontrivial=True, ok=ok)
                        if not ok:
                            res.find(c.name, name, f"getter fetches {key!r}, setter persists {sorted(routes)}", where,
                                     f"after re-opening, {c.name}.{name} is loaded from the dataset of {key!r}, not from the one its setter writes")
                    elif kind == "json":
                        want = t.key_map.get(name)
                        ok = want is not None and key == want and (not routes or name in routes)
                        res.inst(f"{c.name}.{name}: getter fetches argument {key!r}; KEY_MAP[{name!r}] = {want!r}; setter persists {sorted(routes)}", nontrivial=True, ok=ok)
                        if not ok:
                            res.find(c.name, name, f"getter fetches {key!r}, writer stores under {want!r}", where,
                                     f"{c.name}.{name} is written to one dataset and read from another")
    # container agreement: Workspace.fetch_metadata / fetch_array_attribute vs the writer's fetch_handle hierarchy.  The
    # container is the value handed to the reader (wherever it is computed): the string constants it may come from, or the
    # kind -> container table str_from_type.
    flat = ("Data", "Groups", "Objects")
    fm = p.func("Workspace.fetch_metadata")
    fmv = view(ctx, fm)
    S, ios = _io_target(fmv, "fetch_metadata")
    if not ios:
        raise AnalysisError("Workspace.fetch_metadata: the call of H5Reader.fetch_metadata not found")
    rd = p.cls("H5Reader").methods.get("fetch_metadata")
    src = set()
    for c in ios:
        e = kw(c, "entity_type", 2)
        if e is None and rd is not None:
            e = default_of(rd.node, "entity_type")
        src |= sources(e, fmv.node) if e is not None else set()
    kinds = {k for k in flat if repr(k) in src}
    via_table = "call:str_from_type" in src
    # Entity.metadata is settable on every entity kind
    data_settable = p.cls("Data", "data.data").lookup("metadata")[2].setter is not None
    ok = via_table or not data_settable or "Data" in kinds
    res.inst(f"Workspace.fetch_metadata looks in {sorted(kinds) if not via_table else 'str_from_type(entity)'}; metadata is settable on Data: {data_settable}", nontrivial=True, ok=ok)
    if not ok:
        res.find("Workspace", "fetch_metadata", "metadata of data entities is read from Groups/Objects only", fm.where,
                 "Entity.metadata is assignable on Data; the writer stores it under Data/<uid>/Metadata, the reader looks under Objects: "
                 "metadata assigned to a data set is gone after re-opening")
    fa = p.func("Workspace.fetch_array_attribute")
    fav = view(ctx, fa)
    S, ios = _io_target(fav, "fetch_array_attribute")
    src = set()
    for c in ios:
        e = kw(c, "entity_type", 2)
        src |= sources(e, fav.node) if e is not None else set()
    ok = bool(ios) and ("call:str_from_type" in src or repr("Objects") in src and repr("Groups") in src)
    res.inst("Workspace.fetch_array_attribute chooses Objects / Groups by entity kind", ok=ok)
    if not ok:
        res.find("Workspace", "fetch_array_attribute", "container selection changed", fa.where, "array attributes are read from the wrong flat container")
    return res


LAZY_EXCEPTIONS = {
    ("Concatenator", "add_save_concatenated", "_concatenated_object_ids"):
        "every load path primes it first (fetch_children -> fetch_concatenated_objects reads the property)",
    ("ConcatenatedObject", "create_property_group", "_property_groups"):
        "Workspace.fetch_children reads entity.property_groups for every entity it recovers, so the field is primed on every load path "
        "(checked with repro/c01_lazy_property_groups_concatenated.py: the duplicate-name test also fires on a re-opened hole)",
}


def _private_refs(p) -> dict:
    """private member name -> functions that mention `<something>._name` (call it or pass it on)."""
    idx: dict = {}
    for fn in p.all_functions():
        for x in ast.walk(fn.node):
            if isinstance(x, ast.Attribute) and x.attr.startswith("_") and not x.attr.startswith("__"):
                idx.setdefault(x.attr, set()).add(fn)
    return idx


def _accessor_helpers(p, c, pr, refs) -> set:
    """Private methods of c that are part of the accessor pair of a property: referred to by the getter / setter and by nothing
    else in the project (a part of the getter moved into a helper is still the getter)."""
    pair = {f for f in (pr.getter, pr.setter) if f is not None}
    own: set = set()
    changed = True
    while changed:
        changed = False
        for name, fn in c.methods.items():
            if fn in own or not name.startswith("_") or name.startswith("__") or fn.kind != "method":
                continue
            if any(sub.own(name) is not None for sub in p.subclasses(c, strict=True)):
                continue
            cs = refs.get(name, set()) - {fn}
            if cs and cs <= (pair | own):
                own.add(fn)
                changed = True
    return own


def _owners(p, c, fn, refs, _seen=None) -> set:
    """The methods a private helper of class c works for: everything that refers to it, private helpers of c followed up to their
    own users.  Empty when fn is not a private method of c or has a user outside the class (then it stands for itself)."""
    if not (fn.name.startswith("_") and not fn.name.startswith("__") and fn.kind == "method" and c.methods.get(fn.name) is fn):
        return set()
    if any(sub.own(fn.name) is not None for sub in p.subclasses(c, strict=True)):
        return set()
    seen = _seen if _seen is not None else set()
    seen.add(fn)
    out = set()
    users = refs.get(fn.name, set()) - {fn}
    if not users:
        return set()
    for u in users:
        if u.cls is not c:
            return set()
        if u in seen:
            continue
        up = _owners(p, c, u, refs, seen) if u.name.startswith("_") and not u.name.startswith("__") and u.kind == "method" else set()
        out |= up if up else {u}
    return out


def rule_lazy(ctx) -> RuleResult:
    res = RuleResult(
        "C01.LAZY",
        "C01",
        "no method other than the accessor pair reads the backing field of a lazily loaded attribute directly (it is None on a "
        "freshly opened entity until the getter ran), unless the read is followed by a None test with a fetch fallback",
        floor=15,
    )
    p = ctx.p
    ent = p.cls("Entity")
    refs = _private_refs(p)
    done = set()
    for K in p.subclasses(ent):
        if K.synthetic:
            continue
        for c in K.mro:
            if isinstance(c, str) or c in done:
                continue
            done.add(c)
            lazy = {}
            for name, pr in c.props.items():
                g = pr.getter
                if g is None:
                    continue
                # lazily loaded: every path of the getter (helpers expanded) to a <...>.fetch_*() call implies `self._<name> is None`
                # (nested if, guard clause returning the cached value, merged with other conditions: all the same fact)
                gv = view(ctx, g).node
                if not any(isinstance(x, ast.Call) and isinstance(x.func, ast.Attribute) and x.func.attr.startswith("fetch_") for x in ast.walk(gv)):
                    continue
                P = Paths(gv)
                fetches = P.call_nodes(lambda x: isinstance(x.func, ast.Attribute) and x.func.attr.startswith("fetch_"))
                if fetches and P.conj(f"self._{name} is None") <= P.necessary([P.g.entry], fetches):
                    lazy["_" + name] = pr
            if not lazy:
                continue
            members = list(c.methods.values()) + [f for pr in c.props.values() for f in (pr.getter, pr.setter) if f is not None and f.cls is c]
            for fld, pr in lazy.items():
                res.inst(f"{c.name}.{pr.name}: lazily loaded into self.{fld}; direct readers are listed separately")
                own = _accessor_helpers(p, c, pr, refs)
                for fn in members:
                    if fn in (pr.getter, pr.setter) or fn.name == "__init__" or fn in own:
                        continue
                    reads = [n for n in ast.walk(fn.node) if isinstance(n, ast.Attribute) and n.attr == fld and isinstance(n.ctx, ast.Load) and unparse(n.value) == "self"]
                    # `if self._x is None` tests and `self._x is not None` guards before a store are reads too, but a pure
                    # None-comparison is not a use of the value
                    uses = []
                    for r in reads:
                        parent_cmp = any(isinstance(x, ast.Compare) and r in (x.left, *x.comparators) and any(isinstance(o, (ast.Is, ast.IsNot)) for o in x.ops) for x in ast.walk(fn.node))
                        if not parent_cmp:
                            uses.append(r)
                    if not reads:
                        continue
                    key = (c.name, fn.prop or fn.name, fld)
                    if not uses:
                        res.inst(f"{fn.qualname}: only None-tests on self.{fld}")
                        continue
                    if key in LAZY_EXCEPTIONS:
                        res.inst(f"{fn.qualname} reads self.{fld} directly — accepted: {LAZY_EXCEPTIONS[key]}")
                        res.notes.append(f"{fn.qualname} reads self.{fld}: {LAZY_EXCEPTIONS[key]}")
                        continue
                    # a private helper is part of the methods that use it: when all of them are accepted readers, so is the helper
                    owners = _owners(p, c, fn, refs)
                    if owners and all((c.name, o.prop or o.name, fld) in LAZY_EXCEPTIONS for o in owners):
                        why = LAZY_EXCEPTIONS[(c.name, sorted(o.prop or o.name for o in owners)[0], fld)]
                        res.inst(f"{fn.qualname} (helper of {sorted(o.qualname for o in owners)}) reads self.{fld} directly — accepted: {why}")
                        continue
                    res.inst(f"{fn.qualname} reads self.{fld} behind the lazy getter", nontrivial=True, ok=False)
                    res.find(c.name, fn.prop or fn.name, "reads the backing field of a lazily loaded attribute directly", f"{fn.module.relpath}:{uses[0].lineno}",
                             f"on a re-opened entity self.{fld} is None until somebody touched .{pr.name}: {fn.qualname} gives a different answer "
                             "on the live entity and after re-opening")
    return res


def rule_pgw(ctx) -> RuleResult:
    res = RuleResult(
        "C01.PGW",
        "C01",
        "every setter of a mapped PropertyGroup attribute and both mutators of its property list reach, after their last "
        "store, add_or_update_property_group(self) (or the removal of the group) on all normal paths",
        floor=5,
    )
    p = ctx.p
    PG = p.cls("PropertyGroup")
    amap = p.attribute_map(PG) or {}
    mapped = {v for v in amap.values() if v not in ("uid",)}
    targets = []
    for name in sorted(mapped):
        pr = PG.props.get(name)
        if pr and pr.setter:
            targets.append((name, pr.setter, {"_" + name}))
    for m in ("add_properties", "remove_properties"):
        if m in PG.methods:
            targets.append((m, PG.methods[m], {"_properties"}))
    from .c03 import is_set_once

    for name, fn, fields in targets:
        if fn.kind == "setter" and is_set_once(fn, "_" + name):
            res.notes.append(f"PropertyGroup.{name}: set-once setter, not assignable on a stored group")
            res.inst(f"PropertyGroup.{name}: set-once setter (no obligation)")
            continue
        # normalised body: a private helper that stores / persists is part of the setter; a list mutated through a local alias
        # (`props = self._properties; props.remove(x)`) is a store of the field
        node = view(ctx, fn).node
        g = CFG(node)
        S = Sym(node)

        def stores(n, fields=fields, S=S):
            if n.ast is None or isinstance(n.ast, list):
                return False
            for x in ast.walk(n.ast):
                if isinstance(x, ast.Attribute) and x.attr in fields and unparse(x.value) == "self" and isinstance(x.ctx, ast.Store):
                    return True
                if isinstance(x, ast.Call) and isinstance(x.func, ast.Attribute) and x.func.attr in ("remove", "append", "extend", "pop", "clear", "insert") and S.text(x.func.value) in {f"self.{f}" for f in fields}:
                    return True
            return False

        persist = lambda n, S=S: has_call(n, lambda c: isinstance(c.func, ast.Attribute) and c.func.attr in ("add_or_update_property_group", "remove_entity") and c.args and S.text(c.args[0]) == "self")  # noqa: E731
        s_nodes = [n for n in g.nodes if stores(n)]
        bad = [n for n in s_nodes if g.exit in reach(g, [m for m, _ in n.succ], avoid=persist) and not persist(n)]
        # the property list may be built in a local and assigned once: `properties = self._properties or []` ... `self._properties = properties`
        ok = not bad
        res.inst(f"PropertyGroup.{name}: {len(s_nodes)} store(s), persisted after the last one: {ok}", nontrivial=True, ok=ok)
        if bad:
            res.find("PropertyGroup", name, f"stores {sorted(fields)} without writing the group", f"{fn.module.relpath}:{bad[0].lineno}",
                     f"PropertyGroup.{name} changes the group in memory only: the file keeps the previous {name} (a renamed group comes back under its old name)")
    return res


def rule_own(ctx) -> RuleResult:
    return _c06_own(ctx, "C01.OWN", "C01")


RULES = [rule_schema, rule_fetchkey, rule_lazy, rule_pgw, rule_own]


def _fold_str(expr, value, var=None):
    """Evaluate a chain of str methods (replace / lower / capitalize / upper) applied to the name `var`, for a constant value."""
    if isinstance(expr, ast.Name):
        return value if var is None or expr.id == var else None
    if isinstance(expr, ast.Call) and isinstance(expr.func, ast.Attribute):
        base = _fold_str(expr.func.value, value, var)
        if base is None:
            return None
        args = [a.value for a in expr.args if isinstance(a, ast.Constant)]
        if len(args) != len(expr.args) or expr.keywords:
            return None
        if expr.func.attr in ("replace", "lower", "upper", "capitalize", "strip"):
            return getattr(base, expr.func.attr)(*args)
    return None


def _is_true(e):
    return isinstance(e, ast.Constant) and e.value is True


def _is_false(e):
    return isinstance(e, ast.Constant) and e.value is False


def _self_store(st, field=None):
    """statement stores (assigns / deletes) an attribute of self (the given one, or any)."""
    tgs = st.targets if isinstance(st, (ast.Assign, ast.Delete)) else [st.target] if isinstance(st, (ast.AnnAssign, ast.AugAssign)) else []
    return any(isinstance(t, ast.Attribute) and isinstance(t.value, ast.Name) and t.value.id == "self" and (field is None or t.attr == field)
               for tg in tgs for t in ast.walk(tg))


def _rename_word(text, old, new):
    import re

    return re.sub(rf"\b{re.escape(old)}\b", new, text)


def _loops(node):
    return [x for x in ast.walk(node) if isinstance(x, ast.For)]


def _unpacked(call):
    """Expressions unpacked into the keyword arguments of a call: f(**a, **{**b, **c}) -> [a, b, c]."""
    out = []

    def add(v):
        if isinstance(v, ast.Dict) and all(k is None for k in v.keys):
            for x in v.values:
                add(x)
        else:
            out.append(v)

    for k in call.keywords:
        if k.arg is None:
            add(k.value)
    return out


def _is_empty_container(e):
    return isinstance(e, (ast.Dict, ast.List, ast.Set)) and not (e.keys if isinstance(e, ast.Dict) else e.elts) or \
        isinstance(e, ast.Call) and isinstance(e.func, ast.Name) and e.func.id in ("dict", "WeakValueDictionary") and not e.args and not e.keywords


def _uid_registries(ctx, ws) -> list:
    """The uid registries of the workspace, read from the code: the fields __init__ binds to an empty dict that `register` (its
    private helpers and the literal tables they consult included) hands to the registration."""
    init, reg = ws.methods.get("__init__"), ws.methods.get("register")
    if init is None or reg is None:
        raise AnalysisError("anchor Workspace.__init__ / Workspace.register not found")
    empty = set()
    for st in ast.walk(init.node):
        if isinstance(st, (ast.Assign, ast.AnnAssign)) and st.value is not None and _is_empty_container(st.value):
            for t in (st.targets if isinstance(st, ast.Assign) else [st.target]):
                if isinstance(t, ast.Attribute) and isinstance(t.value, ast.Name) and t.value.id == "self":
                    empty.add(t.attr)
    seen, work, named = set(), [reg], set()
    while work:
        fn = work.pop()
        if fn in seen or len(seen) > 6:
            continue
        seen.add(fn)
        v = view(ctx, fn)
        for x in ast.walk(v.node):
            if isinstance(x, ast.Attribute) and isinstance(x.value, ast.Name) and x.value.id == "self":
                named.add(x.attr)
            elif isinstance(x, ast.Constant) and isinstance(x.value, str):
                named.add(x.value)
            elif isinstance(x, ast.Call):
                try:
                    callee = norm(ctx)._callee(v, x)
                except Exception:  # pragma: no cover
                    callee = None
                if callee is not None and callee.cls is not None and ws in callee.cls.mro:
                    work.append(callee)
    regs = sorted(empty & named)
    if len(regs) < 3:
        raise AnalysisError(f"Workspace: uid registries not recognised (found {regs})")
    return regs


def _reset_nodes(P, field):
    """CFG nodes after which self.<field> is an empty container: `self.<field> = {}`, `setattr(self, '<field>', {})`, or the
    head of a loop over a literal sequence of names holding '<field>' whose body does `setattr(self, <name>, {})`."""
    out = []
    for n in P.g.nodes:
        if n.kind == "stmt":
            st = n.ast
            if isinstance(st, (ast.Assign, ast.AnnAssign)) and st.value is not None and _self_store(st, field) and _is_empty_container(P.X(st.value)):
                out.append(n)
            elif isinstance(st, ast.Assign) and len(st.targets) == 1 and isinstance(st.targets[0], ast.Tuple) and isinstance(st.value, ast.Tuple) \
                    and len(st.value.elts) == len(st.targets[0].elts):
                # `self._a, self._b = {}, {}`: element-wise
                for t, v in zip(st.targets[0].elts, st.value.elts):
                    if isinstance(t, ast.Attribute) and t.attr == field and isinstance(t.value, ast.Name) and t.value.id == "self" and _is_empty_container(P.X(v)):
                        out.append(n)
            elif isinstance(st, ast.Expr) and _is_setattr_empty(P, st.value, repr(field)):
                out.append(n)
        elif n.kind == "foriter" and isinstance(n.stmt.target, ast.Name):
            names = P._literal_members(P.X(n.stmt.iter))
            if names and field in names and any(isinstance(b, ast.Expr) and _is_setattr_empty(P, b.value, n.stmt.target.id, raw=True) for b in n.stmt.body):
                out.append(n)
    return out


def _is_setattr_empty(P, c, name_text, raw=False):
    return isinstance(c, ast.Call) and isinstance(c.func, ast.Name) and c.func.id == "setattr" and len(c.args) == 3 and unparse(c.args[0]) == "self" \
        and (unparse(c.args[1]) if raw else P.text(c.args[1])) == name_text and _is_empty_container(P.X(c.args[2]))


def _map_store(fn_node, names):
    """(statement, value expression) of the store of an entry into one of the named mappings, however it is spelled:
    `m[k] = v`, `m.update({k: v for ...})`, `m.update((k, v) for ...)`, `m.update({k: v})`, `m.setdefault(k, v)`."""
    for st in ast.walk(fn_node):
        if isinstance(st, ast.Assign) and isinstance(st.targets[0], ast.Subscript) and unparse(st.targets[0].value) in names:
            return st, st.value
        if isinstance(st, ast.Expr) and isinstance(st.value, ast.Call) and isinstance(st.value.func, ast.Attribute) and unparse(st.value.func.value) in names:
            call = st.value
            if call.func.attr == "update" and len(call.args) == 1 and not call.keywords:
                a = call.args[0]
                if isinstance(a, ast.DictComp):
                    return st, a.value
                if isinstance(a, ast.Dict) and len(a.values) == 1 and a.keys[0] is not None:
                    return st, a.values[0]
                if isinstance(a, (ast.GeneratorExp, ast.ListComp)) and isinstance(a.elt, ast.Tuple) and len(a.elt.elts) == 2:
                    return st, a.elt.elts[1]
            if call.func.attr == "setdefault" and len(call.args) == 2:
                return st, call.args[1]
    return None, None


def _pairs_loop(P, loop):
    """A loop over the (key, value) pairs of a mapping, however it is spelled: `for k, v in M.items()`, or `for k in M` /
    `for k in M.keys()` with the value read as `M[k]`.  Returns (key local, locals holding the value, text of `M[<key>]`), else None.
    A loop over a literal sequence is not one (it does not follow what the mapping holds)."""
    src = P.loop_source(loop)[0]
    t = loop.target
    if isinstance(src, ast.Call) and attr_name(src) == "items" and isinstance(src.func, ast.Attribute) and not src.args \
            and isinstance(t, ast.Tuple) and len(t.elts) == 2 and all(isinstance(e, ast.Name) for e in t.elts):
        return t.elts[0].id, {t.elts[1].id}, f"{unparse(src.func.value)}[{t.elts[0].id}]"
    if isinstance(t, ast.Name):
        base = src.func.value if isinstance(src, ast.Call) and attr_name(src) == "keys" and isinstance(src.func, ast.Attribute) and not src.args else src
        if isinstance(base, (ast.Name, ast.Attribute, ast.Subscript)):
            look = f"{unparse(base)}[{t.id}]"
            return t.id, set(bound_from(loop, lambda e: P.text(e) == look)), look
    return None


def rule_flow(ctx) -> RuleResult:
    res = RuleResult(
        "C01.FLOW",
        "C01",
        "the save and load paths pass through every stage: creation saves the entity with its children and links it to its "
        "parent; write_properties writes the attributes and every KEY_MAP dataset that is set; close() re-saves the root "
        "subtree; open() rebuilds the whole tree from Root (recursively, groups and objects, with property groups), and the "
        "reader lists every child container and maps its name to a loadable kind",
        floor=14,
    )
    p = ctx.p
    ws = p.cls("Workspace")
    W = p.cls("H5Writer")
    R = p.cls("H5Reader")

    def chk(ok, inst, cls, member, construct, where, msg, nontrivial=True):
        res.inst(inst, nontrivial=nontrivial, ok=ok)
        if not ok:
            res.find(cls, member, construct, where, msg)

    def anchor(cls, name):
        if name not in cls.methods:
            raise AnalysisError(f"anchor {cls.name}.{name} not found")
        # (a generator helper feeding a loop is expanded into that loop: the loop body and the generator body are one loop)
        return cls.methods[name], expand_generators(ctx, view(ctx, cls.methods[name]))

    # Every site below is found by what it does (the call it makes, the field it stores) in the normalised body (private helpers
    # expanded, hoisted tables substituted); locals are named by role; conditions are compared as sets of necessary
    # conjuncts on the CFG plus a must-pass check (sa/rules/_c01_paths.py), never as the text of one `if`.

    # --- save side
    ce0, ce = anchor(ws, "create_entity")
    # roles: the created entity = the local the function returns; the save switch = its `save_on_creation` parameter
    P = Paths(ce.node, {nm: "R_created" for nm in returned_names(ce.node)})
    saves = P.call_nodes(lambda c: attr_name(c) == "save_entity" and c.args and P.text(c.args[0]) == "R_created")
    want = P.conj("R_created is not None and save_on_creation and self.h5file is not None")
    nec = P.necessary([P.g.entry], saves) if saves else frozenset()
    ok = bool(saves) and nec == want and P.must([P.g.entry], saves, want)
    chk(ok, f"create_entity saves the created entity exactly under {show_set(nec)}", "Workspace", "create_entity", "creation does not save the entity (or only conditionally)", ce0.where,
        "a created entity is not written to the file at creation: it exists in memory only until something else saves it")

    se0, se = anchor(ws, "save_entity")
    P = Paths(se.node)
    ok = any(isinstance(c, ast.Call) and attr_name(c) in _io_names(p) and len(c.args) > 1 and P.text(c.args[0]) == "H5Writer.save_entity" and P.text(c.args[1]) == se0.params[1]
             and kw(c, "add_children", 3) is not None and P.text(kw(c, "add_children", 3)) == se0.params[2] for c in ast.walk(se.node))
    chk(ok, "Workspace.save_entity forwards (entity, add_children) to H5Writer.save_entity", "Workspace", "save_entity", "does not forward to H5Writer.save_entity", se0.where,
        "saving an entity does not reach the writer")

    hs0, hs = anchor(W, "save_entity")
    hent = hs0.params[2]
    addp = hs0.params[4] if len(hs0.params) > 4 else "add_children"
    P = Paths(hs.node, {hent: "R_ent"})
    n1 = P.call_nodes(lambda c: attr_name(c) == "write_entity" and len(c.args) > 1 and P.text(c.args[1]) == "R_ent")
    n2 = P.call_nodes(lambda c: attr_name(c) == "write_to_parent" and len(c.args) > 1 and P.text(c.args[1]) == "R_ent")
    ok = bool(n1) and bool(n2) and P.must([P.g.entry], n1) and P.must([P.g.entry], n2)
    chk(ok, "H5Writer.save_entity: write_entity(entity) and write_to_parent(entity) on every path", "H5Writer", "save_entity", "a path skips write_entity / write_to_parent", hs0.where,
        "a saved entity is not stored or not linked under its parent")
    loops = [lp for lp in _loops(hs.node) if isinstance(lp.target, ast.Name) and P.iter_text(lp) == "R_ent.children"]
    ok, nec = False, frozenset()
    if loops:
        P = Paths(hs.node, {hent: "R_ent", **{lp.target.id: "R_child" for lp in loops}})
        want = P.conj(f"{addp} and not isinstance(R_ent, Concatenator) and hasattr(R_ent, 'children') and not isinstance(R_child, PropertyGroup)")
        for lp in loops:
            tg = P.call_nodes(lambda c: attr_name(c) == "save_entity" and len(c.args) > 1 and P.text(c.args[1]) == "R_child", within=lp)
            if not tg:
                continue
            head, nxt, body = P.loop_nodes(lp)
            nec = P.necessary([P.g.entry], tg)
            ok = nec == want and P.must([P.g.entry], [head], want) and P.must(body, tg, want, fail=[nxt]) and P.runs_through(lp)
    chk(ok, f"H5Writer.save_entity saves every child exactly under {show_set(nec)}", "H5Writer", "save_entity", "children are not all saved", hs0.where,
        "children of a saved entity (close() saves the root with add_children) are skipped: they never reach the file")

    wp0, wp = anchor(W, "write_properties")
    went = wp0.params[2]
    P = Paths(wp.node, {went: "R_ent"})
    first = P.call_nodes(lambda c: attr_name(c) == "update_field" and len(c.args) > 2 and P.text(c.args[1]) == "R_ent" and P.text(c.args[2]) == "'attributes'")
    ok = bool(first) and P.must([P.g.entry], first)
    ok2 = False
    for lp in _loops(wp.node):
        it = P.iter_text(lp)
        var = lp.target.id if isinstance(lp.target, ast.Name) and it in ("KEY_MAP", "KEY_MAP.keys()", "list(KEY_MAP)", "sorted(KEY_MAP)") else \
            lp.target.elts[0].id if it == "KEY_MAP.items()" and isinstance(lp.target, ast.Tuple) and isinstance(lp.target.elts[0], ast.Name) else None
        if var is None:
            continue
        Q = Paths(wp.node, {went: "R_ent", var: "R_attr"})
        tg = Q.call_nodes(lambda c: attr_name(c) == "update_field" and len(c.args) > 2 and Q.text(c.args[1]) == "R_ent" and Q.text(c.args[2]) == "R_attr", within=lp)
        if not tg:
            continue
        head, nxt, body = Q.loop_nodes(lp)
        want = Q.conj("getattr(R_ent, R_attr, None) is not None")
        ok2 = Q.necessary(body, tg) == want and Q.must(body, tg, want, fail=[nxt]) and Q.must([Q.g.entry], [head]) and Q.runs_through(lp)
    chk(ok and ok2, "write_properties: 'attributes' then every KEY_MAP attribute that is not None", "H5Writer", "write_properties", "not every set attribute is written at creation", wp0.where,
        "a new entity is stored without some of its datasets / attributes")

    cl0, cl = anchor(ws, "close")
    P = Paths(cl.node)
    dflt = default_of(hs0.node, addp)

    def final_save(c):
        if not (attr_name(c) in _io_names(p) and len(c.args) > 1 and P.text(c.args[0]) == "H5Writer.save_entity" and P.text(c.args[1]) in ("self.root", "self._root")):
            return False
        v = kw(c, addp, 3)
        return _is_true(P.X(v)) if v is not None else _is_true(dflt)

    ok = any(isinstance(c, ast.Call) and final_save(c) for c in ast.walk(cl.node))
    chk(ok, "close(): _io_call(H5Writer.save_entity, self.root, add_children=True)", "Workspace", "close", "final save of the root subtree changed", cl0.where,
        "entities created with save_on_creation=False or moved under a new parent are not written at close")

    reg0, reg = anchor(ws, "register")
    rent = reg0.params[1]
    # the branch taken by a PropertyGroup: decided by the class hierarchy (elif chain, dict / tuple table with a lookup helper, ...)
    # (the registries are fields that only ever hold containers: `<registry> is None` is false)
    P = Paths(reg.node, {rent: "R_ent"}, kinds={"R_ent": kind_of(p, p.cls("PropertyGroup"))}, call_eval=make_call_eval(ctx, reg0), nonnull=never_none_fields(ws))
    tg = P.call_nodes(lambda c: attr_name(c) == "add_or_update_property_group" and c.args and P.text(c.args[0]) == "R_ent"
                      and not (kw(c, "remove", 1) is not None and not _is_false(P.X(kw(c, "remove", 1)))))
    want = P.conj("not R_ent.on_file")
    nec = P.necessary([P.g.entry], tg) if tg else frozenset()
    ok = bool(tg) and nec == want and P.must([P.g.entry], tg, want)
    chk(ok, f"register: a property group is written exactly under {show_set(nec)}", "Workspace", "register",
        "a new property group is written only under an extra condition", reg0.where,
        "register is the only place a new property group reaches the file: some groups (e.g. still empty ones) exist live and are gone after re-opening")

    # --- load side
    init0, init = anchor(ws, "__init__")
    op0, op = anchor(ws, "open")
    P = Paths(init.node)
    opens = P.call_nodes(lambda c: P.text(c.func) == "self.open")
    ok = bool(opens) and P.must([P.g.entry], opens)
    # nothing is (re)set after the tree was loaded
    later = P._reach(P.after(opens), set()) if opens else set()
    ok = ok and not any(n.kind == "stmt" and _self_store(n.ast) for n in later)
    # the mode: open() without a mode falls back to the one given to the constructor
    mode_p = op0.params[1] if len(op0.params) > 1 else "mode"
    given = [nm for nm in init0.params[1:] if any(isinstance(s, (ast.Assign, ast.AnnAssign)) and _self_store(s, "_mode") and s.value is not None and P.text(s.value) == nm for s in ast.walk(init.node))]
    keeps_mode = bool(given)
    for n in opens:
        for c in [c for e in P.exprs(n) for c in ast.walk(e) if isinstance(c, ast.Call) and P.text(c.func) == "self.open"]:
            v = kw(c, mode_p, 0)
            ok = ok and (v is None and not c.args and not c.keywords or v is not None and (P.text(v) == "None" or keeps_mode and P.text(v) in (*given, "self._mode")))
    Q = Paths(op.node)
    files = [c for c in ast.walk(op.node) if isinstance(c, ast.Call) and Q.text(c.func) == "h5py.File"]
    ok = ok and keeps_mode and any("self._mode" in sources(kw(c, "mode", 1), op.node) for c in files if kw(c, "mode", 1) is not None)
    chk(ok, "Workspace.__init__ keeps its mode and ends by self.open(), which falls back to that mode", "Workspace", "__init__", "constructor does not open the file", init0.where,
        "a new Workspace object shows an empty tree", False)

    stores = Q.stmt_nodes(lambda s: _self_store(s, "_geoh5") and not isinstance(s, ast.Delete)) or Q.call_nodes(lambda c: Q.text(c.func) == "h5py.File")
    if not stores:
        raise AnalysisError("Workspace.open: the statement that opens the file (self._geoh5 = ... / h5py.File(...)) not found")
    loads = Q.call_nodes(lambda c: Q.text(c.func) == "self.fetch_or_create_root")
    ok = bool(loads) and Q.must(Q.after(stores), loads)
    chk(ok, "open(): every path that opens the file calls fetch_or_create_root()", "Workspace", "open", "a path opens the file without loading the tree", op0.where,
        "after re-opening, the workspace lists no entities")

    # every uid registry is emptied between opening the file and loading the tree: what is loaded is what the file holds, not an
    # entity / type object of the previous session that is still alive (its attributes may be stale; liveness depends on GC)
    regs = _uid_registries(ctx, ws)
    stale = []
    for r in regs:
        resets = _reset_nodes(Q, r)
        if not resets or Q.reaches(Q.after(stores), [n for n in loads if n not in resets], stop=resets):
            stale.append(r)
    chk(bool(loads) and not stale, f"open(): registries {regs} are emptied after the file is opened and before the tree is loaded", "Workspace", "open",
        "a uid registry keeps the entries of the previous session when the file is re-opened", op0.where,
        f"open() on a workspace that was closed re-uses the live objects registered in {stale} instead of what the file holds: the re-opened tree shows "
        "stale attributes (which ones depends on garbage collection)")

    fr0, fr = anchor(ws, "fetch_or_create_root")
    fc0, fc = anchor(ws, "fetch_children")
    ent_p, rec_p = fc0.params[1], fc0.params[2]
    # role: the root entity = what load_entity(<uid>, "root") returned
    is_root_load = lambda e: any(isinstance(c, ast.Call) and attr_name(c) == "load_entity" and any(isinstance(a, ast.Constant) and a.value == "root" for a in c.args + [k.value for k in c.keywords])
                                 for c in ast.walk(e))  # noqa: E731
    P = Paths(fr.node, {nm: "R_loaded" for nm in bound_from(fr.node, is_root_load)})
    becomes_root = any(isinstance(s, (ast.Assign, ast.AnnAssign)) and _self_store(s, "_root") and s.value is not None and P.text(s.value) == "R_loaded" for s in ast.walk(fr.node))
    ok = any(isinstance(c, ast.Call) and P.text(c.func) == "self.fetch_children" and c.args and (P.text(c.args[0]) == "self._root" or becomes_root and P.text(c.args[0]) == "R_loaded")
             and kw(c, rec_p, 1) is not None and _is_true(P.X(kw(c, rec_p, 1))) for c in ast.walk(fr.node))
    chk(ok, "fetch_or_create_root: fetch_children(self._root, recursively=True)", "Workspace", "fetch_or_create_root", "the tree is not loaded recursively from Root", fr0.where,
        "only the first level (or nothing) is loaded on open")

    P = Paths(fc.node)
    loop = next((x for x in _loops(fc.node) if _pairs_loop(P, x) is not None and any(calls(s_, "load_entity") for s_ in x.body)), None)
    if loop is None:
        raise AnalysisError("Workspace.fetch_children: loop over the listed children not found")
    # roles: the uid / type of the listed child; the recovered entity = what get_entity / load_entity returned inside the loop
    key, vals, look = _pairs_loop(P, loop)
    roles = {ent_p: "R_ent", **{v: "R_type" for v in vals}, key: "R_uid"}
    look = _rename_word(look, key, "R_uid")
    recs = set(bound_from(loop, lambda e: calls(e, "load_entity", "get_entity")))
    for _ in range(3):  # plain aliases of the recovered entity inside the loop
        recs |= set(bound_from(loop, lambda e: isinstance(e, ast.Name) and e.id in recs))
    roles.update({nm: "R_rec" for nm in recs})
    P = Paths(fc.node, roles)
    head, nxt, body = P.loop_nodes(loop)
    loads = [c for c in ast.walk(loop) if isinstance(c, ast.Call) and P.text(c.func) == "self.load_entity"]
    ok = bool(loads) and all(len(c.args) > 1 and P.text(c.args[0]) == "R_uid" and P.text(c.args[1]) in ("R_type", look) and kw(c, "parent", 2) is not None and P.text(kw(c, "parent", 2)) == "R_ent" for c in loads)
    chk(ok, "fetch_children: load_entity(<uid>, <child type>, parent=<entity>) for every listed child", "Workspace", "fetch_children", "children are not loaded with their parent", fc0.where,
        "children listed in the file are not re-created under their parent")
    chk(P.runs_through(loop), "fetch_children: the loop over the listed children has no early exit", "Workspace", "fetch_children",
        "the loop over the listed children can stop before the last child", fc0.where,
        "one child that is skipped (not loadable, a property group) ends the loop: the siblings listed after it and their sub-trees are not loaded")
    usable = P.conj("R_rec is not None and not isinstance(R_rec, PropertyGroup)")
    want = P.conj(f"{rec_p} and isinstance(R_rec, (Group, ObjectBase))")
    tg = P.call_nodes(lambda c: P.text(c.func) == "self.fetch_children" and c.args and P.text(c.args[0]) == "R_rec" and kw(c, rec_p, 1) is not None and _is_true(P.X(kw(c, rec_p, 1))), within=loop)
    nec = P.necessary(body, tg) if tg else frozenset()
    ok = bool(tg) and nec - usable == want and P.must(body, tg, usable | want, fail=[nxt])
    chk(ok, f"fetch_children recurses into groups AND objects (exactly under {show_set(nec - usable)})", "Workspace", "fetch_children", "recursion does not cover groups and objects", fc0.where,
        "data of objects (or nested groups) are not loaded on open")
    marks = P.stmt_nodes(lambda s: isinstance(s, ast.Assign) and P.text(s.targets[0]) == "R_rec.on_file" and _is_true(P.X(s.value)), within=loop)
    ok = bool(marks) and P.necessary(body, marks) <= usable and P.must(body, marks, usable, fail=[nxt])
    chk(ok, "fetch_children marks recovered entities on_file", "Workspace", "fetch_children", "recovered entities are not marked on_file", fc0.where,
        "setters on re-opened entities skip persistence (on_file False)")

    le0, le = anchor(ws, "load_entity")
    # roles in load_entity: R_attrs = what fetch_attributes returned (also unpacked into three locals), R_ent = what create_entity returned
    roles = {nm: "R_attrs" for nm in bound_from(le.node, lambda e: "fetch_attributes" in unparse(e))}
    for a in ast.walk(le.node):
        if isinstance(a, ast.Assign) and isinstance(a.targets[0], ast.Tuple) and isinstance(a.value, ast.Name) and a.value.id in roles and all(isinstance(e, ast.Name) for e in a.targets[0].elts):
            roles.update({e.id: f"R_attrs[{i}]" for i, e in enumerate(a.targets[0].elts)})
    roles.update({nm: "R_ent" for nm in bound_from(le.node, lambda e: calls(e, "create_entity"))})
    # a NamedTuple / dataclass returned by the reader: its fields read by name are the elements by position
    fa = R.methods.get("fetch_attributes")
    rec = record_fields(p, fa) if fa is not None else None
    P = Paths(le.node, roles, records={"R_attrs": rec} if rec else None)
    creates = [c for c in ast.walk(le.node) if isinstance(c, ast.Call) and P.text(c.func) == "self.create_entity"]
    ok = any(kw(c, "save_on_creation", 1) is not None and _is_false(P.X(kw(c, "save_on_creation", 1))) and {"R_attrs[0]", "R_attrs[1]"} <= {P.text(u) for u in _unpacked(c)} for c in creates)
    chk(ok, "load_entity: create_entity(<kind>, save_on_creation=False, **entity attrs, **type attrs)", "Workspace", "load_entity", "entity not rebuilt from both attribute sets", le0.where,
        "loaded entities lose their attributes or their type")
    ok, nec = False, frozenset()
    made = P.call_nodes(lambda c: P.text(c.func) == "self.create_entity")
    for lp in _loops(le.node):
        src = P.loop_source(lp)[0]
        if not (isinstance(src, ast.Call) and isinstance(src.func, ast.Attribute) and attr_name(src) in ("values", "items") and unparse(src.func.value) == "R_attrs[2]"):
            continue
        var = lp.target if attr_name(src) == "values" else lp.target.elts[1] if isinstance(lp.target, ast.Tuple) and len(lp.target.elts) == 2 else None
        if not isinstance(var, ast.Name):
            continue
        tg = P.call_nodes(lambda c: P.text(c.func) == "R_ent.create_property_group" and kw(c, "on_file") is not None and _is_true(P.X(kw(c, "on_file")))
                          and [P.text(u) for u in _unpacked(c)] == [var.id], within=lp)
        if not tg or not made:
            continue
        head, nxt, body = P.loop_nodes(lp)
        some = P.conj("len(R_attrs[2]) > 0")
        want = P.conj("isinstance(R_ent, ObjectBase)")
        nec = P.necessary(P.after(made), tg)
        ok = nec - some == want and P.must(P.after(made), [head], want | some) and P.must(body, tg, want | some, fail=[nxt]) and P.runs_through(lp)
    chk(ok, f"load_entity re-creates every stored property group of an object (under {show_set(nec)})", "Workspace", "load_entity", "stored property groups are not re-created", le0.where,
        "property groups are lost on re-open")
    # the table entity type label -> base class: what the class argument of create_entity is looked up in
    etype_p = le0.params[2] if len(le0.params) > 2 else "entity_type"
    bc = next((P.X(c.args[0]).value for c in creates if c.args and isinstance(P.X(c.args[0]), ast.Subscript) and isinstance(P.X(c.args[0]).value, ast.Dict)
               and unparse(P.X(c.args[0]).slice) == etype_p), None)
    kinds = {k.value: unparse(v) for k, v in zip(bc.keys, bc.values) if isinstance(k, ast.Constant)} if bc is not None else {}

    rc0, rc = anchor(R, "fetch_children")
    ret_names = returned_names(rc.node)
    asg, kind_expr = _map_store(rc.node, ret_names)
    if asg is None:
        raise AnalysisError("H5Reader.fetch_children: children[...] assignment not found")
    P = Paths(rc.node)
    # the loop over the containers that exist under the entity: `for <container name>, <container> in <handle>.items()`
    loop = next((x for x in _loops(rc.node) if any(a is asg for a in ast.walk(x)) and _pairs_loop(P, x) is not None), None)
    ok, listed, ctype = False, None, None
    if loop is not None:
        ctype, vals, _ = _pairs_loop(P, loop)
        roles = {ctype: "R_type", **{v: "R_list" for v in vals}}
        listed = set()
        universe = ["Data", "Groups", "Objects", "Type", "PropertyGroups", "Concatenated Data"]
        for name in universe:
            Q = Paths(rc.node, roles, consts={"R_type": name})
            head, nxt, body = Q.loop_nodes(loop)
            st = Q.stmt_nodes(lambda s: s is asg)
            if Q.reaches(body, st, Q.conj("isinstance(R_list, h5py.Group)")):
                listed.add(name)
        ok = listed == {"Data", "Groups", "Objects"} and Paths(rc.node, roles).runs_through(loop)
        # a literal skip table, when there is one, names exactly the three non-child groups
        Q = Paths(rc.node, roles)
        for x in ast.walk(loop):
            if isinstance(x, ast.Compare) and len(x.ops) == 1 and isinstance(x.ops[0], (ast.In, ast.NotIn)) and Q.text(x.left) == "R_type":
                mem = Q._literal_members(Q.X(x.comparators[0]))
                if mem is not None:
                    ok = ok and set(mem) == {"Type", "PropertyGroups", "Concatenated Data"}
    chk(ok, f"H5Reader.fetch_children lists exactly the child containers {sorted(listed) if listed is not None else listed}", "H5Reader", "fetch_children", "child containers skipped changed", rc0.where,
        "a child container (Data / Groups / Objects) is no longer listed: those children vanish on re-open")
    P = Paths(rc.node)
    for cont, want in (("Data", "Data"), ("Groups", "Group"), ("Objects", "ObjectBase")):
        got = _fold_str(P.X(kind_expr), cont, ctype)
        ok = got in kinds and kinds.get(got) == want
        chk(ok, f"H5Reader.fetch_children maps container {cont!r} to kind {got!r} -> load_entity class {kinds.get(got)}", "H5Reader", "fetch_children",
            f"container {cont!r} maps to kind {got!r} ({kinds.get(got)})", rc0.where, f"children found under {cont} are loaded as the wrong kind or not at all")
    return res


def rule_unlink(ctx) -> RuleResult:
    res = RuleResult(
        "C01.UNLINK",
        "C01",
        "what is removed live is removed from the file: Workspace.remove_children unlinks every child of the list from the container of "
        "its own kind (property groups through add_or_update_property_group(remove=True)); H5Writer.remove_entity deletes the node of an "
        "entity whatever `parent` is, and also its link when a parent is given",
        floor=6,
    )
    p = ctx.p
    ws, W = p.cls("Workspace"), p.cls("H5Writer")

    def chk(ok, inst, cls, member, construct, where, msg):
        res.inst(inst, nontrivial=True, ok=ok)
        if not ok:
            res.find(cls, member, construct, where, msg)

    # --- Workspace.remove_children(parent, children)
    rc0 = ws.methods.get("remove_children")
    if rc0 is None or len(rc0.params) < 3:
        raise AnalysisError("anchor Workspace.remove_children(parent, children) not found")
    rc = view(ctx, rc0)
    par_p, list_p = rc0.params[1], rc0.params[2]
    P0 = Paths(rc.node)
    loops = [lp for lp in _loops(rc.node) if isinstance(lp.target, ast.Name) and P0.iter_text(lp) == list_p]
    if not loops:
        raise AnalysisError("Workspace.remove_children: loop over the children not found")
    unlinks, per_child, covered = 0, True, {}
    moved_first = _rebinds_before_unlink(ctx, p)
    kinds = {"Group": p.cls("Group"), "ObjectBase": p.cls("ObjectBase"), "Data": p.cls("Data", "data.data"), "PropertyGroup": p.cls("PropertyGroup")}
    child_vars = {lp.target.id for lp in loops}

    def io(P, c, what):
        """positional arguments of `self._io_call(H5Writer.<what>, ...)` — also when function and arguments are collected per branch
        and handed over as `_io_call(fun, *args, **kwargs)` (resolved on the code specialised for one kind) — else None"""
        if not (isinstance(c, ast.Call) and attr_name(c) in _io_names(p) and c.args and P.text(c.args[0]) == f"H5Writer.{what}"):
            return None
        args, kws = [], {}
        for x in c.args[1:]:
            v = P.X(x.value) if isinstance(x, ast.Starred) else None
            if isinstance(x, ast.Starred) and not isinstance(v, (ast.Tuple, ast.List)):
                return None
            args += list(v.elts) if v is not None else [x]
        for k in c.keywords:
            v = P.X(k.value) if k.arg is None else None
            if k.arg is not None:
                kws[k.arg] = k.value
            elif isinstance(v, ast.Dict) and all(isinstance(x, ast.Constant) for x in v.keys):
                kws.update({x.value: y for x, y in zip(v.keys, v.values)})
        return args, kws

    for kname, K in kinds.items():
        # the code that runs for a child of this kind (branches on the kind taken)
        node_k = specialise(rc.node, kinds={v: kind_of(p, K) for v in child_vars})
        P0k = Paths(node_k)
        for lp in [x for x in _loops(node_k) if isinstance(x.target, ast.Name) and P0k.iter_text(x) == list_p]:
            roles = {lp.target.id: "R_child", par_p: "R_parent"}
            Pk = Paths(node_k, roles, kinds={"R_child": kind_of(p, K)})
            head, nxt, body = Pk.loop_nodes(lp)
            if Pk.loop_source(lp)[1] is False:
                continue  # this loop does not see children of this kind

            def unlink(c, Pk=Pk):
                r = io(Pk, c, "remove_child")
                return r is not None and len(r[0]) > 2 and Pk.text(r[0][2]) == "R_parent"

            def drop_group(c, Pk=Pk):
                r = io(Pk, c, "add_or_update_property_group")
                return r is not None and r[0] and Pk.text(r[0][0]) == "R_child" and "remove" in r[1] and _is_true(Pk.X(r[1]["remove"]))

            if kname != "PropertyGroup":
                for n in Pk.call_nodes(unlink, within=lp):
                    for c_ in [c_ for e in Pk.exprs(n) for c_ in ast.walk(e) if isinstance(c_, ast.Call) and unlink(c_)]:
                        unlinks += 1
                        # provenance: the uid AND the container name both come from the child of this iteration
                        args = io(Pk, c_, "remove_child")[0]
                        kind_src = {x.id for x in ast.walk(Pk.X(args[1])) if isinstance(x, ast.Name)}
                        per_child = per_child and Pk.text(args[0]) == "R_child.uid" and "R_child" in kind_src
            tg = Pk.call_nodes(drop_group if kname == "PropertyGroup" else unlink, within=lp)
            # the obligation is about a child OF the given parent: a skip decided by "this child belongs to another parent" (a test
            # relating the child's own parent / the parent's own lists to the `parent` parameter) is not a missed unlink.
            # That test is only meaningful for a kind whose `parent` still names the holder when the request arrives: an entity that
            # is being moved has its parent re-bound before the previous holder is asked to drop it (Entity.parent setter), and the
            # holder has already taken it off its own lists.
            belongs = frozenset()
            if kname == "PropertyGroup" or not moved_first:
                belongs = Pk.conj("R_child.parent is R_parent and R_child.parent == R_parent and R_child.parent.uid == R_parent.uid "
                                  "and R_child in R_parent.children and R_child in R_parent.property_groups")
            covered[kname] = covered.get(kname, False) or bool(tg) and Pk.must(body, tg, belongs, fail=[nxt])
    chk(unlinks > 0 and per_child, "remove_children: remove_child(<child>.uid, <container of that child>, parent)", "Workspace", "remove_children",
        "the link container is not derived from the child being unlinked", rc0.where,
        "children of another kind than the one the container name was computed from stay linked under the parent in the file: they are back after re-opening")
    missing = sorted(k for k in kinds if not covered.get(k))
    chk(not missing, f"remove_children: every child of kind {sorted(kinds)} is unlinked on every path of the loop", "Workspace", "remove_children",
        f"children of kind {missing} are not unlinked on every path", rc0.where, "a detached child stays linked in the file and is back after re-opening")

    # --- <holder>.remove_children(children): everything the holder was asked to drop is handed to Workspace.remove_children
    n_fwd = 0
    for K in p.classes:
        fn0 = K.methods.get("remove_children")
        if fn0 is None or K is ws or len(fn0.params) < 2:
            continue
        fn = expand_generators(ctx, view(ctx, fn0))
        req = fn0.params[1]
        P = Paths(fn.node)
        for call in [x for x in ast.walk(fn.node) if isinstance(x, ast.Call) and attr_name(x) == "remove_children" and isinstance(x.func, ast.Attribute)
                     and P.text(x.func.value).endswith("workspace") and len(x.args) == 2 and P.text(x.args[0]) == "self"]:
            n_fwd += 1
            src, flt = _filtered(P, call.args[1])
            texts = _literal_texts(flt)
            own_list = lambda t: t.startswith("R_item in self.")  # noqa: E731
            by_parent = lambda t: "R_item.parent" in t or "R_item._parent" in t  # noqa: E731
            extra = sorted(t for t in texts if not (own_list(t) or t == "R_item is None" or by_parent(t) and not moved_first))
            ok = _is_request(src, req) and not extra
            chk(ok, f"{K.name}.remove_children forwards the requested children to the workspace (filter: {sorted(texts)})", K.name, "remove_children",
                "not every requested child is handed to Workspace.remove_children", fn0.where,
                f"children left out of the request to the file ({extra or unparse(src)}) keep their link under this parent: a child that is being moved (its parent is re-bound before "
                "the previous parent is asked to drop it) stays linked under the previous parent and is loaded there again")
    if n_fwd < 2:
        raise AnalysisError(f"holders forwarding to Workspace.remove_children: {n_fwd} found (EntityContainer / ObjectBase expected)")

    # --- H5Writer.remove_entity(file, uid, ref_type, parent=None)
    re0 = W.methods.get("remove_entity")
    if re0 is None or len(re0.params) < 4:
        raise AnalysisError("anchor H5Writer.remove_entity(file, uid, ref_type, parent) not found")
    rv = view(ctx, re0)
    uid_p, ref_p, par_p = re0.params[-3], re0.params[-2], re0.params[-1]
    for cont in ("Data", "Groups", "Objects"):
        # the code that runs for this container (branches on ref_type taken, one-entry tables / loops over them resolved)
        P = Paths(specialise(rv.node, {ref_p: cont}), {uid_p: "R_uid", par_p: "R_parent"}, consts={ref_p: cont})
        # the node of the entity: `del <flat container>[<uid string>]`, the container being indexed by ref_type
        dels = P.stmt_nodes(lambda s: isinstance(s, ast.Delete) and any(
            isinstance(t, ast.Subscript) and P.text(t.slice) == "as_str_if_uuid(R_uid)" and isinstance(P.X(t.value), ast.Subscript) and unparse(P.X(t.value).slice) == ref_p for t in s.targets))
        nec = P.necessary([P.g.entry], dels) if dels else frozenset([False])
        guard = frozenset(f for f in nec if isinstance(f, tuple) and f[0] == "lit" and f[2] and f[1].startswith("as_str_if_uuid(R_uid) in "))
        ok = bool(dels) and nec == guard and P.must([P.g.entry], dels, guard | _present(P, dels))
        chk(ok, f"H5Writer.remove_entity({cont}): the node is deleted whenever it exists (conditions: {show_set(nec)})", "H5Writer", "remove_entity",
            "the node of the entity is deleted only under an extra condition", re0.where,
            "a removed entity keeps its node in the flat container: its uid stays taken in the file, a later entity with that uid is not written and the deleted content is back after re-opening")
        links = P.call_nodes(lambda c: attr_name(c) == "remove_child" and len(c.args) > 3 and P.text(c.args[1]) == "R_uid" and P.text(c.args[3]) == "R_parent")
        ok = bool(links) and P.must([P.g.entry], links, P.conj("R_parent is not None") | guard | _present(P, dels))
        chk(ok, f"H5Writer.remove_entity({cont}): with a parent, the link under the parent is removed too", "H5Writer", "remove_entity",
            "the link under the given parent is not removed on every path", re0.where, "the removed entity stays listed under its parent in the file")
    return res


def _rebinds_before_unlink(ctx, p) -> bool:
    """Entity.parent setter: is `self._parent` re-bound on a path before the previous parent is asked to remove_children([self])?
    (then `child.parent` does not name the holder any more when the request to unlink arrives)"""
    E = p.cls("Entity")
    pr = E.props.get("parent")
    if pr is None or pr.setter is None:
        return False
    sv = view(ctx, pr.setter)
    P = Paths(sv.node)
    stores = P.stmt_nodes(lambda s: _self_store(s, "_parent"))
    drops = P.call_nodes(lambda c: attr_name(c) == "remove_children" and any(P.text(x) == "self" for a in c.args for x in ast.walk(a) if isinstance(x, ast.Name)))
    return bool(stores) and bool(drops) and P.reaches(P.after(stores), drops)


_IO_NAMES: dict = {}


def _io_names(p) -> set:
    """`_io_call` and the Workspace methods that only forward to it: `def _w(self, fun, *args, **kw): return self._io_call(fun, *args, ...)`."""
    if id(p) not in _IO_NAMES:
        names = {"_io_call"}
        for name, fn in p.cls("Workspace").methods.items():
            a = fn.node.args
            if a.vararg is None or len(fn.params) < 2:
                continue
            for x in ast.walk(fn.node):
                if isinstance(x, ast.Call) and attr_name(x) == "_io_call" and len(x.args) >= 2 and isinstance(x.args[0], ast.Name) and x.args[0].id == fn.params[1] \
                        and isinstance(x.args[1], ast.Starred) and unparse(x.args[1].value) == a.vararg.arg:
                    names.add(name)
        _IO_NAMES.clear()
        _IO_NAMES[id(p)] = names
    return _IO_NAMES[id(p)]


def _is_request(e, req) -> bool:
    """e is the `req` parameter as a list: req, list(req), [req] (a single item wrapped), or a conditional between such forms."""
    if isinstance(e, ast.Name):
        return e.id == req
    if isinstance(e, ast.Call) and isinstance(e.func, ast.Name) and e.func.id in ("list", "tuple") and len(e.args) == 1 and not e.keywords:
        return _is_request(e.args[0], req)
    if isinstance(e, (ast.List, ast.Tuple)) and len(e.elts) == 1:
        return _is_request(e.elts[0], req)
    if isinstance(e, ast.IfExp):
        return _is_request(e.body, req) and _is_request(e.orelse, req)
    return False


def _filtered(P, expr):
    """(source, filter formula over R_item) of a list expression: `xs`, `list(xs)`, `[c for c in xs if F(c)]` (through locals)."""
    e = P.X(expr)
    flt = True
    for _ in range(4):
        if isinstance(e, ast.Call) and isinstance(e.func, ast.Name) and e.func.id in ("list", "tuple") and len(e.args) == 1 and not e.keywords:
            e = e.args[0]
        elif isinstance(e, (ast.ListComp, ast.GeneratorExp)) and len(e.generators) == 1 and isinstance(e.generators[0].target, ast.Name) \
                and isinstance(e.elt, ast.Name) and e.elt.id == e.generators[0].target.id:
            g = e.generators[0]
            ren = Sym(None, roles={g.target.id: "R_item"}, defs={})
            flt = mk_and([flt] + [P.formula(ren.X(c)) for c in g.ifs])
            e = g.iter
        else:
            break
    return e, flt


def _present(P, dels) -> frozenset:
    """The membership tests `<uid string> in <container>` that guard the given deletions (assumed true: the node exists)."""
    out = set()
    for n in P.g.nodes:
        if n.kind == "test":
            for f in ast.walk(n.ast):
                if isinstance(f, ast.Compare) and len(f.ops) == 1 and isinstance(f.ops[0], (ast.In, ast.NotIn)) and P.text(f.left) == "as_str_if_uuid(R_uid)":
                    g = P.formula(f)
                    out |= conjuncts(g if isinstance(f.ops[0], ast.In) else neg(g))
    return frozenset(x for x in out if x is not False)


def rule_stale(ctx) -> RuleResult:
    res = RuleResult(
        "C01.STALE",
        "C01",
        "a node that already exists under the uid of an entity / type is adopted as it is only for an object that is already on file: "
        "for one that is not (a new object taking the uid of a removed one whose node was not swept yet) every normal path of "
        "H5Writer.write_entity / write_entity_type writes the object (creates its node or rewrites its attributes)",
        floor=6,
    )
    p = ctx.p
    W = p.cls("H5Writer")
    cases = (("write_entity", (("Data", "data.data"), ("ObjectBase", None), ("Group", None))),
             ("write_entity_type", (("DataType", "data.data_type"), ("ObjectType", None), ("GroupType", None))))
    for name, kinds in cases:
        fn0 = W.methods.get(name)
        if fn0 is None or len(fn0.params) < 3:
            raise AnalysisError(f"anchor H5Writer.{name}(file, entity, ...) not found")
        fn = expand_generators(ctx, view(ctx, fn0))
        bad = []
        for kname, hint in kinds:
            K = p.cls(kname, hint)
            P = Paths(fn.node, {fn0.params[2]: "R_x"}, kinds={"R_x": kind_of(p, K)})
            writes = P.call_nodes(lambda c: attr_name(c) == "create_group" and c.args and P.text(c.args[0]) in ("as_str_if_uuid(R_x.uid)", "str(R_x.uid)")
                                  or attr_name(c) == "write_attributes" and len(c.args) > 1 and P.text(c.args[1]) == "R_x")
            if not writes:
                raise AnalysisError(f"H5Writer.{name}: the creation of the node (create_group(<uid>)) not found")
            ok = P.must([P.g.entry], writes, P.conj("not R_x.on_file"))
            res.inst(f"H5Writer.{name}({kname} not on file): every normal path writes the object", nontrivial=True, ok=ok)
            if not ok:
                bad.append(kname)
        if bad:
            res.find("H5Writer", name, "an existing node is adopted for an object that is not on file", fn0.where,
                     f"a new {' / '.join(bad)} that takes the uid of a removed one (its node still in the file: detached or deleted, garbage collected, not swept yet) "
                     "is marked on_file without being written: the live object shows the new content, the re-opened file the removed one's")
    return res


def _literal_texts(f) -> set:
    if f is True or f is False:
        return set()
    if f[0] == "lit":
        return {f[1]}
    return set().union(*[_literal_texts(x) for x in f[1]]) if f[1] else set()


def rule_ident(ctx) -> RuleResult:
    res = RuleResult(
        "C01.IDENT",
        "C01",
        "registry and file are keyed by the identifier: the setter of the attribute stored as 'ID' re-binds the identifier field only on "
        "paths guarded by the current identifier / the stored state (a refusal for a registered object, the first assignment in the "
        "constructor), or hands the change to the workspace afterwards",
        floor=2,
    )
    p = ctx.p
    for cname in ("Entity", "PropertyGroup"):
        K = p.cls(cname)
        attr = (p.attribute_map(K) or {}).get("ID")
        m = K.lookup(attr) if isinstance(attr, str) else None
        if m is None or m[1] != "prop" or m[2].getter is None:
            raise AnalysisError(f"{cname}: the property stored as 'ID' not found")
        pr = m[2]
        if pr.setter is None:
            res.inst(f"{cname}.{attr}: read-only")
            continue
        # the identifier field = what the getter returns
        fields = {x.attr for r in ast.walk(pr.getter.node) if isinstance(r, ast.Return) and r.value is not None for x in ast.walk(r.value)
                  if isinstance(x, ast.Attribute) and isinstance(x.value, ast.Name) and x.value.id == "self"}
        sv = expand_generators(ctx, view(ctx, pr.setter))
        P = Paths(sv.node)
        stores = P.stmt_nodes(lambda s: any(_self_store(s, f) for f in fields))
        if not stores:
            res.inst(f"{cname}.{attr}: setter does not re-bind {sorted(fields)}")
            continue
        nec = P.necessary([P.g.entry], stores)
        texts = set().union(*[_literal_texts(f) for f in nec]) if nec else set()
        guarded = any(any(f"self.{fld}" in t for fld in fields) or "on_file" in t for t in texts)
        rekeyed = P.must(P.after(stores), P.call_nodes(lambda c: isinstance(c.func, ast.Attribute) and "workspace" in P.text(c.func.value) and any(P.text(a) == "self" for a in c.args)))
        ok = guarded or rekeyed
        res.inst(f"{cname}.{attr} setter: re-binding of {sorted(fields)} guarded by {sorted(texts)}", nontrivial=True, ok=ok)
        if not ok:
            res.find(cname, attr, "the identifier of a registered object can be re-assigned (no guard, no re-keying)", pr.setter.where,
                     f"{cname}.{attr} = <new> on a stored object only changes the attribute: the registry and the file stay keyed by the old identifier, later writes are "
                     "dropped or go to a second node, and the re-opened file shows the old object and the re-identified one")
    return res


RULES = [rule_schema, rule_fetchkey, rule_lazy, rule_pgw, rule_own, rule_flow, rule_unlink, rule_stale, rule_ident]
