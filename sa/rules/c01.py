"""C01 — re-opening yields the state built through the API (structural necessary conditions)."""

from __future__ import annotations

import ast

from ..cfg import CFG
from ..kinds import has_call, reach
from ..model import AnalysisError, unparse
from ..report import RuleResult
from ..tables import WriterTables
from .c06 import rule_own as _c06_own


def _init_params(K):
    """Parameter names a keyword can reach through K.__init__ and the super().__init__(**kwargs) chain;
    stops at a `**_` sink (discarded)."""
    out = set()
    mro = [c for c in K.mro if not isinstance(c, str)]
    for c in mro:
        fn = c.methods.get("__init__")
        if fn is None:
            continue
        a = fn.node.args
        out |= {x.arg for x in a.args[1:] + a.kwonlyargs}
        if a.kwarg is None or a.kwarg.arg == "_":
            break
        forwards = any(isinstance(n, ast.Call) and unparse(n.func) == "super().__init__" and any(k.arg is None and unparse(k.value) == a.kwarg.arg for k in n.keywords)
                       for n in ast.walk(fn.node))
        if not forwards:
            break
    return out


def rule_schema(ctx) -> RuleResult:
    res = RuleResult(
        "C01.SCHEMA",
        "C01",
        "every key the writer emits for a class (attribute map minus the writer's skip list, attribute readable) has somewhere "
        "to go on load: for entities a property with a setter (map_attributes swallows AttributeError), for types an "
        "__init__ parameter on the super().__init__(**kwargs) chain that is not discarded by `**_`",
        floor=800,
    )
    p = ctx.p
    t = WriterTables(p)
    ent, ety = p.cls("Entity"), p.cls("EntityType")
    n_cls = 0
    for K in p.classes:
        is_ent, is_typ = ent in K.mro, ety in K.mro
        if not (is_ent or is_typ):
            continue
        amap = p.attribute_map(K) or {}
        n_cls += 1
        params = _init_params(K) if is_typ else None
        for key, attr in amap.items():
            if not (isinstance(attr, str) and attr.isidentifier()):
                note = f"dead map entry {key!r}: {attr!r} is not an attribute name (never written, never read)"
                if note not in res.notes:
                    res.notes.append(note)
                continue
            if key in t.skip_keys:
                continue
            m = K.lookup(attr)
            if m is None:
                continue  # getattr raises AttributeError in write_attributes: not emitted for this class
            if m[1] == "prop" and m[2].getter is None:
                continue
            if is_ent:
                ok = (m[1] == "prop" and m[2].setter is not None) or m[1] == "assign"
                res.inst(f"{K.name}: {key!r} -> {attr} loadable via setter", ok=ok)
                if not ok:
                    res.find(m[0].name, attr, f"written as {key!r} but has no setter", (m[2].getter.where if m[1] == "prop" else K.where),
                             f"{K.name} writes {key!r} from the read-only property {attr}; on load map_attributes' setattr raises AttributeError, which is "
                             "swallowed: the stored value is lost on every re-open", resolved_on=K.name)
            else:
                ok = attr in params
                res.inst(f"{K.name}: {key!r} -> __init__({attr}=...)", ok=ok)
                if not ok:
                    res.find(K.name, attr, f"written as {key!r} but __init__ has no parameter {attr}", K.where,
                             f"type attributes are rebuilt by keyword; {attr!r} falls into a discarding **kwargs: the stored value is lost on re-open")
    if n_cls < 90:
        raise AnalysisError(f"C01.SCHEMA: only {n_cls} classes in the Entity / EntityType families")
    return res


def _fetch_calls(fn):
    """(kind, key) for lazy loads in a getter: fetch_array_attribute(self, key='cells'), fetch_metadata(uid, argument='Metadata'), fetch_values."""
    out = []
    for c in ast.walk(fn.node):
        if isinstance(c, ast.Call) and isinstance(c.func, ast.Attribute) and unparse(c.func.value).endswith("workspace"):
            if c.func.attr == "fetch_array_attribute":
                key = c.args[1].value if len(c.args) > 1 and isinstance(c.args[1], ast.Constant) else next((k.value.value for k in c.keywords if k.arg == "key"), "cells")
                out.append(("array", key, c))
            elif c.func.attr == "fetch_metadata":
                arg = next((k.value.value for k in c.keywords if k.arg == "argument" and isinstance(k.value, ast.Constant)), None)
                if arg is None and len(c.args) > 1 and isinstance(c.args[1], ast.Constant):
                    arg = c.args[1].value
                out.append(("json", arg or "Metadata", c))
            elif c.func.attr == "fetch_values":
                out.append(("values", "values", c))
    return out


def rule_fetchkey(ctx) -> RuleResult:
    res = RuleResult(
        "C01.FETCHKEY",
        "C01",
        "for every lazily loaded dataset attribute the key its getter fetches equals the route its setter persists (same "
        "KEY_MAP dataset), and the container the reader looks in covers every entity kind on which the setter is reachable",
        floor=15,
    )
    p = ctx.p
    t = WriterTables(p)
    ent = p.cls("Entity")
    seen = set()
    for K in p.subclasses(ent):
        for c in K.mro:
            if isinstance(c, str):
                continue
            for name, pr in c.props.items():
                if pr.getter is None or (pr.getter, ) in seen or K.lookup(name)[2] is not pr:
                    continue
                fc = _fetch_calls(pr.getter)
                if not fc:
                    continue
                if pr.getter in seen:
                    continue
                seen.add(pr.getter)
                st = K.lookup(name)[2].setter
                routes = set()
                if st is not None:
                    for n in ast.walk(st.node):
                        if isinstance(n, ast.Call) and isinstance(n.func, ast.Attribute) and n.func.attr == "update_attribute" and len(n.args) > 1 and isinstance(n.args[1], ast.Constant):
                            if unparse(n.args[0]) == "self":
                                routes.add(n.args[1].value)
                for kind, key, call in fc:
                    where = f"{pr.getter.module.relpath}:{call.lineno}"
                    if kind == "array":
                        ok = key in t.key_map and (not routes or key in routes or name in routes and key == name)
                        ok = ok and (key == name or key == "cells" and name == "cells")
                        res.inst(f"{c.name}.{name}: getter fetches {key!r}, setter persists {sorted(routes)}", nontrivial=True, ok=ok)
                        if not ok:
                            res.find(c.name, name, f"getter fetches {key!r}, setter persists {sorted(routes)}", where,
                                     f"after re-opening, {c.name}.{name} is loaded from the dataset of {key!r}, not from the one its setter writes")
                    elif kind == "json":
                        want = t.key_map.get(name)
                        ok = want is not None and key == want and (not routes or name in routes)
                        res.inst(f"{c.name}.{name}: getter fetches argument {key!r}; KEY_MAP[{name!r}] = {want!r}; setter persists {sorted(routes)}", nontrivial=True, ok=ok)
                        if not ok:
                            res.find(c.name, name, f"getter fetches {key!r}, writer stores under {want!r}", where,
                                     f"{c.name}.{name} is written to one dataset and read from another")
    # container agreement: Workspace.fetch_metadata / fetch_array_attribute vs the writer's fetch_handle hierarchy
    fm = p.func("Workspace.fetch_metadata")
    txt = unparse(fm.node)
    kinds = {k for k in ("Data", "Groups", "Objects") if f"'{k}'" in txt}
    via_table = "str_from_type" in txt
    # Entity.metadata is settable on every entity kind
    data_settable = p.cls("Data", "data.data").lookup("metadata")[2].setter is not None
    ok = via_table or not data_settable or "Data" in kinds
    res.inst(f"Workspace.fetch_metadata looks in {sorted(kinds) if not via_table else 'str_from_type(entity)'}; metadata is settable on Data: {data_settable}", nontrivial=True, ok=ok)
    if not ok:
        res.find("Workspace", "fetch_metadata", "metadata of data entities is read from Groups/Objects only", fm.where,
                 "Entity.metadata is assignable on Data; the writer stores it under Data/<uid>/Metadata, the reader looks under Objects: "
                 "metadata assigned to a data set is gone after re-opening")
    fa = p.func("Workspace.fetch_array_attribute")
    txt = unparse(fa.node)
    ok = "'Objects'" in txt and "'Groups'" in txt
    res.inst("Workspace.fetch_array_attribute chooses Objects / Groups by entity kind", ok=ok)
    if not ok:
        res.find("Workspace", "fetch_array_attribute", "container selection changed", fa.where, "array attributes are read from the wrong flat container")
    return res


LAZY_EXCEPTIONS = {
    ("Concatenator", "add_save_concatenated", "_concatenated_object_ids"):
        "every load path primes it first (fetch_children -> fetch_concatenated_objects reads the property)",
    ("ConcatenatedObject", "create_property_group", "_property_groups"):
        "Workspace.fetch_children reads entity.property_groups for every entity it recovers, so the field is primed on every load path "
        "(checked with repro/c01_lazy_property_groups_concatenated.py: the duplicate-name test also fires on a re-opened hole)",
}


def rule_lazy(ctx) -> RuleResult:
    res = RuleResult(
        "C01.LAZY",
        "C01",
        "no method other than the accessor pair reads the backing field of a lazily loaded attribute directly (it is None on a "
        "freshly opened entity until the getter ran), unless the read is followed by a None test with a fetch fallback",
        floor=15,
    )
    p = ctx.p
    ent = p.cls("Entity")
    done = set()
    for K in p.subclasses(ent):
        if K.synthetic:
            continue
        for c in K.mro:
            if isinstance(c, str) or c in done:
                continue
            done.add(c)
            lazy = {}
            for name, pr in c.props.items():
                g = pr.getter
                if g is None:
                    continue
                for i in ast.walk(g.node):
                    if isinstance(i, ast.If) and f"_{name}" in unparse(i.test) and "None" in unparse(i.test) and any(
                        isinstance(x, ast.Call) and isinstance(x.func, ast.Attribute) and x.func.attr.startswith("fetch_") for s in i.body for x in ast.walk(s)
                    ):
                        lazy["_" + name] = pr
            if not lazy:
                continue
            members = list(c.methods.values()) + [f for pr in c.props.values() for f in (pr.getter, pr.setter) if f is not None and f.cls is c]
            for fld, pr in lazy.items():
                res.inst(f"{c.name}.{pr.name}: lazily loaded into self.{fld}; direct readers are listed separately")
                for fn in members:
                    if fn in (pr.getter, pr.setter) or fn.name == "__init__":
                        continue
                    reads = [n for n in ast.walk(fn.node) if isinstance(n, ast.Attribute) and n.attr == fld and isinstance(n.ctx, ast.Load) and unparse(n.value) == "self"]
                    # `if self._x is None` tests and `self._x is not None` guards before a store are reads too, but a pure
                    # None-comparison is not a use of the value
                    uses = []
                    for r in reads:
                        parent_cmp = any(isinstance(x, ast.Compare) and r in (x.left, *x.comparators) and any(isinstance(o, (ast.Is, ast.IsNot)) for o in x.ops) for x in ast.walk(fn.node))
                        if not parent_cmp:
                            uses.append(r)
                    if not reads:
                        continue
                    key = (c.name, fn.prop or fn.name, fld)
                    if not uses:
                        res.inst(f"{fn.qualname}: only None-tests on self.{fld}")
                        continue
                    if key in LAZY_EXCEPTIONS:
                        res.inst(f"{fn.qualname} reads self.{fld} directly — accepted: {LAZY_EXCEPTIONS[key]}")
                        res.notes.append(f"{fn.qualname} reads self.{fld}: {LAZY_EXCEPTIONS[key]}")
                        continue
                    res.inst(f"{fn.qualname} reads self.{fld} behind the lazy getter", nontrivial=True, ok=False)
                    res.find(c.name, fn.prop or fn.name, "reads the backing field of a lazily loaded attribute directly", f"{fn.module.relpath}:{uses[0].lineno}",
                             f"on a re-opened entity self.{fld} is None until somebody touched .{pr.name}: {fn.qualname} gives a different answer "
                             "on the live entity and after re-opening")
    return res


def rule_pgw(ctx) -> RuleResult:
    res = RuleResult(
        "C01.PGW",
        "C01",
        "every setter of a mapped PropertyGroup attribute and both mutators of its property list reach, after their last "
        "store, add_or_update_property_group(self) (or the removal of the group) on all normal paths",
        floor=5,
    )
    p = ctx.p
    PG = p.cls("PropertyGroup")
    amap = p.attribute_map(PG) or {}
    mapped = {v for v in amap.values() if v not in ("uid",)}
    targets = []
    for name in sorted(mapped):
        pr = PG.props.get(name)
        if pr and pr.setter:
            targets.append((name, pr.setter, {"_" + name}))
    for m in ("add_properties", "remove_properties"):
        if m in PG.methods:
            targets.append((m, PG.methods[m], {"_properties"}))
    from .c03 import is_set_once

    for name, fn, fields in targets:
        if fn.kind == "setter" and is_set_once(fn, "_" + name):
            res.notes.append(f"PropertyGroup.{name}: set-once setter, not assignable on a stored group")
            res.inst(f"PropertyGroup.{name}: set-once setter (no obligation)")
            continue
        g = CFG(fn.node)

        def stores(n, fields=fields):
            if n.ast is None or isinstance(n.ast, list):
                return False
            for x in ast.walk(n.ast):
                if isinstance(x, ast.Attribute) and x.attr in fields and unparse(x.value) == "self" and isinstance(x.ctx, ast.Store):
                    return True
                if isinstance(x, ast.Call) and isinstance(x.func, ast.Attribute) and x.func.attr in ("remove", "append", "extend", "pop", "clear") and unparse(x.func.value) in {f"self.{f}" for f in fields}:
                    return True
            return False

        persist = lambda n: has_call(n, lambda c: isinstance(c.func, ast.Attribute) and c.func.attr in ("add_or_update_property_group", "remove_entity") and c.args and unparse(c.args[0]) == "self")  # noqa: E731
        s_nodes = [n for n in g.nodes if stores(n)]
        bad = [n for n in s_nodes if g.exit in reach(g, [m for m, _ in n.succ], avoid=persist) and not persist(n)]
        # the property list may be built in a local and assigned once: `properties = self._properties or []` ... `self._properties = properties`
        ok = not bad
        res.inst(f"PropertyGroup.{name}: {len(s_nodes)} store(s), persisted after the last one: {ok}", nontrivial=True, ok=ok)
        if bad:
            res.find("PropertyGroup", name, f"stores {sorted(fields)} without writing the group", f"{fn.module.relpath}:{bad[0].lineno}",
                     f"PropertyGroup.{name} changes the group in memory only: the file keeps the previous {name} (a renamed group comes back under its old name)")
    return res


def rule_own(ctx) -> RuleResult:
    return _c06_own(ctx, "C01.OWN", "C01")


RULES = [rule_schema, rule_fetchkey, rule_lazy, rule_pgw, rule_own]
