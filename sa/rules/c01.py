"""C01 — re-opening yields the state built through the API (structural necessary conditions)."""

from __future__ import annotations

import ast

from ..cfg import CFG
from ..kinds import has_call, reach
from ..model import AnalysisError, unparse
from ..report import RuleResult
from ..tables import WriterTables
from .c06 import rule_own as _c06_own


def _init_params(K):
    """Parameter names a keyword can reach through K.__init__ and the super().__init__(**kwargs) chain;
    stops at a `**_` sink (discarded)."""
    out = set()
    mro = [c for c in K.mro if not isinstance(c, str)]
    for c in mro:
        fn = c.methods.get("__init__")
        if fn is None:
            continue
        a = fn.node.args
        out |= {x.arg for x in a.args[1:] + a.kwonlyargs}
        if a.kwarg is None or a.kwarg.arg == "_":
            break
        forwards = any(isinstance(n, ast.Call) and unparse(n.func) == "super().__init__" and any(k.arg is None and unparse(k.value) == a.kwarg.arg for k in n.keywords)
                       for n in ast.walk(fn.node))
        if not forwards:
            break
    return out


def rule_schema(ctx) -> RuleResult:
    res = RuleResult(
        "C01.SCHEMA",
        "C01",
        "every key the writer emits for a class (attribute map minus the writer's skip list, attribute readable) has somewhere "
        "to go on load: for entities a property with a setter (map_attributes swallows AttributeError), for types an "
        "__init__ parameter on the super().__init__(**kwargs) chain that is not discarded by `**_`",
        floor=800,
    )
    p = ctx.p
    t = WriterTables(p)
    ent, ety = p.cls("Entity"), p.cls("EntityType")
    n_cls = 0
    for K in p.classes:
        is_ent, is_typ = ent in K.mro, ety in K.mro
        if not (is_ent or is_typ):
            continue
        amap = p.attribute_map(K) or {}
        n_cls += 1
        params = _init_params(K) if is_typ else None
        for key, attr in amap.items():
            if not (isinstance(attr, str) and attr.isidentifier()):
                note = f"dead map entry {key!r}: {attr!r} is not an attribute name (never written, never read)"
                if note not in res.notes:
                    res.notes.append(note)
                continue
            if key in t.skip_keys:
                continue
            m = K.lookup(attr)
            if m is None:
                continue  # getattr raises AttributeError in write_attributes: not emitted for this class
            if m[1] == "prop" and m[2].getter is None:
                continue
            if is_ent:
                ok = (m[1] == "prop" and m[2].setter is not None) or m[1] == "assign"
                res.inst(f"{K.name}: {key!r} -> {attr} loadable via setter", ok=ok)
                if not ok:
                    res.find(m[0].name, attr, f"written as {key!r} but has no setter", (m[2].getter.where if m[1] == "prop" else K.where),
                             f"{K.name} writes {key!r} from the read-only property {attr}; on load map_attributes' setattr raises AttributeError, which is "
                             "swallowed: the stored value is lost on every re-open", resolved_on=K.name)
            else:
                ok = attr in params
                res.inst(f"{K.name}: {key!r} -> __init__({attr}=...)", ok=ok)
                if not ok:
                    res.find(K.name, attr, f"written as {key!r} but __init__ has no parameter {attr}", K.where,
                             f"type attributes are rebuilt by keyword; {attr!r} falls into a discarding **kwargs: the stored value is lost on re-open")
    if n_cls < 90:
        raise AnalysisError(f"C01.SCHEMA: only {n_cls} classes in the Entity / EntityType families")
    return res


def _fetch_calls(fn):
    """(kind, key) for lazy loads in a getter: fetch_array_attribute(self, key='cells'), fetch_metadata(uid, argument='Metadata'), fetch_values."""
    out = []
    for c in ast.walk(fn.node):
        if isinstance(c, ast.Call) and isinstance(c.func, ast.Attribute) and unparse(c.func.value).endswith("workspace"):
            if c.func.attr == "fetch_array_attribute":
                key = c.args[1].value if len(c.args) > 1 and isinstance(c.args[1], ast.Constant) else next((k.value.value for k in c.keywords if k.arg == "key"), "cells")
                out.append(("array", key, c))
            elif c.func.attr == "fetch_metadata":
                arg = next((k.value.value for k in c.keywords if k.arg == "argument" and isinstance(k.value, ast.Constant)), None)
                if arg is None and len(c.args) > 1 and isinstance(c.args[1], ast.Constant):
                    arg = c.args[1].value
                out.append(("json", arg or "Metadata", c))
            elif c.func.attr == "fetch_values":
                out.append(("values", "values", c))
    return out


def rule_fetchkey(ctx) -> RuleResult:
    res = RuleResult(
        "C01.FETCHKEY",
        "C01",
        "for every lazily loaded dataset attribute the key its getter fetches equals the route its setter persists (same "
        "KEY_MAP dataset), and the container the reader looks in covers every entity kind on which the setter is reachable",
        floor=15,
    )
    p = ctx.p
    t = WriterTables(p)
    ent = p.cls("Entity")
    seen = set()
    for K in p.subclasses(ent):
        for c in K.mro:
            if isinstance(c, str):
                continue
            for name, pr in c.props.items():
                if pr.getter is None or (pr.getter, ) in seen or K.lookup(name)[2] is not pr:
                    continue
                fc = _fetch_calls(pr.getter)
                if not fc:
                    continue
                if pr.getter in seen:
                    continue
                seen.add(pr.getter)
                st = K.lookup(name)[2].setter
                routes = set()
                if st is not None:
                    for n in ast.walk(st.node):
                        if isinstance(n, ast.Call) and isinstance(n.func, ast.Attribute) and n.func.attr == "update_attribute" and len(n.args) > 1 and isinstance(n.args[1], ast.Constant):
                            if unparse(n.args[0]) == "self":
                                routes.add(n.args[1].value)
                for kind, key, call in fc:
                    where = f"{pr.getter.module.relpath}:{call.lineno}"
                    if kind == "array":
                        ok = key in t.key_map and (not routes or key in routes or name in routes and key == name)
                        ok = ok and (key == name or key == "cells" and name == "cells")
                        res.inst(f"{c.name}.{name}: getter fetches {key!r}, setter persists {sorted(routes)}", nontrivial=True, ok=ok)
                        if not ok:
                            res.find(c.name, name, f"getter fetches {key!r}, setter persists {sorted(routes)}", where,
                                     f"after re-opening, {c.name}.{name} is loaded from the dataset of {key!r}, not from the one its setter writes")
                    elif kind == "json":
                        want = t.key_map.get(name)
                        ok = want is not None and key == want and (not routes or name in routes)
                        res.inst(f"{c.name}.{name}: getter fetches argument {key!r}; KEY_MAP[{name!r}] = {want!r}; setter persists {sorted(routes)}", nontrivial=True, ok=ok)
                        if not ok:
                            res.find(c.name, name, f"getter fetches {key!r}, writer stores under {want!r}", where,
                                     f"{c.name}.{name} is written to one dataset and read from another")
    # container agreement: Workspace.fetch_metadata / fetch_array_attribute vs the writer's fetch_handle hierarchy
    fm = p.func("Workspace.fetch_metadata")
    txt = unparse(fm.node)
    kinds = {k for k in ("Data", "Groups", "Objects") if f"'{k}'" in txt}
    via_table = "str_from_type" in txt
    # Entity.metadata is settable on every entity kind
    data_settable = p.cls("Data", "data.data").lookup("metadata")[2].setter is not None
    ok = via_table or not data_settable or "Data" in kinds
    res.inst(f"Workspace.fetch_metadata looks in {sorted(kinds) if not via_table else 'str_from_type(entity)'}; metadata is settable on Data: {data_settable}", nontrivial=True, ok=ok)
    if not ok:
        res.find("Workspace", "fetch_metadata", "metadata of data entities is read from Groups/Objects only", fm.where,
                 "Entity.metadata is assignable on Data; the writer stores it under Data/<uid>/Metadata, the reader looks under Objects: "
                 "metadata assigned to a data set is gone after re-opening")
    fa = p.func("Workspace.fetch_array_attribute")
    txt = unparse(fa.node)
    ok = "'Objects'" in txt and "'Groups'" in txt
    res.inst("Workspace.fetch_array_attribute chooses Objects / Groups by entity kind", ok=ok)
    if not ok:
        res.find("Workspace", "fetch_array_attribute", "container selection changed", fa.where, "array attributes are read from the wrong flat container")
    return res


LAZY_EXCEPTIONS = {
    ("Concatenator", "add_save_concatenated", "_concatenated_object_ids"):
        "every load path primes it first (fetch_children -> fetch_concatenated_objects reads the property)",
    ("ConcatenatedObject", "create_property_group", "_property_groups"):
        "Workspace.fetch_children reads entity.property_groups for every entity it recovers, so the field is primed on every load path "
        "(checked with repro/c01_lazy_property_groups_concatenated.py: the duplicate-name test also fires on a re-opened hole)",
}


def rule_lazy(ctx) -> RuleResult:
    res = RuleResult(
        "C01.LAZY",
        "C01",
        "no method other than the accessor pair reads the backing field of a lazily loaded attribute directly (it is None on a "
        "freshly opened entity until the getter ran), unless the read is followed by a None test with a fetch fallback",
        floor=15,
    )
    p = ctx.p
    ent = p.cls("Entity")
    done = set()
    for K in p.subclasses(ent):
        if K.synthetic:
            continue
        for c in K.mro:
            if isinstance(c, str) or c in done:
                continue
            done.add(c)
            lazy = {}
            for name, pr in c.props.items():
                g = pr.getter
                if g is None:
                    continue
                for i in ast.walk(g.node):
                    if isinstance(i, ast.If) and f"_{name}" in unparse(i.test) and "None" in unparse(i.test) and any(
                        isinstance(x, ast.Call) and isinstance(x.func, ast.Attribute) and x.func.attr.startswith("fetch_") for s in i.body for x in ast.walk(s)
                    ):
                        lazy["_" + name] = pr
            if not lazy:
                continue
            members = list(c.methods.values()) + [f for pr in c.props.values() for f in (pr.getter, pr.setter) if f is not None and f.cls is c]
            for fld, pr in lazy.items():
                res.inst(f"{c.name}.{pr.name}: lazily loaded into self.{fld}; direct readers are listed separately")
                for fn in members:
                    if fn in (pr.getter, pr.setter) or fn.name == "__init__":
                        continue
                    reads = [n for n in ast.walk(fn.node) if isinstance(n, ast.Attribute) and n.attr == fld and isinstance(n.ctx, ast.Load) and unparse(n.value) == "self"]
                    # `if self._x is None` tests and `self._x is not None` guards before a store are reads too, but a pure
                    # None-comparison is not a use of the value
                    uses = []
                    for r in reads:
                        parent_cmp = any(isinstance(x, ast.Compare) and r in (x.left, *x.comparators) and any(isinstance(o, (ast.Is, ast.IsNot)) for o in x.ops) for x in ast.walk(fn.node))
                        if not parent_cmp:
                            uses.append(r)
                    if not reads:
                        continue
                    key = (c.name, fn.prop or fn.name, fld)
                    if not uses:
                        res.inst(f"{fn.qualname}: only None-tests on self.{fld}")
                        continue
                    if key in LAZY_EXCEPTIONS:
                        res.inst(f"{fn.qualname} reads self.{fld} directly — accepted: {LAZY_EXCEPTIONS[key]}")
                        res.notes.append(f"{fn.qualname} reads self.{fld}: {LAZY_EXCEPTIONS[key]}")
                        continue
                    res.inst(f"{fn.qualname} reads self.{fld} behind the lazy getter", nontrivial=True, ok=False)
                    res.find(c.name, fn.prop or fn.name, "reads the backing field of a lazily loaded attribute directly", f"{fn.module.relpath}:{uses[0].lineno}",
                             f"on a re-opened entity self.{fld} is None until somebody touched .{pr.name}: {fn.qualname} gives a different answer "
                             "on the live entity and after re-opening")
    return res


def rule_pgw(ctx) -> RuleResult:
    res = RuleResult(
        "C01.PGW",
        "C01",
        "every setter of a mapped PropertyGroup attribute and both mutators of its property list reach, after their last "
        "store, add_or_update_property_group(self) (or the removal of the group) on all normal paths",
        floor=5,
    )
    p = ctx.p
    PG = p.cls("PropertyGroup")
    amap = p.attribute_map(PG) or {}
    mapped = {v for v in amap.values() if v not in ("uid",)}
    targets = []
    for name in sorted(mapped):
        pr = PG.props.get(name)
        if pr and pr.setter:
            targets.append((name, pr.setter, {"_" + name}))
    for m in ("add_properties", "remove_properties"):
        if m in PG.methods:
            targets.append((m, PG.methods[m], {"_properties"}))
    from .c03 import is_set_once

    for name, fn, fields in targets:
        if fn.kind == "setter" and is_set_once(fn, "_" + name):
            res.notes.append(f"PropertyGroup.{name}: set-once setter, not assignable on a stored group")
            res.inst(f"PropertyGroup.{name}: set-once setter (no obligation)")
            continue
        g = CFG(fn.node)

        def stores(n, fields=fields):
            if n.ast is None or isinstance(n.ast, list):
                return False
            for x in ast.walk(n.ast):
                if isinstance(x, ast.Attribute) and x.attr in fields and unparse(x.value) == "self" and isinstance(x.ctx, ast.Store):
                    return True
                if isinstance(x, ast.Call) and isinstance(x.func, ast.Attribute) and x.func.attr in ("remove", "append", "extend", "pop", "clear") and unparse(x.func.value) in {f"self.{f}" for f in fields}:
                    return True
            return False

        persist = lambda n: has_call(n, lambda c: isinstance(c.func, ast.Attribute) and c.func.attr in ("add_or_update_property_group", "remove_entity") and c.args and unparse(c.args[0]) == "self")  # noqa: E731
        s_nodes = [n for n in g.nodes if stores(n)]
        bad = [n for n in s_nodes if g.exit in reach(g, [m for m, _ in n.succ], avoid=persist) and not persist(n)]
        # the property list may be built in a local and assigned once: `properties = self._properties or []` ... `self._properties = properties`
        ok = not bad
        res.inst(f"PropertyGroup.{name}: {len(s_nodes)} store(s), persisted after the last one: {ok}", nontrivial=True, ok=ok)
        if bad:
            res.find("PropertyGroup", name, f"stores {sorted(fields)} without writing the group", f"{fn.module.relpath}:{bad[0].lineno}",
                     f"PropertyGroup.{name} changes the group in memory only: the file keeps the previous {name} (a renamed group comes back under its old name)")
    return res


def rule_own(ctx) -> RuleResult:
    return _c06_own(ctx, "C01.OWN", "C01")


RULES = [rule_schema, rule_fetchkey, rule_lazy, rule_pgw, rule_own]


def _must_call(fn, pred, starts=None, var=None, facts=None):
    """Every normal path of fn (from `starts` or the entry) passes a node satisfying pred."""
    g = CFG(fn.node)
    st = starts(g) if starts else [g.entry]
    return g.exit not in reach(g, st, var, facts or {}, avoid=lambda n: has_call(n, pred)), g


def _fold_str(expr, value):
    """Evaluate a chain of str methods (replace / lower / capitalize / upper) applied to a name, for a constant value."""
    if isinstance(expr, ast.Name):
        return value
    if isinstance(expr, ast.Call) and isinstance(expr.func, ast.Attribute):
        base = _fold_str(expr.func.value, value)
        if base is None:
            return None
        args = [a.value for a in expr.args if isinstance(a, ast.Constant)]
        if len(args) != len(expr.args):
            return None
        if expr.func.attr in ("replace", "lower", "upper", "capitalize", "strip"):
            return getattr(base, expr.func.attr)(*args)
    return None


def rule_flow(ctx) -> RuleResult:
    res = RuleResult(
        "C01.FLOW",
        "C01",
        "the save and load paths pass through every stage: creation saves the entity with its children and links it to its "
        "parent; write_properties writes the attributes and every KEY_MAP dataset that is set; close() re-saves the root "
        "subtree; open() rebuilds the whole tree from Root (recursively, groups and objects, with property groups), and the "
        "reader lists every child container and maps its name to a loadable kind",
        floor=14,
    )
    p = ctx.p
    ws = p.cls("Workspace")
    W = p.cls("H5Writer")
    R = p.cls("H5Reader")

    def chk(ok, inst, cls, member, construct, where, msg, nontrivial=True):
        res.inst(inst, nontrivial=nontrivial, ok=ok)
        if not ok:
            res.find(cls, member, construct, where, msg)

    # --- save side
    ce = ws.methods["create_entity"]
    from ..roles import canon, returned_names
    # roles: the created entity = the local the function returns; the save switch = its `save_on_creation` parameter
    created = {nm: "CREATED" for nm in returned_names(ce.node)}
    saves = [i for i in ast.walk(ce.node) if isinstance(i, ast.If) and "save_on_creation" in unparse(i.test)]
    ok = bool(saves) and all(any("self.save_entity(CREATED" in canon(s, created) for s in i.body) for i in saves)
    conj = {canon(v, created) for v in saves[0].test.values} if saves and isinstance(saves[0].test, ast.BoolOp) else set()
    ok = ok and conj == {"CREATED is not None", "save_on_creation", "self.h5file is not None"}
    chk(ok, f"create_entity saves the created entity under {sorted(conj)}", "Workspace", "create_entity", "creation does not save the entity (or only conditionally)", ce.where,
        "a created entity is not written to the file at creation: it exists in memory only until something else saves it")
    se = ws.methods["save_entity"]
    ok = any(isinstance(c, ast.Call) and unparse(c.func) == "self._io_call" and c.args and unparse(c.args[0]) == "H5Writer.save_entity" and unparse(c.args[1]) == se.params[1]
             and any(k.arg == "add_children" and unparse(k.value) == se.params[2] for k in c.keywords) for c in ast.walk(se.node))
    chk(ok, "Workspace.save_entity forwards (entity, add_children) to H5Writer.save_entity", "Workspace", "save_entity", "does not forward to H5Writer.save_entity", se.where,
        "saving an entity does not reach the writer")
    hs = W.methods["save_entity"]
    hent = hs.params[2]
    ok1, _ = _must_call(hs, lambda c: unparse(c.func).endswith("write_entity") and len(c.args) > 1 and unparse(c.args[1]) == hent)
    ok2, _ = _must_call(hs, lambda c: unparse(c.func).endswith("write_to_parent") and len(c.args) > 1 and unparse(c.args[1]) == hent)
    chk(ok1 and ok2, "H5Writer.save_entity: write_entity(entity) and write_to_parent(entity) on every path", "H5Writer", "save_entity", "a path skips write_entity / write_to_parent", hs.where,
        "a saved entity is not stored or not linked under its parent")
    loops = [lp for lp in ast.walk(hs.node) if isinstance(lp, ast.For) and unparse(lp.iter) == f"{hent}.children"]
    ok = bool(loops) and any(isinstance(c, ast.Call) and unparse(c.func).endswith("save_entity") and len(c.args) > 1 and unparse(c.args[1]) == unparse(lp.target)
                             for lp in loops for c in ast.walk(lp))
    guard = next((i for i in ast.walk(hs.node) if isinstance(i, ast.If) and loops and any(lp in i.body for lp in loops)), None)
    gconj = {unparse(v) for v in guard.test.values} if guard is not None and isinstance(guard.test, ast.BoolOp) else set()
    ok = ok and gconj == {hs.params[4] if len(hs.params) > 4 else "add_children", f"not isinstance({hent}, Concatenator)", f"hasattr({hent}, 'children')"}
    inner = [unparse(i.test) for lp in loops for i in lp.body if isinstance(i, ast.If)]
    ok = ok and inner == [f"not isinstance({unparse(loops[0].target)}, PropertyGroup)"] if loops else False
    chk(ok, f"H5Writer.save_entity saves every non-property-group child under {sorted(gconj)}", "H5Writer", "save_entity", "children are not all saved", hs.where,
        "children of a saved entity (close() saves the root with add_children) are skipped: they never reach the file")
    wp = W.methods["write_properties"]
    ok = any(isinstance(c, ast.Call) and unparse(c.func).endswith("update_field") and len(c.args) > 2 and unparse(c.args[2]) == "'attributes'" for c in ast.walk(wp.node))
    lp = next((x for x in ast.walk(wp.node) if isinstance(x, ast.For) and unparse(x.iter) == "KEY_MAP"), None)
    ok = ok and lp is not None and any(isinstance(i, ast.If) and unparse(i.test) == f"getattr(entity, {unparse(lp.target)}, None) is not None"
                                       and any("update_field" in unparse(s) and unparse(lp.target) in unparse(s) for s in i.body) for i in lp.body)
    chk(ok, "write_properties: 'attributes' then every KEY_MAP attribute that is not None", "H5Writer", "write_properties", "not every set attribute is written at creation", wp.where,
        "a new entity is stored without some of its datasets / attributes")
    cl = ws.methods["close"]
    ok = any(isinstance(c, ast.Call) and unparse(c.func) == "self._io_call" and c.args and unparse(c.args[0]) == "H5Writer.save_entity" and unparse(c.args[1]) == "self.root"
             and any(k.arg == "add_children" and unparse(k.value) == "True" for k in c.keywords) for c in ast.walk(cl.node))
    chk(ok, "close(): _io_call(H5Writer.save_entity, self.root, add_children=True)", "Workspace", "close", "final save of the root subtree changed", cl.where,
        "entities created with save_on_creation=False or moved under a new parent are not written at close")
    reg = ws.methods["register"]
    pgb = next((i for i in ast.walk(reg.node) if isinstance(i, ast.If) and unparse(i.test) == f"isinstance({reg.params[1]}, PropertyGroup)"), None)
    ok = False
    if pgb is not None:
        for i in [x for x in pgb.body if isinstance(x, ast.If)]:
            if any("add_or_update_property_group" in unparse(s_) for s_ in i.body):
                ok = unparse(i.test) == f"not {reg.params[1]}.on_file"
    chk(ok, "register: a property group that is not on file is written (condition exactly `not entity.on_file`)", "Workspace", "register",
        "a new property group is written only under an extra condition", reg.where,
        "register is the only place a new property group reaches the file: some groups (e.g. still empty ones) exist live and are gone after re-opening")
    # --- load side
    init = ws.methods["__init__"]
    last = init.node.body[-1]
    ok = isinstance(last, ast.Expr) and unparse(last.value) == "self.open()"
    chk(ok, "Workspace.__init__ ends with self.open()", "Workspace", "__init__", "constructor does not open the file", init.where, "a new Workspace object shows an empty tree", False)
    op = ws.methods["open"]
    ok, g = _must_call(op, lambda c: unparse(c.func) == "self.fetch_or_create_root",
                       starts=lambda g: [m for n in g.nodes if n.kind == "test" and "already" not in unparse(n.ast) and "isinstance(self._geoh5, h5py.File)" in unparse(n.ast) for m, l in n.succ if l == "false"] or [g.entry])
    chk(ok, "open(): every path that opens the file calls fetch_or_create_root()", "Workspace", "open", "a path opens the file without loading the tree", op.where,
        "after re-opening, the workspace lists no entities")
    fr = ws.methods["fetch_or_create_root"]
    ok = any(isinstance(c, ast.Call) and unparse(c.func) == "self.fetch_children" and unparse(c.args[0]) == "self._root" and any(k.arg == "recursively" and unparse(k.value) == "True" for k in c.keywords)
             for c in ast.walk(fr.node))
    chk(ok, "fetch_or_create_root: fetch_children(self._root, recursively=True)", "Workspace", "fetch_or_create_root", "the tree is not loaded recursively from Root", fr.where,
        "only the first level (or nothing) is loaded on open")
    fc = ws.methods["fetch_children"]
    ent_p, rec_p = fc.params[1], fc.params[2]
    loop = next((x for x in ast.walk(fc.node) if isinstance(x, ast.For) and isinstance(x.target, ast.Tuple) and isinstance(x.iter, ast.Call)
                 and isinstance(x.iter.func, ast.Attribute) and x.iter.func.attr == "items" and any("load_entity" in unparse(s_) for s_ in x.body)), None)
    if loop is None:
        raise AnalysisError("Workspace.fetch_children: loop over the listed children not found")
    uid_v, type_v = [unparse(e) for e in loop.target.elts]
    loads = [c for c in ast.walk(loop) if isinstance(c, ast.Call) and unparse(c.func) == "self.load_entity"]
    ok = bool(loads) and all([unparse(a) for a in c.args[:2]] == [uid_v, type_v] and any(k.arg == "parent" and unparse(k.value) == ent_p for k in c.keywords) for c in loads)
    chk(ok, "fetch_children: load_entity(<uid>, <child type>, parent=<entity>) for every listed child", "Workspace", "fetch_children", "children are not loaded with their parent", fc.where,
        "children listed in the file are not re-created under their parent")
    rec_var = None
    for a in ast.walk(loop):
        if isinstance(a, ast.Assign) and any(c in list(ast.walk(a.value)) for c in loads) and isinstance(a.targets[0], ast.Name):
            rec_var = a.targets[0].id
    rec = [i for i in ast.walk(loop) if isinstance(i, ast.If) and any(isinstance(n, ast.Name) and n.id == rec_p for n in ast.walk(i.test))]
    ok = False
    if rec and rec_var:
        t = rec[0].test
        conj = {unparse(v) for v in t.values} if isinstance(t, ast.BoolOp) and isinstance(t.op, ast.And) else {unparse(t)}
        ok = conj == {rec_p, f"isinstance({rec_var}, (Group, ObjectBase))"} or conj == {rec_p, f"isinstance({rec_var}, (ObjectBase, Group))"}
        ok = ok and any(isinstance(c, ast.Call) and unparse(c.func) == "self.fetch_children" and c.args and unparse(c.args[0]) == rec_var
                        and any(k.arg == rec_p and unparse(k.value) == "True" for k in c.keywords) for s_ in rec[0].body for c in ast.walk(s_))
    chk(ok, "fetch_children recurses into groups AND objects", "Workspace", "fetch_children", "recursion does not cover groups and objects", fc.where,
        "data of objects (or nested groups) are not loaded on open")
    ok = rec_var is not None and any(isinstance(a, ast.Assign) and unparse(a.targets[0]) == f"{rec_var}.on_file" and unparse(a.value) == "True" for a in ast.walk(loop))
    chk(ok, "fetch_children marks recovered entities on_file", "Workspace", "fetch_children", "recovered entities are not marked on_file", fc.where,
        "setters on re-opened entities skip persistence (on_file False)")
    le = ws.methods["load_entity"]
    from ..roles import bound_from, calls
    # roles in load_entity: ATTRS = what fetch_attributes returned, ENT = what create_entity returned
    lmap = {nm: "ATTRS" for nm in bound_from(le.node, lambda e: "fetch_attributes" in unparse(e))}
    lmap.update({nm: "ENT" for nm in bound_from(le.node, lambda e: calls(e, "create_entity"))})
    ok = any(isinstance(c, ast.Call) and unparse(c.func) == "self.create_entity" and any(k.arg == "save_on_creation" and unparse(k.value) == "False" for k in c.keywords)
             and any(k.arg is None and "ATTRS[0]" in canon(k.value, lmap) and "ATTRS[1]" in canon(k.value, lmap) for k in c.keywords) for c in ast.walk(le.node))
    chk(ok, "load_entity: create_entity(<kind>, save_on_creation=False, **entity attrs, **type attrs)", "Workspace", "load_entity", "entity not rebuilt from both attribute sets", le.where,
        "loaded entities lose their attributes or their type")
    pg = [i for i in ast.walk(le.node) if isinstance(i, ast.If) and "ATTRS[2]" in canon(i.test, lmap)]
    ok = False
    if pg:
        loops = [lp for lp in ast.walk(pg[0]) if isinstance(lp, ast.For) and "ATTRS[2]" in canon(lp.iter, lmap) and isinstance(lp.target, ast.Name)]
        ok = "isinstance(ENT, ObjectBase)" in canon(pg[0].test, lmap) and any(
            f"ENT.create_property_group(on_file=True, **{lp.target.id})" in canon(lp, lmap) for lp in loops)
    chk(ok, "load_entity re-creates every stored property group", "Workspace", "load_entity", "stored property groups are not re-created", le.where,
        "property groups are lost on re-open")
    bc = next((d for d in ast.walk(le.node) if isinstance(d, ast.Dict) and all(isinstance(k, ast.Constant) for k in d.keys) and len(d.keys) >= 3), None)
    kinds = {k.value: unparse(v) for k, v in zip(bc.keys, bc.values)} if bc else {}
    rc = R.methods["fetch_children"]
    skip = next((x for x in ast.walk(rc.node) if isinstance(x, ast.Compare) and isinstance(x.ops[0], ast.In) and isinstance(x.comparators[0], ast.List)), None)
    skipped = {e.value for e in skip.comparators[0].elts} if skip is not None else None
    ok = skipped == {"Type", "PropertyGroups", "Concatenated Data"}
    chk(ok, f"H5Reader.fetch_children skips exactly {sorted(skipped) if skipped else skipped}", "H5Reader", "fetch_children", "child containers skipped changed", rc.where,
        "a child container (Data / Groups / Objects) is no longer listed: those children vanish on re-open")
    from ..roles import returned_names
    ret_names = returned_names(rc.node)
    asg = next((a for a in ast.walk(rc.node) if isinstance(a, ast.Assign) and isinstance(a.targets[0], ast.Subscript) and unparse(a.targets[0].value) in ret_names), None)
    if asg is None:
        raise AnalysisError("H5Reader.fetch_children: children[...] assignment not found")
    for cont, want in (("Data", "Data"), ("Groups", "Group"), ("Objects", "ObjectBase")):
        got = _fold_str(asg.value, cont)
        ok = got in kinds and kinds.get(got) == want
        chk(ok, f"H5Reader.fetch_children maps container {cont!r} to kind {got!r} -> load_entity class {kinds.get(got)}", "H5Reader", "fetch_children",
            f"container {cont!r} maps to kind {got!r} ({kinds.get(got)})", rc.where, f"children found under {cont} are loaded as the wrong kind or not at all")
    return res


RULES = [rule_schema, rule_fetchkey, rule_lazy, rule_pgw, rule_own, rule_flow]
