"""C02 — every written file is structurally valid (format-document agreement, hard links, re-parenting, property-group members)."""

from __future__ import annotations

import ast
import uuid as _uuid

from ..cfg import CFG, dominators
from ..kinds import has_call, reach
from ..model import AnalysisError, chain, unparse
from ..report import RuleResult
from ..roles import canon, writer_roles
from ..textile import FormatDoc

# documented type section -> implementing class (irregular names only; the rest is matched by normalised name)
DOC_ALIASES = {"Container": "ContainerGroup", "Drillholes group": "DrillholeGroup", "2D grid type": "Grid2D", "Geoimage type": "GeoImage", "Block model type": "BlockModel"}
NOT_IMPLEMENTED = {"Label": "its own docstring says 'Not yet implemented' (target / label position are placeholders)"}


def type_uid_of(K):
    a = K.class_assigns.get("__TYPE_UID")
    if not a:
        return None
    v = a[0]
    if isinstance(v, ast.Call) and unparse(v.func) in ("uuid.UUID", "UUID"):
        try:
            args = [ast.literal_eval(x) for x in v.args]
            kw = {k.arg: ast.literal_eval(k.value) for k in v.keywords}
            return str(_uuid.UUID(*args, **kw))
        except Exception:
            return None
    return None


def rule_spec(ctx) -> RuleResult:
    res = RuleResult(
        "C02.SPEC",
        "C02",
        "the skeleton H5Writer.init_geoh5 creates equals the hierarchy of the format document; the default_type_uid of every "
        "documented type equals the documented UUID; every attribute / dataset the document lists for groups, objects, data, "
        "their types, block models, 2-D grids and drillholes is a key of the class' attribute map or of KEY_MAP",
        floor=60,
    )
    p = ctx.p
    doc = FormatDoc(p.repo, p.overlay)
    W = p.cls("H5Writer")
    ig = W.methods.get("init_geoh5")
    if ig is None:
        raise AnalysisError("anchor H5Writer.init_geoh5 not found")
    created: dict[str, list] = {}
    for c in ast.walk(ig.node):
        if isinstance(c, ast.Call) and isinstance(c.func, ast.Attribute) and c.func.attr == "create_group" and c.args and isinstance(c.args[0], ast.Constant):
            created.setdefault(unparse(c.func.value), []).append(c.args[0].value)
    proj_var = next((unparse(a.targets[0]) for a in ast.walk(ig.node) if isinstance(a, ast.Assign) and "create_group(workspace.name)" in unparse(a.value)), None)
    if proj_var is None:
        raise AnalysisError("H5Writer.init_geoh5: project group creation not recognised")
    want = set(doc.skeleton()) - {"Root"}
    got = set(created.get(proj_var, []))
    ok = got == want
    res.inst(f"init_geoh5 creates {sorted(got)} under the project group; document: {sorted(want)}", ok=ok)
    if not ok:
        res.find("H5Writer", "init_geoh5", f"skeleton {sorted(got)} differs from the documented {sorted(want)}", ig.where,
                 "a new file lacks (or has an extra) mandatory flat container")
    types_var = next((unparse(a.targets[0]) for a in ast.walk(ig.node) if isinstance(a, ast.Assign) and 'create_group("Types")' in unparse(a.value).replace("'", '"')), None)
    got_t = set(created.get(types_var, []))
    want_t = set(doc.type_containers())
    ok = got_t == want_t
    res.inst(f"init_geoh5 creates {sorted(got_t)} under Types; document: {sorted(want_t)}", ok=ok)
    if not ok:
        res.find("H5Writer", "init_geoh5", f"type containers {sorted(got_t)} differ from the documented {sorted(want_t)}", ig.where, "types cannot be filed by kind")
    we = W.methods["write_entity"]
    root_links = [a for a in ast.walk(we.node) if isinstance(a, ast.Assign) and isinstance(a.targets[0], ast.Subscript) and unparse(a.targets[0].slice) == "'Root'"]
    we_roles = writer_roles(we.node)
    ok = bool(root_links) and all(canon(a.value, we_roles) == "entity_handle" for a in root_links)
    res.inst("write_entity: project['Root'] = entity_handle (hard link to the root group's node)", ok=ok)
    if not ok:
        res.find("H5Writer", "write_entity", "Root link missing or not the root group's node", we.where, "the mandatory Root link is absent or points elsewhere")
    # the Root link may only ever designate the workspace's own root group
    for a in root_links:
        chain_ = [i for i in ast.walk(we.node) if isinstance(i, ast.If) and any(x is a for s_ in i.body for x in ast.walk(s_))]
        gtxt = " and ".join(unparse(i.test) for i in chain_)
        ok = "workspace.root" in gtxt or "is_root" in gtxt
        res.inst(f"write_entity: Root link assigned under `{gtxt[:80]}`", nontrivial=True, ok=ok)
        if not ok:
            res.find("H5Writer", "write_entity", "Root link re-pointed for ANY RootGroup instance", f"{we.module.relpath}:{a.lineno}",
                     "writing a second RootGroup (e.g. the copy of another workspace's root) re-points the file's Root link at it: the original "
                     "root and everything under it become unreachable from Root")
    # type uids
    uids = doc.type_uids()
    by_uid = {}
    for K in p.classes:
        if K.synthetic:
            continue
        u = type_uid_of(K)
        if u:
            by_uid.setdefault(u, []).append(K)
    for title, u in uids.items():
        cname = DOC_ALIASES.get(title, title.replace(" type", "").replace(" ", "").capitalize() if " " in title.replace(" type", "") else title.replace(" type", ""))
        cands = [K for K in p.by_name.get(cname, []) if not K.synthetic]
        if not cands:
            cands = [K for K in p.classes if K.name.lower() == cname.lower() and not K.synthetic]
        if len(cands) != 1:
            raise AnalysisError(f"format document type {title!r}: implementing class {cname!r} not found")
        K = cands[0]
        mine = type_uid_of(K)
        ok = mine == u
        res.inst(f"{K.name}.default_type_uid {mine} == documented {u}", ok=ok)
        if not ok:
            res.find(K.name, "default_type_uid", f"type uid {mine} differs from the documented {u}", K.where,
                     f"objects of class {K.name} are written with a type Geoscience ANALYST does not recognise as {title!r}")
        du = K.lookup("default_type_uid")
        if du and du[1] == "method":
            rets = [r for r in ast.walk(du[2].node) if isinstance(r, ast.Return)]
            ok = len(rets) == 1 and unparse(rets[0].value) in ("cls.__TYPE_UID", f"cls._{du[0].name}__TYPE_UID")
            res.inst(f"{K.name}.default_type_uid returns the class constant", ok=ok)
            if not ok:
                res.find(du[0].name, "default_type_uid", f"returns {unparse(rets[0].value) if rets else None}", du[2].where, "the type uid is not the documented constant")
    # attribute lists
    amap = lambda name, hint=None: p.attribute_map(p.cls(name, hint)) or {}  # noqa: E731
    km = set(p.const_dict(p.module("shared/utils.py"), "KEY_MAP").values())
    tables = [
        ("Groups", amap("Group"), "Group"), ("Objects", amap("ObjectBase"), "ObjectBase"), ("Data", amap("Data", "data.data"), "Data"),
        ("Group Types", amap("GroupType"), "GroupType"), ("Object Types", amap("ObjectType"), "ObjectType"),
        ("Workspace", amap("Workspace"), "Workspace"),
    ]
    for section, m, cname in tables:
        for a in doc.section_attributes(section):
            ok = a in m
            res.inst(f"documented {section} attribute {a!r} in {cname}._attribute_map", ok=ok)
            if not ok:
                res.find(cname, "_attribute_map", f"documented attribute {a!r} missing", p.cls(cname, "data.data" if cname == "Data" else None).where,
                         f"{a!r} is part of the format but is neither written nor read for {section.lower()}")
    for title, cname in (("Block model type", "BlockModel"), ("2D grid type", "Grid2D"), ("Drillhole type", "Drillhole")):
        attrs, dsets = doc.type_extras(title)
        m = amap(cname)
        for a in attrs:
            ok = a in m
            res.inst(f"documented {title} attribute {a!r} in {cname}._attribute_map", ok=ok)
            if not ok:
                res.find(cname, "_attribute_map", f"documented attribute {a!r} missing", p.cls(cname).where, f"{a!r} is never written for a {title}")
        for d in dsets:
            ok = d in km
            res.inst(f"documented {title} dataset {d!r} in KEY_MAP", ok=ok)
            if not ok:
                res.find(cname, "KEY_MAP", f"documented dataset {d!r} missing from KEY_MAP", p.cls(cname).where, f"{d!r} is never written for a {title}")
    for k, why in NOT_IMPLEMENTED.items():
        res.notes.append(f"{k}: documented attributes not compared — {why}")
    return res


def rule_link(ctx) -> RuleResult:
    res = RuleResult(
        "C02.LINK",
        "C02",
        "every `X['Type'] = v` in the writer has v returned by write_entity_type, which returns a member of "
        "<project>/Types/<kind>; every parent->child store has v returned by write_entity (the node of the flat container) "
        "and the child's own uid as key; flat-container nodes are created under as_str_if_uuid(<entity>.uid); no soft / "
        "external links, no node copies",
        floor=6,
    )
    p = ctx.p
    W = p.cls("H5Writer")
    wmod = W.module
    for name, fn in W.methods.items():
        roles = writer_roles(fn.node)
        cu = lambda n, roles=roles: canon(n, roles)  # noqa: E731  (locals are compared by role, not by spelling)
        defs: dict[str, list] = {}
        for n in ast.walk(fn.node):
            if isinstance(n, ast.Assign) and len(n.targets) == 1 and isinstance(n.targets[0], ast.Name):
                defs.setdefault(roles.get(n.targets[0].id, n.targets[0].id), []).append(n.value)
        for a in ast.walk(fn.node):
            if not (isinstance(a, ast.Assign) and len(a.targets) == 1 and isinstance(a.targets[0], ast.Subscript)):
                continue
            t = a.targets[0]
            key = t.slice
            val = a.value
            srcs = defs.get(roles.get(val.id, val.id), []) if isinstance(val, ast.Name) else [val]
            where = f"{fn.module.relpath}:{a.lineno}"
            if isinstance(key, ast.Constant) and key.value == "Type":
                ok = bool(srcs) and all(isinstance(s, ast.Call) and cu(s.func).endswith("write_entity_type") for s in srcs)
                res.inst(f"H5Writer.{name}:{a.lineno} {cu(t)[:30]} = {cu(val)} from {[cu(s)[:40] for s in srcs]}", nontrivial=True, ok=ok)
                if not ok:
                    res.find("H5Writer", name, f"Type link assigned from {cu(val)[:40]}", where,
                             "the Type entry is not the node write_entity_type returned: the entity's type is a copy or another node, not the shared type under Types")
            elif isinstance(key, ast.Constant) and key.value == "Root":
                continue  # C02.SPEC
            elif isinstance(val, (ast.Name,)) and any(isinstance(s, ast.Call) and cu(s.func).endswith("write_entity") for s in srcs) or "parent_handle" in cu(t.value):
                ok = bool(srcs) and all(isinstance(s, ast.Call) and cu(s.func).endswith("write_entity") and len(s.args) >= 2 and cu(s.args[1]) == "entity" for s in srcs)
                uid_ok = cu(key) in ("as_str_if_uuid(uid)", "as_str_if_uuid(entity.uid)") and (
                    cu(key) != "as_str_if_uuid(uid)" or any(cu(d) == "entity.uid" for d in defs.get("uid", []))
                )
                res.inst(f"H5Writer.{name}:{a.lineno} child link {cu(t)[:40]} = {cu(val)}", nontrivial=True, ok=ok and uid_ok)
                if not ok:
                    res.find("H5Writer", name, f"child link assigned from {cu(val)[:40]}", where,
                             "the parent's entry is not the child's node in the flat container (a copy, or another entity's node)")
                if not uid_ok:
                    res.find("H5Writer", name, f"child link stored under key {cu(key)[:40]}", where, "the link name is not the child's own identifier")
    # uid-named groups are created only in the flat containers, the type containers and PropertyGroups
    n_links = 0
    for name, fn in W.methods.items():
        roles = writer_roles(fn.node)
        cu = lambda n, roles=roles: canon(n, roles)  # noqa: E731
        for c in ast.walk(fn.node):
            if isinstance(c, ast.Call) and isinstance(c.func, ast.Attribute) and c.func.attr == "create_group" and c.args and "as_str_if_uuid" in cu(c.args[0]) or (
                isinstance(c, ast.Call) and isinstance(c.func, ast.Attribute) and c.func.attr == "create_group" and c.args and cu(c.args[0]) in ("uid", "uid_str")
            ):
                base = cu(c.func.value)
                ok = base in ("h5file[base][entity_type]", "h5file[base]['Types'][entity_type_str]", "entity_handle['PropertyGroups']", "parent_handle['PropertyGroups']")
                res.inst(f"H5Writer.{name}:{c.lineno} uid-named group created in {base}", ok=ok)
                if not ok:
                    res.find("H5Writer", name, f"uid-named group created in {base[:40]}", f"{fn.module.relpath}:{c.lineno}",
                             "an entity node is created outside the flat containers: the hierarchy entry is a separate (empty) group, not a hard link")
        for a in ast.walk(fn.node):
            if isinstance(a, ast.Assign) and isinstance(a.targets[0], ast.Subscript) and "parent_handle" in cu(a.targets[0].value):
                n_links += 1
    ok = n_links >= 1
    res.inst(f"writer contains {n_links} parent->child hard-link store(s)", ok=ok)
    if not ok:
        res.find("H5Writer", "write_to_parent", "no parent->child hard-link store", W.methods["write_to_parent"].where,
                 "children are never linked under their parent: the tree cannot be traversed from Root")
    # write_entity_type / write_entity return values
    wt = W.methods["write_entity_type"]
    roles = writer_roles(wt.node)
    cu = lambda n, roles=roles: canon(n, roles)  # noqa: E731
    defs = {}
    for n in ast.walk(wt.node):
        if isinstance(n, ast.Assign) and isinstance(n.targets[0], ast.Name):
            defs.setdefault(roles.get(n.targets[0].id, n.targets[0].id), []).append(n.value)
    for r in [x for x in ast.walk(wt.node) if isinstance(x, ast.Return) and x.value is not None and cu(x.value) != "None"]:
        srcs = defs.get(roles.get(r.value.id, r.value.id), []) if isinstance(r.value, ast.Name) else [r.value]
        ok = all("['Types'][entity_type_str]" in cu(s) and "as_str_if_uuid(uid)" in cu(s) for s in srcs) and any(cu(d) == "entity_type.uid" for d in defs.get("uid", []))
        res.inst(f"write_entity_type:{r.lineno} returns {[cu(s)[:60] for s in srcs]}", nontrivial=True, ok=ok)
        if not ok:
            res.find("H5Writer", "write_entity_type", f"returns {cu(r.value)[:40]}", f"{wt.module.relpath}:{r.lineno}",
                     "the returned node is not <project>/Types/<kind>/<type uid>: entities link to a wrong or private type node")
    wen = W.methods["write_entity"]
    roles = writer_roles(wen.node)
    cu = lambda n, roles=roles: canon(n, roles)  # noqa: E731
    defs = {}
    for n in ast.walk(wen.node):
        if isinstance(n, ast.Assign) and isinstance(n.targets[0], ast.Name):
            defs.setdefault(roles.get(n.targets[0].id, n.targets[0].id), []).append(n.value)
    for r in [x for x in ast.walk(wen.node) if isinstance(x, ast.Return) and x.value is not None]:
        srcs = defs.get(roles.get(r.value.id, r.value.id), []) if isinstance(r.value, ast.Name) else [r.value]
        ok = all("h5file[base][entity_type]" in cu(s) and "as_str_if_uuid(uid)" in cu(s) for s in srcs) and any(cu(d) == "entity.uid" for d in defs.get("uid", []))
        res.inst(f"write_entity:{r.lineno} returns {[cu(s)[:60] for s in srcs]}", nontrivial=True, ok=ok)
        if not ok:
            res.find("H5Writer", "write_entity", f"returns {cu(r.value)[:40]}", f"{wen.module.relpath}:{r.lineno}",
                     "the returned node is not <project>/<flat container>/<entity uid>")
    # no soft / external links, no node copies, no group named Type
    for fn in p.all_functions():
        for n in ast.walk(fn.node):
            bad = None
            if isinstance(n, ast.Attribute) and n.attr in ("SoftLink", "ExternalLink") and unparse(n.value) == "h5py":
                bad = f"h5py.{n.attr}"
            if isinstance(n, ast.Call) and isinstance(n.func, ast.Attribute) and n.func.attr == "create_group" and n.args and isinstance(n.args[0], ast.Constant) and n.args[0].value == "Type":
                bad = 'create_group("Type")'
            if fn.module is wmod and isinstance(n, ast.Call) and isinstance(n.func, ast.Attribute) and n.func.attr == "copy" and "handle" in unparse(n.func.value):
                bad = f"{unparse(n.func)}( on a handle"
            if bad:
                res.inst(f"{fn.qualname}:{n.lineno} {bad}", ok=False)
                res.find(fn.cls.name if fn.cls else fn.module.short, fn.prop or fn.name, bad, f"{fn.module.relpath}:{n.lineno}",
                         "the hierarchy must consist of hard links to the single stored node")
    return res


def rule_reparent(ctx) -> RuleResult:
    res = RuleResult(
        "C02.REPARENT",
        "C02",
        "in Entity.parent's setter every path that changes the parent from one container to a different one adds the "
        "entity to the new parent, then unlinks it from the old one (remove_children -> file unlink) and re-saves it "
        "(write_to_parent): exactly one parent on file",
        floor=3,
    )
    p = ctx.p
    st = p.cls("Entity").props["parent"].setter
    g = CFG(st.node)
    arg = st.params[1]
    add = lambda n: has_call(n, lambda c: unparse(c.func) == f"{arg}.add_children")  # noqa: E731
    unlink = lambda n: has_call(n, lambda c: isinstance(c.func, ast.Attribute) and c.func.attr == "remove_children" and c.args and "self" in unparse(c.args[0]))  # noqa: E731
    save = lambda n: has_call(n, lambda c: unparse(c.func) == "self.workspace.save_entity" and c.args and unparse(c.args[0]) == "self")  # noqa: E731
    store = [n for n in g.nodes if n.kind == "stmt" and isinstance(n.ast, ast.Assign) and unparse(n.ast.targets[0]) == "self._parent"]
    if not store:
        raise AnalysisError("Entity.parent setter: store of self._parent not found")
    # the change test: <old parent> is not None and <old parent> != self._parent; the old parent is the local bound from self._parent / self.parent
    from ..roles import bound_from
    olds = {nm: "current_parent" for nm in bound_from(st.node, lambda e: unparse(e) in ("self._parent", "self.parent", "getattr(self, '_parent', None)"))}
    cu = lambda n: canon(n, olds)  # noqa: E731
    tests = [n for n in g.nodes if n.kind == "test" and "current_parent" in cu(n.ast) and ("!=" in cu(n.ast) or "is not self._parent" in cu(n.ast))]
    ok = bool(tests)
    res.inst("parent setter: tests `current_parent is not None and current_parent != self._parent`", ok=ok)
    if not ok:
        res.find("Entity", "parent", "no test for an actual change of parent", st.where, "the old parent is never (or always) unlinked")
    allowed = {"current_parent is not None", "current_parent != self._parent", "hasattr(current_parent, 'remove_children')", "current_parent is not self._parent"}
    for t in tests:
        conj = {cu(v) for v in t.ast.values} if isinstance(t.ast, ast.BoolOp) and isinstance(t.ast.op, ast.And) else {cu(t.ast)}
        extra = sorted(conj - allowed)
        res.inst(f"parent setter: the unlink of the old parent is conditioned only on an actual change of parent (extra conditions: {extra})", nontrivial=True, ok=not extra)
        if extra:
            res.find("Entity", "parent", f"unlink from the old parent additionally requires {extra}", st.where,
                     "the in-memory move always happens, but for some entities the old parent's link stays on file: after close the node sits under both parents")
    for t in tests:
        starts = [m for m, l in t.succ if l == "true"]
        r1 = reach(g, starts, avoid=unlink)
        ok1 = g.exit not in r1
        res.inst("parent setter: changed-parent path calls old_parent.remove_children([self])", nontrivial=True, ok=ok1)
        if not ok1:
            res.find("Entity", "parent", "changed-parent path without old_parent.remove_children([self])", st.where,
                     "after a move the entity is linked under both parents on file (in memory everything looks right)")
        r2 = reach(g, starts, avoid=save)
        ok2 = g.exit not in r2
        res.inst("parent setter: changed-parent path re-saves the entity (link under the new parent)", nontrivial=True, ok=ok2)
        if not ok2:
            res.find("Entity", "parent", "changed-parent path without workspace.save_entity(self)", st.where,
                     "after a move the entity is not linked under its new parent on file")
    dom = dominators(g)
    for s in store:
        ok3 = any(add(d) for d in dom[s])
        res.inst("parent setter: new_parent.add_children([self]) precedes the store of _parent", nontrivial=True, ok=ok3)
        if not ok3:
            res.find("Entity", "parent", "_parent stored without add_children on the new parent", st.where, "the new parent does not list the entity")
    # the chain reaches the file: EntityContainer/ObjectBase.remove_children -> workspace.remove_children -> H5Writer.remove_child
    wr = p.func("Workspace.remove_children")
    ok4 = any(isinstance(c, ast.Call) and isinstance(c.func, ast.Attribute) and c.func.attr == "_io_call" and c.args and unparse(c.args[0]) == "H5Writer.remove_child" for c in ast.walk(wr.node))
    res.inst("Workspace.remove_children -> _io_call(H5Writer.remove_child, child.uid, <kind>, parent)", ok=ok4)
    if not ok4:
        res.find("Workspace", "remove_children", "no H5Writer.remove_child call", wr.where, "the old parent's link stays on file")
    rc = p.func("H5Writer.remove_child")
    rc_roles = writer_roles(rc.node)
    ok5 = any(isinstance(d, ast.Delete) and "parent_handle[ref_type][uid_str]" in canon(d, rc_roles) for d in ast.walk(rc.node))
    res.inst("H5Writer.remove_child deletes parent_handle[ref_type][uid_str]", ok=ok5)
    if not ok5:
        res.find("H5Writer", "remove_child", "does not delete the parent's link", rc.where, "the old parent's link stays on file")
    return res


def rule_pgmember(ctx) -> RuleResult:
    res = RuleResult(
        "C02.PGMEMBER",
        "C02",
        "every store to PropertyGroup._properties is dominated by a membership test of the uid against the parent's children",
        floor=2,
    )
    p = ctx.p
    PG = p.cls("PropertyGroup")
    members = list(PG.methods.values()) + [f for pr in PG.props.values() for f in (pr.setter,) if f is not None]
    for fn in members:
        if fn.name == "__init__":
            continue
        stores = [a for a in ast.walk(fn.node) if isinstance(a, ast.Assign) and any(unparse(t) == "self._properties" for t in a.targets)]
        for a in stores:
            txt = unparse(fn.node)
            checked = ("self.parent.children" in txt) or ("self.parent.get_entity(" in txt) or ("parent.get_data(" in txt)
            res.inst(f"{fn.qualname}:{a.lineno} stores _properties; membership test against the parent's children: {checked}", nontrivial=True, ok=checked)
            if not checked:
                res.find("PropertyGroup", fn.prop or fn.name, "stores _properties without a membership test against parent.children", f"{fn.module.relpath}:{a.lineno}",
                         "a uid that is not a child of the group's object can be listed in 'Properties' and is written to the file")
    rp = PG.methods.get("remove_properties")
    conv = [i for i in ast.walk(rp.node) if isinstance(i, ast.If) and any(isinstance(a, ast.Assign) and unparse(a.value).endswith(".uid") for a in i.body)]
    ok = bool(conv) and all(unparse(i.test) == f"isinstance({unparse(i.body[0].targets[0])}, Data)" for i in conv)
    res.inst(f"PropertyGroup.remove_properties converts every Data element to its uid ({[unparse(i.test) for i in conv]})", nontrivial=True, ok=ok)
    if not ok:
        res.find("PropertyGroup", "remove_properties", f"Data elements are converted to uids only under {[unparse(i.test) for i in conv]}", rp.where,
                 "some data are compared as objects against the uid list and never stripped: a group keeps listing data that left its object "
                 "(re-parented or removed)")
    return res


RULES = [rule_spec, rule_link, rule_reparent, rule_pgmember]
