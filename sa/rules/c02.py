"""C02 — every written file is structurally valid (format-document agreement, hard links, re-parenting, property-group members)."""

from __future__ import annotations

import ast
import uuid as _uuid

from ..cfg import CFG, dominators
from ..kinds import has_call, reach
from ..model import AnalysisError, chain, unparse
from ..report import RuleResult
from ..roles import canon, writer_roles
from ..textile import FormatDoc

# documented type section -> implementing class (irregular names only; the rest is matched by normalised name)
DOC_ALIASES = {"Container": "ContainerGroup", "Drillholes group": "DrillholeGroup", "2D grid type": "Grid2D", "Geoimage type": "GeoImage", "Block model type": "BlockModel"}
NOT_IMPLEMENTED = {"Label": "its own docstring says 'Not yet implemented' (target / label position are placeholders)"}


def _dview(ctx, fn):
    """normalised view prepared for the denotation: calls to pure name-choosing helpers folded to the names they can return, loops
    over literal tables unrolled"""
    from ..h5den import fold_const_calls
    from ._c02_flow import fold_literal_concat, unroll_literal_loops

    return unroll_literal_loops(fold_literal_concat(fold_const_calls(ctx.view(fn), ctx.p, ctx.view)))


def type_uid_of(K):
    a = K.class_assigns.get("__TYPE_UID")
    if not a:
        return None
    v = a[0]
    if isinstance(v, ast.Call) and unparse(v.func) in ("uuid.UUID", "UUID"):
        try:
            args = [ast.literal_eval(x) for x in v.args]
            kw = {k.arg: ast.literal_eval(k.value) for k in v.keywords}
            return str(_uuid.UUID(*args, **kw))
        except Exception:
            return None
    return None


def rule_spec(ctx) -> RuleResult:
    res = RuleResult(
        "C02.SPEC",
        "C02",
        "the skeleton H5Writer.init_geoh5 creates equals the hierarchy of the format document; the default_type_uid of every "
        "documented type equals the documented UUID; every attribute / dataset the document lists for groups, objects, data, "
        "their types, block models, 2-D grids and drillholes is a key of the class' attribute map or of KEY_MAP",
        floor=60,
    )
    p = ctx.p
    doc = FormatDoc(p.repo, p.overlay)
    W = p.cls("H5Writer")
    ig = W.methods.get("init_geoh5")
    if ig is None:
        raise AnalysisError("anchor H5Writer.init_geoh5 not found")
    # which groups init_geoh5 creates, by the node each create_group call denotes (loops over hoisted name tables included)
    from ..h5den import Den

    igv = _dview(ctx, ig)
    dn = Den(igv, ctx.p)
    got, got_t, has_project, stray = set(), set(), False, []
    for c in ast.walk(igv.node):
        if isinstance(c, ast.Call) and isinstance(c.func, ast.Attribute) and c.func.attr in ("create_group", "require_group") and c.args:
            for path in dn.paths(c):
                if path == (("PROJECT",),):
                    has_project = True
                elif len(path) == 2 and path[0] == ("PROJECT",) and path[1][0] == "const":
                    got |= set(path[1][1])
                elif len(path) == 3 and path[0] == ("PROJECT",) and path[1] == ("const", frozenset({"Types"})) and path[2][0] == "const":
                    got_t |= set(path[2][1])
                else:
                    stray.append((c, path))  # a group of the file that is neither the project, nor one of its containers, nor a type container
    if not has_project:
        raise AnalysisError("H5Writer.init_geoh5: project group creation not recognised")
    want = set(doc.skeleton()) - {"Root"}
    ok = got == want
    res.inst(f"init_geoh5 creates {sorted(got)} under the project group; document: {sorted(want)}", ok=ok)
    if not ok:
        res.find("H5Writer", "init_geoh5", f"skeleton {sorted(got)} differs from the documented {sorted(want)}", ig.where,
                 "a new file lacks (or has an extra) mandatory flat container")
    want_t = set(doc.type_containers())
    ok = got_t == want_t
    res.inst(f"init_geoh5 creates {sorted(got_t)} under Types; document: {sorted(want_t)}", ok=ok)
    if not ok:
        res.find("H5Writer", "init_geoh5", f"type containers {sorted(got_t)} differ from the documented {sorted(want_t)}", ig.where, "types cannot be filed by kind")
    from ..h5den import fmt as _fmt

    ok = not stray
    res.inst(f"init_geoh5 creates no group outside the documented hierarchy ({len(stray)} found)", ok=ok)
    if not ok:
        res.find("H5Writer", "init_geoh5", f"creates the group {_fmt(stray[0][1])[:60]}, which the documented hierarchy does not have", f"{ig.module.relpath}:{stray[0][0].lineno}",
                 "a new file holds a group that is not part of the format (inside a flat container it stands where only entity nodes named by their uid may be)")
    we = W.methods["write_entity"]
    root_links = [a for a in ast.walk(we.node) if isinstance(a, ast.Assign) and isinstance(a.targets[0], ast.Subscript) and unparse(a.targets[0].slice) == "'Root'"]
    we_roles = writer_roles(we.node)
    ok = bool(root_links) and all(canon(a.value, we_roles) == "entity_handle" for a in root_links)
    res.inst("write_entity: project['Root'] = entity_handle (hard link to the root group's node)", ok=ok)
    if not ok:
        res.find("H5Writer", "write_entity", "Root link missing or not the root group's node", we.where, "the mandatory Root link is absent or points elsewhere")
    # the Root link may only ever designate the workspace's own root group
    for a in root_links:
        chain_ = [i for i in ast.walk(we.node) if isinstance(i, ast.If) and any(x is a for s_ in i.body for x in ast.walk(s_))]
        gtxt = " and ".join(unparse(i.test) for i in chain_)
        ok = "workspace.root" in gtxt or "is_root" in gtxt
        res.inst(f"write_entity: Root link assigned under `{gtxt[:80]}`", nontrivial=True, ok=ok)
        if not ok:
            res.find("H5Writer", "write_entity", "Root link re-pointed for ANY RootGroup instance", f"{we.module.relpath}:{a.lineno}",
                     "writing a second RootGroup (e.g. the copy of another workspace's root) re-points the file's Root link at it: the original "
                     "root and everything under it become unreachable from Root")
    # type uids
    uids = doc.type_uids()
    by_uid = {}
    for K in p.classes:
        if K.synthetic:
            continue
        u = type_uid_of(K)
        if u:
            by_uid.setdefault(u, []).append(K)
    for title, u in uids.items():
        cname = DOC_ALIASES.get(title, title.replace(" type", "").replace(" ", "").capitalize() if " " in title.replace(" type", "") else title.replace(" type", ""))
        cands = [K for K in p.by_name.get(cname, []) if not K.synthetic]
        if not cands:
            cands = [K for K in p.classes if K.name.lower() == cname.lower() and not K.synthetic]
        if len(cands) != 1:
            raise AnalysisError(f"format document type {title!r}: implementing class {cname!r} not found")
        K = cands[0]
        mine = type_uid_of(K)
        ok = mine == u
        res.inst(f"{K.name}.default_type_uid {mine} == documented {u}", ok=ok)
        if not ok:
            res.find(K.name, "default_type_uid", f"type uid {mine} differs from the documented {u}", K.where,
                     f"objects of class {K.name} are written with a type Geoscience ANALYST does not recognise as {title!r}")
        du = K.lookup("default_type_uid")
        if du and du[1] == "method":
            rets = [r for r in ast.walk(du[2].node) if isinstance(r, ast.Return)]
            ok = len(rets) == 1 and unparse(rets[0].value) in ("cls.__TYPE_UID", f"cls._{du[0].name}__TYPE_UID")
            res.inst(f"{K.name}.default_type_uid returns the class constant", ok=ok)
            if not ok:
                res.find(du[0].name, "default_type_uid", f"returns {unparse(rets[0].value) if rets else None}", du[2].where, "the type uid is not the documented constant")
    # attribute lists
    amap = lambda name, hint=None: p.attribute_map(p.cls(name, hint)) or {}  # noqa: E731
    km = set(p.const_dict(p.module("shared/utils.py"), "KEY_MAP").values())
    tables = [
        ("Groups", amap("Group"), "Group"), ("Objects", amap("ObjectBase"), "ObjectBase"), ("Data", amap("Data", "data.data"), "Data"),
        ("Group Types", amap("GroupType"), "GroupType"), ("Object Types", amap("ObjectType"), "ObjectType"),
        ("Workspace", amap("Workspace"), "Workspace"),
    ]
    for section, m, cname in tables:
        for a in doc.section_attributes(section):
            ok = a in m
            res.inst(f"documented {section} attribute {a!r} in {cname}._attribute_map", ok=ok)
            if not ok:
                res.find(cname, "_attribute_map", f"documented attribute {a!r} missing", p.cls(cname, "data.data" if cname == "Data" else None).where,
                         f"{a!r} is part of the format but is neither written nor read for {section.lower()}")
    for title, cname in (("Block model type", "BlockModel"), ("2D grid type", "Grid2D"), ("Drillhole type", "Drillhole")):
        attrs, dsets = doc.type_extras(title)
        m = amap(cname)
        for a in attrs:
            ok = a in m
            res.inst(f"documented {title} attribute {a!r} in {cname}._attribute_map", ok=ok)
            if not ok:
                res.find(cname, "_attribute_map", f"documented attribute {a!r} missing", p.cls(cname).where, f"{a!r} is never written for a {title}")
        for d in dsets:
            ok = d in km
            res.inst(f"documented {title} dataset {d!r} in KEY_MAP", ok=ok)
            if not ok:
                res.find(cname, "KEY_MAP", f"documented dataset {d!r} missing from KEY_MAP", p.cls(cname).where, f"{d!r} is never written for a {title}")
    for k, why in NOT_IMPLEMENTED.items():
        res.notes.append(f"{k}: documented attributes not compared — {why}")
    return res


def rule_link(ctx) -> RuleResult:
    res = RuleResult(
        "C02.LINK",
        "C02",
        "every `X['Type'] = v` in the writer has v returned by write_entity_type, which returns a member of "
        "<project>/Types/<kind>; every parent->child store has v returned by write_entity (the node of the flat container) "
        "and the child's own uid as key; flat-container nodes are created under as_str_if_uuid(<entity>.uid); no soft / "
        "external links, no node copies",
        floor=6,
    )
    # Decided on the DENOTATION of the handle expressions (sa/h5den.py): which node of the file an expression stands for, on the
    # normalised body (helpers expanded, hoisted tables substituted, local aliases expanded) — not on how the locals are spelled.
    from ..h5den import FLAT, Den, fmt

    p = ctx.p
    W = p.cls("H5Writer")
    wmod = W.module
    n_links = 0
    views = {name: _dview(ctx, fn0) for name, fn0 in W.methods.items()}

    def still_called(helper: str) -> bool:
        """some view still contains a call to the helper (it could not be expanded there)"""
        return any(isinstance(c, ast.Call) and isinstance(c.func, ast.Attribute) and c.func.attr == helper
                   for v in views.values() for c in ast.walk(v.node))

    def called_somewhere(helper: str) -> bool:
        return any(isinstance(c, ast.Call) and isinstance(c.func, ast.Attribute) and c.func.attr == helper
                   for fn0 in W.methods.values() for c in ast.walk(fn0.node))

    def internal_only(helper: str) -> bool:
        """no function outside the writer class mentions the method (it is not an entry point of the package)"""
        return not any(isinstance(x, ast.Attribute) and x.attr == helper for f_ in p.all_functions() if f_.cls is not W for x in ast.walk(f_.node))

    # units of analysis: a method on its own (its handle parameters are opaque), or — for a helper that only the writer itself uses
    # and that was not expanded in place — the helper at each remaining call site, its parameters bound to what the caller passes
    units = []
    for name, fn0 in W.methods.items():
        private = name.startswith("_") and not name.startswith("__")
        helper = called_somewhere(name) and (private or internal_only(name))
        if helper and not still_called(name):
            continue  # a helper expanded into each of its callers: decided there, where its handles are known
        if helper and not private:
            bound, complete = [], True
            for cname, cv_ in views.items():
                if cname == name:
                    continue
                dc = None
                for c in ast.walk(cv_.node):
                    if isinstance(c, ast.Call) and isinstance(c.func, ast.Attribute) and c.func.attr == name:
                        dc = dc or Den(cv_, ctx.p)
                        cd = dc.callee_den(c, lambda f_: _dview(ctx, f_))
                        if cd is None or cd[0].name != name or not any(w and all(pth[0][0] != "FILE" for pth in w) for w in cd[1].env.values()):
                            complete = False  # (a method that receives no node of the file from its caller is decided on its own)
                        else:
                            bound.append((name, cd[0], cd[1]))
            if bound and complete:
                units += bound
                continue
        units.append((name, views[name], Den(views[name], ctx.p)))
    for name, fn, d in units:
        for a in ast.walk(fn.node):
            if isinstance(a, ast.Assign) and len(a.targets) == 1 and isinstance(a.targets[0], ast.Subscript):
                tp = d.paths(a.targets[0])
                if not tp:
                    continue  # a store into a python container, not into the file
                vp = d.paths(a.value)
                where = f"{fn.module.relpath}:{a.lineno}"
                for path in sorted(tp, key=fmt):
                    last = path[-1]
                    vtxt = sorted(fmt(x) for x in vp) or [unparse(a.value)[:40]]
                    if last == ("const", frozenset({"Type"})):
                        owner = path[0][1] if len(path) == 2 and path[0][0] == "NODE" else None
                        ok = owner is not None and vp == {(("TNODE", f"{owner}.entity_type"),)}
                        res.inst(f"H5Writer.{name}:{a.lineno} {fmt(path)} = {vtxt}", nontrivial=True, ok=ok)
                        if not ok:
                            res.find("H5Writer", name, f"Type link assigned from {vtxt[0][:40]}", where,
                                     "the Type entry is not the node write_entity_type returned: the entity's type is a copy or another node, not the shared type under Types")
                    elif last == ("const", frozenset({"Root"})):
                        continue  # C02.SPEC
                    elif len(path) == 3 and path[0][0] == "NODE" and path[1][0] == "const" and path[1][1] <= FLAT:
                        n_links += 1
                        parent = path[0][1]
                        uid_ok = last[0] == "uid"
                        child = last[1] if uid_ok else None
                        ok = uid_ok and vp == {(("NODE", child),)} and parent == f"{child}.parent"
                        res.inst(f"H5Writer.{name}:{a.lineno} child link {fmt(path)} = {vtxt}", nontrivial=True, ok=ok)
                        if not uid_ok:
                            res.find("H5Writer", name, "child link stored under a key that is not the child's uid", where, "the link name is not the child's own identifier")
                        elif not ok:
                            res.find("H5Writer", name, f"child link assigned from {vtxt[0][:40]}", where,
                                     "the parent's entry is not the child's node in the flat container (a copy, or another entity's node, or not under the child's parent)")
            if isinstance(a, ast.Call) and isinstance(a.func, ast.Attribute) and a.func.attr in ("create_group", "require_group") and a.args:
                for path in sorted(d.paths(a), key=fmt):
                    if d.uid_expr(a.args[0]) is None:
                        continue
                    # a uid-named group: only as an entity node, a type node, or a property group of an entity
                    ok = (len(path) == 1 and path[0][0] in ("NODE", "TNODE")) or (
                        len(path) == 3 and path[0][0] == "NODE" and path[1] == ("const", frozenset({"PropertyGroups"})) and path[2][0] == "uid")
                    res.inst(f"H5Writer.{name}:{a.lineno} uid-named group created as {fmt(path)}", ok=ok)
                    if not ok:
                        res.find("H5Writer", name, f"uid-named group created in {fmt(path[:-1])[:40]}", f"{fn.module.relpath}:{a.lineno}",
                                 "an entity node is created outside the flat containers: the hierarchy entry is a separate (empty) group, not a hard link")
    # a new entity node gets its Type link before anything fallible: on every path from the creation of node(E) to the store of
    # node(E)/Type no other writer function runs (an exception there would leave a stored node without a Type link, which the
    # already-stored early return of write_entity never repairs)
    for name, fn0 in W.methods.items():
        fn = views[name]
        d = Den(fn, ctx.p)
        g = CFG(fn.node)
        creates, links = [], []
        for n in g.nodes:
            if n.ast is None or isinstance(n.ast, list) or n.kind != "stmt":
                continue
            for x in ast.walk(n.ast):
                if isinstance(x, ast.Call) and isinstance(x.func, ast.Attribute) and x.func.attr in ("create_group", "require_group") and x.args and d.uid_expr(x.args[0]) is not None:
                    if any(len(pth) == 1 and pth[0][0] == "NODE" for pth in d.paths(x)):
                        creates.append(n)
                if isinstance(x, ast.Assign) and len(x.targets) == 1 and isinstance(x.targets[0], ast.Subscript):
                    if any(pth[-1] == ("const", frozenset({"Type"})) and pth[0][0] == "NODE" for pth in d.paths(x.targets[0])):
                        links.append(n)
                if isinstance(x, ast.Call) and isinstance(x.func, ast.Attribute) and x.func.attr in W.methods and x.func.attr not in ("write_entity", "write_entity_type", "fetch_handle") \
                        and any(d.paths(a_) for a_ in x.args[1:]):
                    # a writer helper that is handed the new node and stores its Type link (not expanded in place)
                    cd = d.callee_den(x, lambda f_: _dview(ctx, f_))
                    if cd is not None and any(isinstance(y, ast.Assign) and len(y.targets) == 1 and isinstance(y.targets[0], ast.Subscript) and any(
                            pth[-1] == ("const", frozenset({"Type"})) and pth[0][0] == "NODE" for pth in cd[1].paths(y.targets[0])) for y in ast.walk(cd[0].node)):
                        links.append(n)
        if not creates or not links:
            continue

        def fallible(n):
            a = n.ast
            if a is None or isinstance(a, list) or n in links:
                return False
            src = a if n.kind != "with" else None
            if src is None:
                return False
            for c in ast.walk(src if not isinstance(src, (ast.If, ast.For, ast.While, ast.Try)) else getattr(src, "test", src)):
                if isinstance(c, ast.Call) and isinstance(c.func, ast.Attribute) and chain(c.func.value) in (["cls"], ["H5Writer"]) \
                        and c.func.attr in W.methods and c.func.attr not in ("write_entity_type", "fetch_handle", "str_from_type"):
                    return True
            return False

        for c0 in creates:
            # nodes reachable from the creation before the Type link is stored
            before_link = reach(g, [m for m, _ in c0.succ], avoid=lambda n: n in links)
            bad = [n for n in before_link if fallible(n)]
            ok = not bad
            res.inst(f"H5Writer.{name}:{c0.lineno} new entity node: Type link stored before any other writer call", nontrivial=True, ok=ok)
            if not ok:
                b0 = min(bad, key=lambda n: n.lineno)
                res.find("H5Writer", name, "a writer call runs between the creation of the entity node and the store of its Type link", f"{fn.module.relpath}:{b0.lineno}",
                         "if that call raises (invalid values, compression option, full disk) the node stays in the flat container without a Type link; later saves "
                         "take the already-stored branch and never add it: the file holds an entity without a type")
    ok = n_links >= 1
    res.inst(f"writer contains {n_links} parent->child hard-link store(s)", ok=ok)
    if not ok:
        res.find("H5Writer", "write_to_parent", "no parent->child hard-link store", W.methods["write_to_parent"].where,
                 "children are never linked under their parent: the tree cannot be traversed from Root")
    # write_entity_type / write_entity return values
    for mname, kind, what, msg in (
        ("write_entity_type", "TNODE", "<project>/Types/<kind>/<type uid>", "entities link to a wrong or private type node"),
        ("write_entity", "NODE", "<project>/<flat container>/<entity uid>", ""),
    ):
        fn = views[mname]
        d = Den(fn, ctx.p)
        target = d.params[1] if len(d.params) > 1 else None
        for r in [x for x in ast.walk(fn.node) if isinstance(x, ast.Return) and x.value is not None and unparse(x.value) != "None"]:
            rp = d.paths(r.value)
            ok = rp == {((kind, target),)}
            res.inst(f"{mname}:{r.lineno} returns {sorted(fmt(x) for x in rp)}", nontrivial=True, ok=ok)
            if not ok:
                res.find("H5Writer", mname, f"returns {(sorted(fmt(x) for x in rp) or [unparse(r.value)])[0][:40]}", f"{fn.module.relpath}:{r.lineno}",
                         f"the returned node is not {what}" + (f": {msg}" if msg else ""))
    # the denotation takes `fetch_handle(h5file, E)` for node(E) / tnode(E): the containers it walks through (and creates when missing) are
    # exactly the documented ones — a name that is not a container of the format is a bogus group under the project and an entity never found
    from ..h5den import TYPEC

    fh = views.get("fetch_handle")
    if fh is None:
        raise AnalysisError("anchor H5Writer.fetch_handle not found")
    dfh = Den(fh, ctx.p)
    walked = set()
    for x in ast.walk(fh.node):
        if isinstance(x, ast.Subscript) or (isinstance(x, ast.Call) and isinstance(x.func, ast.Attribute) and x.func.attr in ("create_group", "require_group", "get") and x.args):
            for path in dfh.paths(x):
                if path[0] in (("PROJECT",),) or path[0][0] in ("NODE", "TNODE"):
                    for seg in path[1:]:
                        if seg[0] == "const":
                            walked |= set(seg[1])
    documented = set(FLAT) | {"Types"} | set(TYPEC)
    ok = walked == documented
    res.inst(f"fetch_handle walks through the containers {sorted(walked)}; documented: {sorted(documented)}", nontrivial=True, ok=ok)
    if not ok:
        odd = sorted(walked - documented) or sorted(documented - walked)
        res.find("H5Writer", "fetch_handle", f"containers {odd} {'are not part of the format' if walked - documented else 'are never looked up'}", W.methods["fetch_handle"].where,
                 "entities (or types) of that kind are looked up in a group the format does not have: the stored node is never found, the writer creates "
                 "a bogus container under the project and writes the entity again or not at all")
    # no soft / external links, no node copies, no group named Type
    for fn in p.all_functions():
        for n in ast.walk(fn.node):
            bad = None
            if isinstance(n, ast.Attribute) and n.attr in ("SoftLink", "ExternalLink") and unparse(n.value) == "h5py":
                bad = f"h5py.{n.attr}"
            if isinstance(n, ast.Call) and isinstance(n.func, ast.Attribute) and n.func.attr == "create_group" and n.args and isinstance(n.args[0], ast.Constant) and n.args[0].value == "Type":
                bad = 'create_group("Type")'
            if fn.module is wmod and isinstance(n, ast.Call) and isinstance(n.func, ast.Attribute) and n.func.attr == "copy" and "handle" in unparse(n.func.value):
                bad = f"{unparse(n.func)}( on a handle"
            if bad:
                res.inst(f"{fn.qualname}:{n.lineno} {bad}", ok=False)
                res.find(fn.cls.name if fn.cls else fn.module.short, fn.prop or fn.name, bad, f"{fn.module.relpath}:{n.lineno}",
                         "the hierarchy must consist of hard links to the single stored node")
    return res


def rule_reparent(ctx) -> RuleResult:
    res = RuleResult(
        "C02.REPARENT",
        "C02",
        "in Entity.parent's setter every path that changes the parent from one container to a different one adds the "
        "entity to the new parent, then unlinks it from the old one (remove_children -> file unlink) and re-saves it "
        "(write_to_parent): exactly one parent on file",
        floor=3,
    )
    p = ctx.p
    from ..roles import bound_from
    from ..sem import Atoms, reach_facts

    st = ctx.view(p.cls("Entity").props["parent"].setter)
    g = CFG(st.node)
    arg = st.params[1]
    # roles: OLD = the local that remembers the previous parent (bound from self._parent / self.parent)
    olds = {nm: "OLD" for nm in bound_from(st.node, lambda e: unparse(e) in ("self._parent", "self.parent", "getattr(self, '_parent', None)"))}
    at = Atoms(st.node, olds)
    add = lambda n: has_call(n, lambda c: isinstance(c.func, ast.Attribute) and c.func.attr == "add_children" and at.text(c.func.value) == arg)  # noqa: E731
    unlink = lambda n: has_call(n, lambda c: isinstance(c.func, ast.Attribute) and c.func.attr == "remove_children" and at.text(c.func.value) == "OLD" and c.args and "self" in unparse(c.args[0]))  # noqa: E731
    save = lambda n: has_call(n, lambda c: isinstance(c.func, ast.Attribute) and c.func.attr == "save_entity" and c.args and unparse(c.args[0]) == "self")  # noqa: E731
    store = [n for n in g.nodes if n.kind == "stmt" and isinstance(n.ast, (ast.Assign, ast.AnnAssign)) and unparse(n.ast.targets[0] if isinstance(n.ast, ast.Assign) else n.ast.target) == "self._parent"]
    if not store:
        raise AnalysisError("Entity.parent setter: store of self._parent not found")
    if not olds:
        res.inst("parent setter: remembers the previous parent", ok=False)
        res.find("Entity", "parent", "no test for an actual change of parent", st.where, "the old parent is never (or always) unlinked")
        return res
    # "the parent actually changed": the previous parent exists, differs from the new one and can unlink
    changed = {"OLD is None": False, "OLD == self._parent": False, "OLD is self._parent": False, f"OLD == {arg}": False, f"OLD is {arg}": False,
               "hasattr(OLD, 'remove_children')": True}
    consulted = set()
    for n in g.nodes:
        if n.kind == "test" and n.ast is not None:
            consulted |= {a for a in at.atoms_of(n.ast) if "OLD" in a}
    ok = any(("OLD ==" in a or "OLD is self._parent" in a or f"OLD is {arg}" in a) for a in consulted)
    res.inst(f"parent setter: tests an actual change of parent (atoms consulted on the old parent: {sorted(consulted)})", ok=ok)
    if not ok:
        res.find("Entity", "parent", "no test for an actual change of parent", st.where, "the old parent is never (or always) unlinked")
    for s_ in store:
        starts = [m for m, _ in s_.succ]
        # under "changed", with every OTHER condition left open: no path to the exit may skip the unlink / the re-save
        r1 = reach_facts(g, starts, at, changed, avoid=unlink)
        ok1 = g.exit not in r1
        # is the escape due to an extra condition (some atom outside the change test decides it)?
        extra = sorted(a for n in r1 if n.kind == "test" and n.ast is not None for a in at.atoms_of(n.ast) if a not in changed and at.truth(n.ast, changed) is None)
        res.inst(f"parent setter: every changed-parent path calls old_parent.remove_children([self]) (other conditions on the way: {extra})", nontrivial=True, ok=ok1)
        if not ok1:
            if extra and any(unlink(n) for n in g.nodes):
                res.find("Entity", "parent", f"unlink from the old parent additionally requires {extra}", st.where,
                         "the in-memory move always happens, but for some entities the old parent's link stays on file: after close the node sits under both parents")
            else:
                res.find("Entity", "parent", "changed-parent path without old_parent.remove_children([self])", st.where,
                         "after a move the entity is linked under both parents on file (in memory everything looks right)")
        r2 = reach_facts(g, starts, at, changed, avoid=save)
        ok2 = g.exit not in r2
        res.inst("parent setter: every changed-parent path re-saves the entity (link under the new parent)", nontrivial=True, ok=ok2)
        if not ok2 and ok1:
            res.find("Entity", "parent", "changed-parent path without workspace.save_entity(self)", st.where,
                     "after a move the entity is not linked under its new parent on file")
    dom = dominators(g)
    for s_ in store:
        ok3 = any(add(d) for d in dom[s_])
        res.inst("parent setter: new_parent.add_children([self]) precedes the store of _parent", nontrivial=True, ok=ok3)
        if not ok3:
            res.find("Entity", "parent", "_parent stored without add_children on the new parent", st.where, "the new parent does not list the entity")
    # the chain reaches the file: EntityContainer/ObjectBase.remove_children -> workspace.remove_children -> H5Writer.remove_child
    wr = p.func("Workspace.remove_children")
    from ._c02_flow import writer_calls_of

    WSK = p.cls("Workspace")
    wrv = ctx.view(wr)
    # (the writer call may be direct, go through a forwarding method, or take its function and arguments from locals bound per branch)
    unlink_calls = [(c, args) for c in ast.walk(wrv.node) if isinstance(c, ast.Call) for fname, args in writer_calls_of(c, wrv.node, WSK) if fname == "H5Writer.remove_child"]
    ok4 = bool(unlink_calls)
    res.inst("Workspace.remove_children -> _io_call(H5Writer.remove_child, child.uid, <kind>, parent)", ok=ok4)
    if not ok4:
        res.find("Workspace", "remove_children", "no H5Writer.remove_child call", wr.where, "the old parent's link stays on file")
    # ... and unlinks THAT child: the uid and the name of the link container both derive from the same element of the list
    from ..normalize import expanded as _expanded

    for c, wargs in unlink_calls:
        if len(wargs) >= 2:
            uid_x, kind_x = _expanded(wargs[0], wrv.node), _expanded(wargs[1], wrv.node)
            subject = uid_x.value.id if isinstance(uid_x, ast.Attribute) and uid_x.attr == "uid" and isinstance(uid_x.value, ast.Name) else None
            bound = {y.id for x in ast.walk(kind_x) if isinstance(x, ast.comprehension) for y in ast.walk(x.target) if isinstance(y, ast.Name)}
            ok6 = subject is not None and subject not in bound and any(isinstance(x, ast.Name) and x.id == subject for x in ast.walk(kind_x))
            res.inst("Workspace.remove_children: remove_child(<child>.uid, <link container of that same child>, parent)", nontrivial=True, ok=ok6)
            if not ok6:
                res.find("Workspace", "remove_children", "the link container is not derived from the child whose uid is unlinked", f"{wr.module.relpath}:{c.lineno}",
                         "a child of another kind than the one the container name was computed from keeps its link under the parent while its node leaves the "
                         "flat container: the parent's entry no longer designates a member of the flat container")
    from ..h5den import Den

    rc = _dview(ctx, p.func("H5Writer.remove_child"))
    d = Den(rc, ctx.p)
    prm = d.params  # (file, uid, ref_type, parent)
    ok5 = False
    for dl in ast.walk(rc.node):
        if isinstance(dl, ast.Delete):
            for t in dl.targets:
                for path in d.paths(t):
                    if len(path) == 3 and path[0] == ("NODE", prm[3] if len(prm) > 3 else "parent") and path[2] == ("uid", "param:uid") \
                            and (path[1] == ("key", prm[2] if len(prm) > 2 else "ref_type")):
                        ok5 = True
    if not ok5:
        # the deletion may be made by a shared helper that receives the container: decided in the helper, bound to this call site
        for c in ast.walk(rc.node):
            if not isinstance(c, ast.Call):
                continue
            cd = d.callee_den(c, lambda f_: _dview(ctx, f_))
            if cd is None or not (cd[1].env.keys() - {"file", "h5file"}):
                continue
            cfn, cden = cd
            for dl in ast.walk(cfn.node):
                if isinstance(dl, ast.Delete):
                    for t in dl.targets:
                        for path in cden.paths(t):
                            if len(path) == 3 and path[0] == ("NODE", prm[3] if len(prm) > 3 else "parent") and path[2] == ("uid", "param:uid") \
                                    and (path[1] == ("key", prm[2] if len(prm) > 2 else "ref_type")):
                                ok5 = True
    res.inst("H5Writer.remove_child deletes <node of parent>/<ref_type>/<uid>", ok=ok5)
    if not ok5:
        res.find("H5Writer", "remove_child", "does not delete the parent's link", rc.where, "the old parent's link stays on file")
    return res


def rule_pgmember(ctx) -> RuleResult:
    res = RuleResult(
        "C02.PGMEMBER",
        "C02",
        "every store to PropertyGroup._properties is dominated by a membership test of the uid against the parent's children",
        floor=2,
    )
    p = ctx.p
    PG = p.cls("PropertyGroup")
    # Provenance, not text: on the normalised body (private helpers expanded) a forward dataflow tracks which locals may hold a value
    # that was NOT shown to belong to the parent's children; a value is shown to belong by coming out of <parent>.get_entity /
    # get_data (they search the receiver's children only), by iterating <parent>.children, or by the true edge of a membership test
    # against them.  Every value that reaches self._properties must be verified on every path.
    from ._c02_flow import Members

    members = list(PG.methods.values()) + [f for pr in PG.props.values() for f in (pr.setter,) if f is not None]
    self_calls = lambda node: {c.func.attr for c in ast.walk(node) if isinstance(c, ast.Call) and isinstance(c.func, ast.Attribute)  # noqa: E731
                               and isinstance(c.func.value, ast.Name) and c.func.value.id in ("self", "cls")}
    pviews = {id(f): ctx.view(f) for f in members}
    called = set().union(*[self_calls(f.node) for f in members]) if members else set()
    unexpanded = set().union(*[self_calls(pv.node) for pv in pviews.values()]) if members else set()
    for fn in members:
        if fn.name == "__init__":
            continue
        if fn.name.startswith("_") and not fn.name.startswith("__") and fn.name in called and fn.name not in unexpanded:
            continue  # a private helper expanded into each of its callers: decided there, where the provenance of its arguments is known
        v = pviews[id(fn)]
        if not any(isinstance(x, ast.Attribute) and x.attr == "_properties" and isinstance(x.ctx, ast.Store) for x in ast.walk(v.node)) and not any(
                isinstance(c, ast.Call) and isinstance(c.func, ast.Attribute) and unparse(c.func.value) == "self._properties" for c in ast.walk(v.node)):
            continue
        for a, unverified in Members(v).stores("_properties"):
            checked = not unverified
            res.inst(f"{fn.qualname}:{a.lineno} stores _properties; every stored value was shown to be one of the parent's children: {checked}", nontrivial=True, ok=checked)
            if not checked:
                res.find("PropertyGroup", fn.prop or fn.name, "stores _properties without a membership test against parent.children", f"{fn.module.relpath}:{a.lineno}",
                         "a uid that is not a child of the group's object can be listed in 'Properties' and is written to the file")
    # copies: the members handed to the property group of a COPY are the copies of the source's members — on every path they come through
    # the table of copied children (uid of a source child -> uid of its copy under the new object); a uid of the source group handed
    # over as it is names a data that is not a child of the new object whenever the copy could not keep the source's identifiers
    cp = p.cls("Workspace").methods.get("copy_property_groups")
    if cp is None:
        raise AnalysisError("anchor Workspace.copy_property_groups not found")
    cpv = ctx.view(cp)
    cparams = [x for x in cp.params if x not in ("self", "cls")]
    iterated = {x.id for lp in ast.walk(cpv.node) if isinstance(lp, (ast.For, ast.comprehension)) for x in [lp.iter] if isinstance(x, ast.Name)}
    receivers = {c.func.value.id for c in ast.walk(cpv.node) if isinstance(c, ast.Call) and isinstance(c.func, ast.Attribute) and isinstance(c.func.value, ast.Name)
                 and "property_group" in c.func.attr}
    tables = [x for x in cparams if x not in iterated and x not in receivers]
    if len(tables) != 1 or len(cparams) < 3:
        raise AnalysisError(f"Workspace.copy_property_groups: the table of copied children is not identified among the parameters {cparams}")
    mm = Members(cpv, maps=tables)
    handed = mm.handed_over("properties")
    if not handed:
        raise AnalysisError("Workspace.copy_property_groups: no `properties` handed to the new property group found")
    bad = [x for x, unverified in handed if unverified]
    ok = not bad
    res.inst(f"Workspace.copy_property_groups: the members of the new group come through the table of copied children `{tables[0]}` on every path ({len(handed)} hand-over(s))",
             nontrivial=True, ok=ok)
    if not ok:
        res.find("Workspace", "copy_property_groups", "members of the source group handed to the copy without translation through the table of copied children",
                 f"{cp.module.relpath}:{(bad[0] if bad else cp.node).lineno}",
                 "when the copy could not keep the identifiers of the source (they are taken in the target workspace) its property group lists the source's "
                 "uids: data that are not children of the copied object")
    # remove_properties: whatever is compared with / removed from the uid list is a uid, also when the caller passed Data objects.
    # Abstract interpretation over the CFG: RAW = the locals that may still hold a Data element on some feasible path
    # (isinstance(<raw>, Data) is known True, every other condition is left open).
    from ..cfg import forward as _forward
    from ..kinds import tv as _tv

    rp = ctx.view(PG.methods.get("remove_properties"))
    g = CFG(rp.node)
    loop_vars = {lp.target.id for lp in ast.walk(rp.node) if isinstance(lp, ast.For) and isinstance(lp.target, ast.Name)}
    for comp in ast.walk(rp.node):
        if isinstance(comp, ast.comprehension) and isinstance(comp.target, ast.Name):
            loop_vars.add(comp.target.id)

    def converter_keeps_raw(call):
        """F(x) for a package function F of one argument: does F hand back a Data element unconverted on some path?"""
        f = call.func
        target = None
        if isinstance(f, ast.Name):
            r = p.resolve_name(rp.module, f.id)
            if r and r[0] == "func":
                target = r[1]
        elif isinstance(f, ast.Attribute) and isinstance(f.value, ast.Name) and f.value.id in ("self", "cls", "PropertyGroup"):
            m = PG.lookup(f.attr)
            if m and m[1] == "method":
                target = m[2]
        if target is None:
            return True  # unknown function: assume it may return its argument
        ps = target.params[1:] if target.kind in ("method", "classmethod") else target.params
        if len(ps) != 1:
            return True
        g2 = CFG(target.node)
        st_in = _forward(g2, frozenset({ps[0]}), transfer, join, bottom=BOT)
        for n2 in g2.nodes:
            if n2.kind == "return" and n2.ast is not None and st_in.get(n2, BOT) != BOT:
                v = n2.ast.value if isinstance(n2.ast, ast.Return) else n2.ast
                if v is not None and raw_of(v, set(st_in[n2])):
                    return True
        return False

    def raw_of(e, rawset):
        if isinstance(e, ast.Name):
            return e.id in rawset
        if isinstance(e, ast.Call) and len(e.args) == 1 and not e.keywords and isinstance(e.func, (ast.Name, ast.Attribute)) \
                and getattr(e.func, "id", getattr(e.func, "attr", "")) not in ("list", "tuple", "iter", "str"):
            return raw_of(e.args[0], rawset) and converter_keeps_raw(e)
        if isinstance(e, ast.IfExp):
            vals = [_tv(e.test, v, {"Data": True}) for v in rawset]
            dec = next((v for v in vals if v is not None), None)
            if dec is True:
                return raw_of(e.body, rawset)
            if dec is False:
                return raw_of(e.orelse, rawset)
            return raw_of(e.body, rawset) or raw_of(e.orelse, rawset)
        return False

    BOT = "<infeasible>"

    def transfer(node, st):
        if st == BOT:
            return BOT
        a = node.ast
        cur = set(st)
        if node.kind == "fornext" and isinstance(a, ast.Name):
            it = getattr(node.stmt, "iter", None)
            if isinstance(it, ast.Call) and getattr(it.func, "id", None) == "map" and len(it.args) == 2:
                probe = ast.Call(func=it.args[0], args=[ast.Name(id="<elem>", ctx=ast.Load())], keywords=[])
                if not converter_keeps_raw(probe):
                    return frozenset(cur - {a.id})  # every element went through a converter that strips Data objects
            return frozenset(cur | {a.id})  # the loop variable is bound to the next element (a Data object in the case analysed)
        if node.kind == "test" and a is not None:
            out = {"true": frozenset(cur), "false": frozenset(cur), None: frozenset(cur)}
            for v in cur:
                t = _tv(a, v, {"Data": True})
                if t is True:
                    out["false"] = BOT  # infeasible for a Data element
                elif t is False:
                    out["true"] = BOT
            return out
        if node.kind == "stmt" and isinstance(a, (ast.Assign, ast.AnnAssign)) and getattr(a, "value", None) is not None:
            tgs = a.targets if isinstance(a, ast.Assign) else [a.target]
            for t in tgs:
                if isinstance(t, ast.Name):
                    cur = (cur | {t.id}) if raw_of(a.value, cur) else (cur - {t.id})
        return frozenset(cur)

    def join(x, y):
        if x == BOT:
            return y
        if y == BOT:
            return x
        return x | y

    IN = _forward(g, frozenset(), transfer, join, bottom=BOT)
    uses = []
    for n in g.nodes:
        if n.ast is None or isinstance(n.ast, list):
            continue
        st = IN.get(n)
        if st is None or st == BOT:
            continue
        src = n.ast
        for x in ast.walk(src) if n.kind in ("stmt", "test", "return") else []:
            key = None
            if isinstance(x, ast.Compare) and len(x.ops) == 1 and isinstance(x.ops[0], (ast.In, ast.NotIn)) and unparse(x.comparators[0]).endswith("._properties"):
                key = x.left
            if isinstance(x, ast.Call) and isinstance(x.func, ast.Attribute) and x.func.attr in ("remove", "index", "count") and unparse(x.func.value).endswith("._properties") and x.args:
                key = x.args[0]
            if key is not None:
                uses.append((x, raw_of(key, set(st))))
    if not uses:
        raise AnalysisError("PropertyGroup.remove_properties: no comparison with / removal from self._properties found")
    bad = [x for x, raw in uses if raw]
    ok = not bad
    res.inst(f"PropertyGroup.remove_properties converts every Data element to its uid before touching the uid list ({len(uses)} uses)", nontrivial=True, ok=ok)
    if not ok:
        res.find("PropertyGroup", "remove_properties", "Data elements are converted to uids only under an extra condition", f"{rp.module.relpath}:{bad[0].lineno}",
                 "some data are compared as objects against the uid list and never stripped: a group keeps listing data that left its object "
                 "(re-parented or removed)")
    return res


def rule_orphan(ctx) -> RuleResult:
    res = RuleResult(
        "C02.ORPHAN",
        "C02",
        "a node and its parent entry leave the file together: Workspace.remove_entity deletes the flat node on every path (raises "
        "included) once the entity was detached from its parent; every remove_children of a container that has its own node reaches the "
        "file unlink (Workspace.remove_children) for a regular child; Workspace.close sweeps the dead referents of every flat "
        "container before the final save",
        floor=5,
    )
    from ..normalize import expanded as _expanded
    from ..normalize import single_assignments as _sa
    from ._c02_flow import child_truth, reach_pruned, sweeps_ast

    p = ctx.p
    WS = p.cls("Workspace")
    conc_roots = [K for K in (p.by_name.get("Concatenated", []) + p.by_name.get("ConcatenatedPropertyGroup", [])) if not K.synthetic]
    if not conc_roots:
        raise AnalysisError("anchor classes Concatenated / ConcatenatedPropertyGroup not found")
    concat_names = {K.name for K in p.classes if not K.synthetic and any(K.is_subclass_of(r) for r in conc_roots)}

    # (a) Workspace.remove_entity(E): detach (remove_recursively -> parent.remove_children([E]) -> file unlink) ... delete of the flat node
    re0 = WS.methods.get("remove_entity")
    if re0 is None or len(re0.params) < 2:
        raise AnalysisError("anchor Workspace.remove_entity(entity) not found")
    rv = ctx.view(re0)
    E = re0.params[1]
    sa = _sa(rv.node)
    xt = lambda e: unparse(_expanded(e, rv.node, sa))  # noqa: E731

    def detaches(c):
        if not isinstance(c.func, ast.Attribute) or not c.args:
            return False
        if c.func.attr == "remove_recursively":
            return xt(c.args[0]) == E
        if c.func.attr == "remove_children" and xt(c.func.value) in (f"{E}.parent", f"{E}._parent"):
            return any(isinstance(x, ast.Name) and x.id == E for x in ast.walk(_expanded(c.args[0], rv.node, sa)))
        return False

    from ._c02_flow import writer_calls_of

    def deletes(c):
        return any(fname == "H5Writer.remove_entity" and args and xt(args[0]) == f"{E}.uid" for fname, args in writer_calls_of(c, rv.node, WS))

    g = CFG(rv.node)
    det = [n for n in g.nodes if has_call(n, detaches)]
    if not det:
        raise AnalysisError("Workspace.remove_entity: the call that detaches the entity from its parent (remove_recursively / parent.remove_children) not found")
    rr = WS.methods.get("remove_recursively")
    if rr is not None:
        rrv = ctx.view(rr)
        e2 = rr.params[1] if len(rr.params) > 1 else None
        sa2 = _sa(rrv.node)
        ok = any(isinstance(c, ast.Call) and isinstance(c.func, ast.Attribute) and c.func.attr == "remove_children" and c.args
                 and unparse(_expanded(c.func.value, rrv.node, sa2)) in (f"{e2}.parent", f"{e2}._parent")
                 and any(isinstance(x, ast.Name) and x.id == e2 for x in ast.walk(_expanded(c.args[0], rrv.node, sa2))) for c in ast.walk(rrv.node))
        res.inst("Workspace.remove_recursively detaches the entity from its parent (<entity>.parent.remove_children([<entity>]))", ok=ok)
        if not ok:
            res.find("Workspace", "remove_recursively", "the entity is not detached from its own parent", rr.where,
                     "the parent's entry stays on file while the node leaves the flat container")
    regular = {nm: False for nm in concat_names | {"PropertyGroup"}}
    for d0 in det:
        esc = reach(g, [m for m, _ in d0.succ], var=E, facts=regular, avoid=lambda n: has_call(n, deletes))
        ok = g.exit not in esc and g.rexit not in esc
        res.inst(f"Workspace.remove_entity:{d0.lineno} once detached from its parent, the entity's flat node is deleted on every path (normal or raising)", nontrivial=True, ok=ok)
        if not ok:
            why = "a raise" if g.rexit in esc else "a normal path"
            res.find("Workspace", "remove_entity", f"{why} leaves the function between the detachment from the parent and the deletion of the flat node", re0.where,
                     "the entity (already unlinked from its parent on file, its children already removed) keeps its node in the flat container: an orphan that "
                     "no later save re-links, since the parent no longer lists it")

    # (b) every remove_children of a container with its own node reaches the file unlink for a regular child
    EC = p.cls("EntityContainer")
    for K in p.subclasses(EC):
        if K.synthetic or "remove_children" not in K.methods or K.name in concat_names:
            continue  # concatenated containers have no node, hence no child links, on file
        f0 = K.methods["remove_children"]
        if len(f0.params) < 2:
            raise AnalysisError(f"{K.name}.remove_children: parameter list not recognised")
        fv = ctx.view(f0)
        lst = f0.params[1]
        saK = _sa(fv.node)
        xk = lambda e, fv=fv, saK=saK: unparse(_expanded(e, fv.node, saK))  # noqa: E731

        def unlinks(c, xk=xk):
            if not (isinstance(c.func, ast.Attribute) and c.func.attr == "remove_children"):
                return False
            r = c.func.value
            if isinstance(r, ast.Call) and isinstance(r.func, ast.Name) and r.func.id == "super":
                return True  # the inherited implementation is an instance of this clause itself
            return xk(r) in ("self.workspace", "self._workspace") and bool(c.args) and xk(c.args[0]) == "self"

        gk = CFG(fv.node)
        loops = [lp for lp in ast.walk(fv.node) if isinstance(lp, ast.For) and isinstance(lp.target, ast.Name)
                 and any(isinstance(x, ast.Name) and x.id == lst for x in ast.walk(_expanded(lp.iter, fv.node, saK)))]
        var = loops[0].target.id if loops else None
        truth = lambda t, var=var, fv=fv, saK=saK: child_truth(t, var, concat_names, fv.node, saK)  # noqa: E731
        avoid = lambda n, unlinks=unlinks: has_call(n, unlinks)  # noqa: E731
        ok = gk.exit not in reach_pruned(gk, [gk.entry], truth, avoid)
        if not ok:
            for lp in loops:  # per child: from the top of the body, neither the next iteration nor the exit is reached without the unlink
                nxt = [n for n in gk.nodes if n.kind == "fornext" and n.stmt is lp]
                tr = lambda t, lp=lp, fv=fv, saK=saK: child_truth(t, lp.target.id, concat_names, fv.node, saK)  # noqa: E731
                for nx in nxt:
                    body = [m for m, lab in nx.succ if lab == "loop"]
                    esc = reach_pruned(gk, body, tr, avoid)
                    if body and nx not in esc and gk.exit not in esc:
                        ok = True
        res.inst(f"{K.name}.remove_children: a regular child of the container is unlinked on file (Workspace.remove_children / super()) on every path", nontrivial=True, ok=ok)
        if not ok:
            res.find(K.name, "remove_children", "a regular (non-concatenated) child is never unlinked from the container on file", f0.where,
                     "the container also holds regular children (stored in a flat container and hard-linked under its node): removing one deletes the flat node "
                     "but keeps the container's entry, which then designates a node outside the flat container")

    # (c) close(): the final save is preceded by a sweep of the dead referents of every flat container
    cl = WS.methods.get("close")
    if cl is None:
        raise AnalysisError("anchor Workspace.close not found")
    cv = ctx.view(cl)
    gc_ = CFG(cv.node)
    sac = _sa(cv.node)
    xc = lambda e: unparse(_expanded(e, cv.node, sac))  # noqa: E731

    def is_save(c):
        """the final save of the tree: H5Writer.save_entity / save_entity applied to the root group"""
        if not isinstance(c.func, ast.Attribute):
            return False
        if any(fname == "H5Writer.save_entity" for fname, _ in writer_calls_of(c, cv.node, WS)):
            return True
        return c.func.attr == "save_entity" and any(xc(a) in ("self.root", "self._root") for a in c.args)

    saves = [n for n in gc_.nodes if has_call(n, is_save)]
    if not saves:  # no save recognised: the latest point is the closing of the file itself
        saves = [n for n in gc_.nodes if has_call(n, lambda c: isinstance(c.func, ast.Attribute) and c.func.attr == "close" and xc(c.func.value) in ("self.geoh5", "self._geoh5"))]
    if not saves:
        raise AnalysisError("Workspace.close: neither the final save of the root nor the closing of the file was recognised")
    from ..h5den import FLAT

    def node_sweeps(n):
        if n.ast is None or isinstance(n.ast, list):
            return set()
        if n.kind == "with":
            return set().union(*[sweeps_ast(p, WS, it.context_expr, cv.node, None, ctx.view) for it in n.ast.items])
        return sweeps_ast(p, WS, n.ast, cv.node, None, ctx.view)

    swept_at = {n: node_sweeps(n) for n in gc_.nodes}
    missing = []
    for kind in sorted(FLAT):
        before = reach(gc_, [gc_.entry], avoid=lambda n, kind=kind: kind in swept_at.get(n, ()))
        ok = not any(s_ in before for s_ in saves)
        res.inst(f"Workspace.close: dead {kind} referents are swept (remove_none_referents) before the final save", nontrivial=True, ok=ok)
        if not ok:
            missing.append(kind)
    if missing:
        res.find("Workspace", "close", f"dead referents of {missing} are not swept before the final save", cl.where,
                 f"an entity of {' / '.join(missing)} that was detached from its parent (remove_children: 'becomes inactive') and dropped by the caller is only "
                 "removed by the next listing call; close() makes none for these containers, so the node stays in the closed file without any parent")
    return res


RULES = [rule_spec, rule_link, rule_reparent, rule_pgmember, rule_orphan]
