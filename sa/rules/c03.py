"""C03 — no accepted attribute change is lost (write-through completeness)."""

from __future__ import annotations

import ast
import copy

from ..cfg import CFG, forward
from ..kinds import has_call, reach, tv
from ..model import AnalysisError, chain, unparse
from ..normalize import expanded, single_assignments
from ..persist import IDENTITY, PersistEngine
from ..report import RuleResult
from ..tables import WriterTables
from ..textile import FormatDoc
from ._c03_engine import RobustPersistEngine, RobustWriterTables, fuse_generator_loops, gateway_args, has_gateway_kw, route_values


def families(ctx):
    p = ctx.p
    if "c03_families" in ctx.cache:
        return ctx.cache["c03_families"]
    ent = p.cls("Entity")
    ety = p.cls("EntityType")
    fam = []
    for c in p.classes:
        if ent in c.mro or ety in c.mro:
            fam.append(c)
    fam += [p.cls("Workspace"), p.cls("ColorMap"), p.cls("ReferenceValueMap")]
    ctx.cache["c03_families"] = fam
    return fam


def engine(ctx) -> PersistEngine:
    if "persist_engine" not in ctx.cache:
        depth = 4 if ctx.tier == "quick" else 12
        ctx.cache["persist_engine"] = RobustPersistEngine(ctx.p, RobustWriterTables(ctx.p), max_depth=depth)
    return ctx.cache["persist_engine"]


def _with_expanded_tests(fn_node):
    """A copy of the function in which every branch condition has its single-assignment locals replaced by their
    defining expressions (`cur = self._x; if cur is not None:` reads like `if self._x is not None:`)."""
    defs = single_assignments(fn_node)
    node = copy.deepcopy(fn_node)
    if not defs:
        return node

    class T(ast.NodeTransformer):
        def visit_If(self, n):
            self.generic_visit(n)
            n.test = expanded(n.test, fn_node, defs)
            return n

        visit_While = visit_If

        def visit_Assert(self, n):
            n.test = expanded(n.test, fn_node, defs)
            return n

    node = T().visit(node)
    ast.fix_missing_locations(node)
    return node


def _no_normal_exit_when(fn, facts) -> bool:
    """Under `facts` (three-valued pruning of the branch conditions, see sa/kinds.py) no path of `fn` reaches its normal
    exit, although some path does without them: the function raises because of the facts."""
    if not any(isinstance(x, (ast.Raise, ast.Assert)) for x in ast.walk(fn.node)):
        return False
    g = CFG(_with_expanded_tests(fn.node))
    sn = fn.self_name or "self"

    def refuted(n):
        # an assert whose condition is false under the facts never continues
        return n.kind == "assert" and tv(n.ast, sn, facts) is False

    if g.exit not in reach(g, [g.entry]):
        return False
    return g.exit not in reach(g, [g.entry], sn, facts, avoid=refuted)


def is_set_once(setter, fld, ctx=None) -> bool:
    """The setter raises whenever the backing field is already set (whatever the spelling: first statement or later,
    nested `if` or guard clause, the field read into a local first, tested through the getter or with hasattr; with
    `ctx`, also in an extracted private helper): the attribute is not assignable on a stored entity."""
    cache = ctx.cache.setdefault("c03_set_once", {}) if ctx is not None else {}
    if (setter, fld) not in cache:
        fn = ctx.view(setter) if ctx is not None else setter
        sn = setter.self_name or "self"
        facts = {f"notnone:{sn}.{fld}": True, f"notnone:{sn}.{fld[1:]}": True, "hasattr:" + fld: True}
        cache[(setter, fld)] = _no_normal_exit_when(fn, facts)
    return cache[(setter, fld)]


def component_domain(K):
    if K.name == "ColorMap":
        return {"values", "name"}
    if K.name == "ReferenceValueMap":
        return {"map"}
    return None


def _self_reads(ctx, fn) -> frozenset:
    """Names of the attributes of `self` the function reads, private helpers included."""
    cache = ctx.cache.setdefault("c03_self_reads", {})
    if fn not in cache:
        sn = fn.self_name
        node = fn.node
        # only pay for the normalised view when the body calls a private helper at all
        if any(isinstance(c, ast.Call) and (getattr(c.func, "attr", None) or getattr(c.func, "id", "") or "").startswith("_")
               for c in ast.walk(fn.node)):
            node = ctx.view(fn, consts=False).node
        selves = {sn}
        for k, v in single_assignments(node).items():
            if isinstance(v, ast.Name) and v.id == sn:
                selves.add(k)  # a helper's receiver parameter bound to self / `me = self`
        cache[fn] = frozenset(
            n.attr for n in ast.walk(node)
            if isinstance(n, ast.Attribute) and isinstance(n.value, ast.Name) and n.value.id in selves
        )
    return cache[fn]


def derived_props(ctx, K, base_domain):
    """Properties whose getter derives its value from a persisted property."""
    out = set()
    seen = set()
    for c in K.mro:
        if isinstance(c, str):
            continue
        for name, pr in c.props.items():
            if name in seen:
                continue
            seen.add(name)
            if name in base_domain or name in IDENTITY or pr.setter is None or pr.getter is None:
                continue
            if _self_reads(ctx, pr.getter) & set(base_domain):
                out.add(name)
    return out


def rule_w1(ctx) -> RuleResult:
    res = RuleResult(
        "C03.W1",
        "C03",
        "on every normal path of every resolved setter of a persisted attribute (all classes x attributes "
        "from the attribute maps, KEY_MAP and the dedicated routes), each store/in-place mutation of a persisted "
        "backing field is followed by a persistence call whose writer branch covers that field",
        floor=900,
    )
    eng = engine(ctx)
    distinct_setters = set()
    for K in families(ctx):
        comp = component_domain(K)
        dom = comp if comp is not None else eng.domain(K)
        dom_all = set(dom) | (derived_props(ctx, K, dom) if comp is None else set())
        for attr in sorted(dom_all):
            m = K.lookup(attr)
            if not m or m[1] != "prop":
                continue
            pr = m[2]
            if pr.setter is None:
                continue
            setter = pr.setter
            fld = "_" + attr
            if is_set_once(setter, fld, ctx):
                res.notes.append(f"{setter.qualname}: set-once setter, no obligation")
                continue
            summ = eng.analyse(setter, K)
            distinct_setters.add(setter)
            inst = f"{K.name}.{attr} -> {setter.qualname}"
            ok = not summ.dirty
            res.inst(inst, nontrivial=True, ok=ok)
            for recv, f in sorted(summ.dirty):
                routes = sorted({r for (rv, r, _, _) in summ.persists if rv == recv and r})
                path = eng.exit_path(setter, f)
                res.find(
                    setter.cls.name,
                    attr,
                    f"{recv}.{f} not persisted after last store",
                    setter.where,
                    f"backing field {recv}.{f} is stored but on some normal path no persistence call "
                    f"covering it follows the last store (persist routes seen: {routes or 'none'})",
                    resolved_on=K.name,
                    store_lines=summ.witness.get((recv, f), [])[:6],
                    path_to_exit=path[:12],
                )
            # W1b: a domain setter must have an effect on some path
            if not summ.has_effect and not _is_noop_by_design(setter):
                res.find(
                    setter.cls.name,
                    attr,
                    "setter has no store, delegation or persistence on any path",
                    setter.where,
                    "setter of a persisted (or metadata-derived) attribute neither stores, delegates nor persists",
                    resolved_on=K.name,
                )
    # W1m: public methods (not accessors) that store persisted backing fields directly owe the same persistence
    n_methods = 0
    seen_m = set()
    for K in families(ctx):
        if K.synthetic or _declared_abstract(ctx.p, K) or component_domain(K) is not None or K.name == "Workspace":
            continue
        for c in K.mro:
            if isinstance(c, str):
                continue
            for name, fn in c.methods.items():
                if name.startswith("_") or K.lookup(name)[2] is not fn:
                    continue
                summ = eng.analyse(fn, K)
                # its own stores and those of the helper methods it hands the work to (not of the setters it assigns through)
                own_stores = {f for (r, f) in _transitive_effects(eng, fn, K)[0] if r == "self" and f in eng.persisted_fields(K)}
                if not own_stores:
                    continue
                n_methods += 1
                dirty = {(r, f) for (r, f) in summ.dirty if f not in DEFERRED_FIELDS and not _none_asserted(fn, f)}
                res.inst(f"{K.name}.{name} (method) stores {sorted(own_stores)}", nontrivial=True, ok=not dirty)
                for recv, f in sorted(dirty):
                    res.find(fn.cls.name, name, f"{recv}.{f} not persisted after last store", fn.where,
                             f"method {fn.qualname} stores the persisted field {f} directly and a normal path reaches the exit without a "
                             "persistence call covering it: memory and file differ after the call", resolved_on=K.name)
    res.notes.append(f"{n_methods} (class, method) pairs store persisted fields outside setters")
    # mutators of component objects that are not setters
    rvm = ctx.p.cls("ReferenceValueMap")
    for name, fn in rvm.methods.items():
        if name in ("__init__",):
            continue
        summ = eng.analyse(fn, rvm)
        if summ.stores & {("self", "_map")}:
            res.inst(f"ReferenceValueMap.{name} (mutator)", nontrivial=True, ok=not summ.dirty)
            for recv, f in sorted(summ.dirty):
                res.find(
                    "ReferenceValueMap", name, f"{recv}.{f} not persisted after last store", fn.where,
                    "in-place edit of the value map is never handed to the writer",
                )
    res.notes.append(f"{len(distinct_setters)} distinct setter functions analysed")
    if len(distinct_setters) < 70:
        raise AnalysisError(f"C03.W1: only {len(distinct_setters)} distinct setters found (floor 70)")
    res.unresolved = eng.unresolved
    return res


# concatenated attribute records / property-group id list are written back at close() when workspace.repack is set (C04.DEFER)
DEFERRED_FIELDS = {"_concatenated_attributes", "_property_group_ids", "_attributes_keys"}


def _none_asserted(fn, fld) -> bool:
    """The method only proceeds when `self.<fld> is None` (an assert or a raising guard, whatever its spelling): a default
    initialisation, recomputed identically on every load."""
    sn = fn.self_name or "self"
    return _no_normal_exit_when(fn, {f"notnone:{sn}.{fld}": True})


def _is_noop_by_design(setter) -> bool:
    body = [s for s in setter.node.body if not (isinstance(s, ast.Expr) and isinstance(s.value, ast.Constant))]
    return not body or all(isinstance(s, ast.Pass) for s in body)


def update_attribute_sites(ctx):
    """Every call `<...>.update_attribute(E, ...)` in the package with its
    enclosing function and class."""
    out = []
    for fn in ctx.p.all_functions():
        for n in ast.walk(fn.node):
            if isinstance(n, ast.Call) and isinstance(n.func, ast.Attribute) and n.func.attr == "update_attribute":
                out.append((fn, n))
    return out


def rule_w2(ctx) -> RuleResult:
    res = RuleResult(
        "C03.W2",
        "C03",
        "the route string of every persistence call reaches a writer branch: array routes are KEY_MAP keys and "
        "the receiver class has both the property and the `_route` field the writer reads; dispatcher lists, "
        "KEY_MAP and attribute maps agree",
        floor=60,
    )
    eng = engine(ctx)
    t = eng.t
    p = ctx.p
    # table self-consistency
    for r in t.array_routes + t.value_routes:
        ok = r in t.key_map
        res.inst(f"dispatcher route {r!r} in KEY_MAP", ok=ok)
        if not ok:
            res.find("H5Writer", "update_field", f"route {r} missing from KEY_MAP", t.writer.methods["update_field"].where,
                     f"dispatcher route {r!r} is not a KEY_MAP key: write_array_attribute/write_data_values raises KeyError")
    # every dataset key of KEY_MAP that some class exposes as a settable property must be dispatched
    for k in t.dataset_keys:
        owners = [c for c in p.classes if not c.synthetic and k in c.props and c.props[k].setter is not None]
        if owners and k not in t.routes and k not in ("property_groups", "color_map"):
            res.find("H5Writer", "update_field", f"KEY_MAP key {k} has no dispatcher branch", t.writer.methods["update_field"].where,
                     f"{k} is settable on {[c.name for c in owners][:3]} but update_field sends it to write_attributes")
    for fn, call in update_attribute_sites(ctx):
        recv, a1 = gateway_args(p, call)
        if recv is None or a1 is None:
            continue
        routes_here = route_values(p, fn, a1, at=call)
        recv = expanded(recv, fn.node)
        by_self = isinstance(recv, ast.Name) and recv.id == fn.self_name and fn.cls is not None
        sites = []  # (label, where, classes, routes)
        if routes_here is not None:
            sites.append((f"{fn.qualname}:{call.lineno}", f"{fn.module.relpath}:{call.lineno}", list(p.subclasses(fn.cls)) if by_self else [], routes_here))
        elif by_self:
            # the route is a parameter of a helper: the obligation lives at every call of the helper, with the route it hands over
            for other, c2, rs in _routes_from_callers(eng, fn, call):
                if rs is None:
                    res.instances.append(f"{other.qualname}:{c2.lineno} dynamic route through {fn.name}")
                else:
                    sites.append((f"{other.qualname}:{c2.lineno} (through {fn.name})", f"{other.module.relpath}:{c2.lineno}", list(p.subclasses(other.cls)), rs))
        if not sites:
            res.instances.append(f"{fn.qualname}:{call.lineno} dynamic route {unparse(a1)}")
            continue
        for label, where, classes, route in [(lb, wh, cl, r) for lb, wh, cl, rs in sites for r in rs]:
            ok = True
            if route in t.array_routes and not has_gateway_kw(p, call, "channel") and not has_gateway_kw(p, call, "values"):
                for K in classes:
                    m = K.lookup(route)
                    # only classes on which this function is the one reached
                    if m is None or m[1] != "prop":
                        # function might be defined on a base that does not own the property (not the case today)
                        continue
                    has_field = _has_init_field(K, "_" + route)
                    if not has_field:
                        ok = False
                        res.find(fn.cls.name, fn.name, f"route {route}: class {K.name} has no field _{route}", where,
                                 f"write_array_attribute reads getattr(entity, '_{route}') but {K.name} never defines it")
            elif route not in t.routes and route not in ("attributes", "index", "data"):
                # falls to write_attributes: legitimate only as a spelling of 'attributes'
                res.notes.append(f"{where}: route {route!r} is not a dispatcher route (falls through to write_attributes)")
            res.inst(f"{label} route={route!r}", ok=ok)
    # the array branch must evaluate the public getter before it reads the backing field: setters such as Curve.parts
    # null the backing field and rely on the getter to recompute it at write time
    wa = t.writer.methods["write_array_attribute"]
    ok = _getter_before_backing_field(ctx, wa)
    res.inst("write_array_attribute evaluates the public getter before reading the private backing field", nontrivial=True, ok=ok)
    if not ok:
        res.find("H5Writer", "write_array_attribute", "backing field read without evaluating the public getter first", wa.where,
                 "setters that reset the backing field and rely on the lazy getter to recompute it (Curve.parts -> cells) now delete the "
                 "dataset and write nothing: the file loses the array while memory has it")
    # W2b: a setter that stores its own backing field and persists through the write_attributes fallback
    # needs a map entry for that attribute, otherwise the persistence call writes everything but this value
    for K in families(ctx):
        amap_vals = set((p.attribute_map(K) or {}).values())
        seen = set()
        for c in K.mro:
            if isinstance(c, str):
                continue
            for name, pr in c.props.items():
                if name in seen:
                    continue
                seen.add(name)
                st = pr.setter
                if st is None or name in IDENTITY:
                    continue
                stores_t, persists_t = _transitive_effects(eng, st, K)
                own = ("self", "_" + name) in stores_t
                fallback = [r for (rv, r) in persists_t if rv == "self" and r is not None and r not in t.routes]
                if not (own and fallback):
                    continue
                ok = name in amap_vals or name in NOT_PERSISTED_BY_DESIGN
                res.inst(f"{K.name}.{name}: setter persists via {fallback[0]!r}; attribute mapped: {name in amap_vals}", ok=ok)
                if name in NOT_PERSISTED_BY_DESIGN and name not in amap_vals:
                    note = f"{st.qualname}: {NOT_PERSISTED_BY_DESIGN[name]}"
                    if note not in res.notes:
                        res.notes.append(note)
                if not ok:
                    res.find(st.cls.name, name, f"persists _{name} via {fallback[0]!r} but {name} is not in the attribute map",
                             st.where,
                             f"{st.qualname} stores self._{name} and calls update_attribute(self, {fallback[0]!r}); that route rewrites the "
                             f"attributes named in {K.name}'s attribute map, which does not contain {name!r}: the value is never written",
                             resolved_on=K.name)
    return res


def _attr_name_kind(e, attr_p):
    """'pub' when the expression is the attribute name itself, 'priv' when it is "_" + the attribute name (any spelling:
    f-string, concatenation, str.format, %-format), else None."""
    if isinstance(e, ast.Name):
        return "pub" if e.id == attr_p else None

    def is_attr(x):
        return isinstance(x, ast.Name) and x.id == attr_p

    if isinstance(e, ast.Call) and isinstance(e.func, ast.Name) and e.func.id == "str" and len(e.args) == 1 and is_attr(e.args[0]):
        return "pub"
    if isinstance(e, ast.JoinedStr):
        parts = [v for v in e.values if not (isinstance(v, ast.Constant) and v.value == "")]
        if len(parts) == 1 and isinstance(parts[0], ast.FormattedValue) and is_attr(parts[0].value):
            return "pub"
        if len(parts) == 2 and isinstance(parts[0], ast.Constant) and parts[0].value == "_" and isinstance(parts[1], ast.FormattedValue) \
                and is_attr(parts[1].value):
            return "priv"
        return None
    if isinstance(e, ast.BinOp) and isinstance(e.op, ast.Add) and isinstance(e.left, ast.Constant) and e.left.value == "_" \
            and _attr_name_kind(e.right, attr_p) == "pub":
        return "priv"
    if isinstance(e, ast.BinOp) and isinstance(e.op, ast.Mod) and isinstance(e.left, ast.Constant) and e.left.value == "_%s":
        r = e.right.elts[0] if isinstance(e.right, ast.Tuple) and len(e.right.elts) == 1 else e.right
        return "priv" if is_attr(r) else None
    if isinstance(e, ast.Call) and isinstance(e.func, ast.Attribute) and e.func.attr == "format" and isinstance(e.func.value, ast.Constant) \
            and e.func.value.value in ("_{}", "_{0}") and len(e.args) == 1 and is_attr(e.args[0]):
        return "priv"
    return None


def _getter_before_backing_field(ctx, wa) -> bool:
    """In H5Writer.write_array_attribute (helpers expanded): the private backing field `_<attribute>` of the entity is read,
    only through getattr, and every path from the entry to such a read evaluates the public getter `<attribute>` first."""
    v = ctx.view(wa)
    if len(wa.params) < 4:
        raise AnalysisError("H5Writer.write_array_attribute: unexpected signature")
    ent_p, attr_p = wa.params[2], wa.params[3]
    defs = single_assignments(v.node)

    def reads(kind):
        def pred(c):
            if not (isinstance(c.func, ast.Name) and c.func.id == "getattr" and len(c.args) >= 2):
                return False
            if unparse(expanded(c.args[0], v.node, defs)) != ent_p:
                return False
            return _attr_name_kind(expanded(c.args[1], v.node, defs), attr_p) == kind
        return pred

    for x in ast.walk(v.node):
        # the instance dictionary read directly: no getter can have run
        if isinstance(x, ast.Attribute) and x.attr == "__dict__":
            return False
        if isinstance(x, ast.Call) and isinstance(x.func, ast.Name) and x.func.id == "vars":
            return False
    g = CFG(v.node)
    priv_nodes = [n for n in g.nodes if has_call(n, reads("priv"))]
    if not priv_nodes:
        return False
    pub = reads("pub")
    free = reach(g, [g.entry], avoid=lambda n: has_call(n, pub))
    return all(has_call(n, pub) or n not in free for n in priv_nodes)


def _transitive_effects(eng, fn, K, _stack=()):
    """(stores, persists) of a function resolved on K, the helper methods it delegates to included (not the setters of other
    attributes): {(receiver, field)}, [(receiver, route)] — a store or a persistence call moved into a helper is still the setter's."""
    key = ("transitive", fn, K)
    if key in eng._memo:
        return eng._memo[key]
    if fn in _stack or len(_stack) > eng.max_depth:
        return set(), []
    stores, persists = set(), []
    g = eng.cfg(fn)
    aliases = eng._aliases(fn, K)
    for n in g.nodes:
        if n.kind in ("entry", "exit", "rexit", "withexit", "break", "continue", "def", "except") or n.ast is None or isinstance(n.ast, list):
            continue
        for ev in eng.events(fn, K, n.ast, aliases):
            if ev[0] == "store":
                stores.add((ev[1], ev[2]))
            elif ev[0] == "persist":
                if (ev[1], ev[2]) not in persists:
                    persists.append((ev[1], ev[2]))
            elif ev[0] == "call":
                if ev[1].kind == "setter" and ev[1].prop != fn.prop:
                    continue  # another attribute's setter: its store and its persistence call are that attribute's business
                s2, p2 = _transitive_effects(eng, ev[1], K, _stack + (fn,))
                stores |= s2
                persists += [x for x in p2 if x not in persists]
    eng._memo[key] = (stores, persists)
    return eng._memo[key]


def _routes_from_callers(eng, helper, gateway_call):
    """[(caller, call, routes | None)] for a helper whose persistence call takes a route that depends on the helper's parameters
    (directly, through a built name or a table): every call `self.<helper>(...)` / `super().<helper>(...)` in the class family,
    with the constant route(s) the persistence call gets once the helper is specialised on the constants handed over there."""
    p = eng.p
    out = []
    for other in p.all_functions():
        if other.cls is None or other is helper or not (helper.cls in other.cls.mro or other.cls in helper.cls.mro):
            continue
        sn = other.self_name or "self"
        for c in ast.walk(other.node):
            if not (isinstance(c, ast.Call) and isinstance(c.func, ast.Attribute) and c.func.attr == helper.name):
                continue
            ch = chain(c.func)
            if not ch or ch[0] not in (sn, "cls", "super()"):
                continue
            spec = eng._specialise(other, helper, c)
            routes = None
            if spec is not helper:
                for g2 in ast.walk(spec.node):
                    if isinstance(g2, ast.Call) and isinstance(g2.func, ast.Attribute) and g2.func.attr == "update_attribute" \
                            and (g2.lineno, g2.col_offset) == (gateway_call.lineno, gateway_call.col_offset):
                        r2 = gateway_args(p, g2)[1]
                        routes = route_values(p, spec, r2, at=g2) if r2 is not None else None
            out.append((other, c, routes))
    return out


# in-memory knobs whose setters call update_attribute although the format has no slot for them
NOT_PERSISTED_BY_DESIGN = {
    "default_collocation_distance": "in-memory tolerance of Drillhole, not part of the geoh5 format; the persistence call is a harmless no-op",
}


def _has_init_field(K, fld) -> bool:
    for c in K.mro:
        if isinstance(c, str):
            continue
        for fn in list(c.methods.values()):
            for n in ast.walk(fn.node):
                if isinstance(n, ast.Attribute) and n.attr == fld and isinstance(n.ctx, ast.Store):
                    return True
        for pr in c.props.values():
            for f in (pr.getter, pr.setter):
                if f is None:
                    continue
                for n in ast.walk(f.node):
                    if isinstance(n, ast.Attribute) and n.attr == fld and isinstance(n.ctx, ast.Store):
                        return True
        if fld in c.class_assigns:
            return True
    return False


def rule_w3(ctx) -> RuleResult:
    res = RuleResult(
        "C03.W3",
        "C03",
        "the first argument of every update_attribute call is an object the gateway accepts: a class that has "
        "`on_file` and is covered by H5Writer.fetch_handle's hierarchy table",
        floor=60,
    )
    p = ctx.p
    hier = _hierarchy_classes(ctx)
    for fn, call in update_attribute_sites(ctx):
        recv = gateway_args(p, call)[0]
        if recv is None:
            continue
        recv = expanded(recv, fn.node)
        where = f"{fn.module.relpath}:{call.lineno}"
        classes = None
        if isinstance(recv, ast.Name) and recv.id == fn.self_name and fn.cls is not None:
            classes = [c for c in p.subclasses(fn.cls) if not _declared_abstract(p, c)]
        elif isinstance(recv, ast.Name):
            classes = _param_classes(p, fn, recv.id)
        if not classes:
            res.inst(f"{fn.qualname}:{call.lineno} receiver {unparse(recv)} (type not resolved)")
            res.unresolved.append(where)
            continue
        ok = True
        for K in classes:
            has_on_file = K.lookup("on_file") is not None
            in_hier = any(h in K.mro for h in hier)
            if not (has_on_file and in_hier):
                ok = False
                res.find(
                    fn.cls.name if fn.cls else fn.module.short, fn.prop or fn.name,
                    f"update_attribute receiver {unparse(recv)} is a {K.name}", where,
                    f"{K.name} has {'no ' if not has_on_file else ''}on_file and is "
                    f"{'not ' if not in_hier else ''}covered by fetch_handle: the call raises or writes nothing "
                    "after the in-memory change",
                )
        res.inst(f"{fn.qualname}:{call.lineno} receiver {unparse(recv)}", nontrivial=False, ok=ok)
    return res


def _declared_abstract(p, c) -> bool:
    return p.is_abstract(c) or any(b == "ABC" for b in c.bases if isinstance(b, str))


def _hierarchy_classes(ctx):
    p = ctx.p
    fh = p.cls("H5Writer").methods.get("fetch_handle")
    if fh is None:
        raise AnalysisError("anchor H5Writer.fetch_handle not found")
    view = ctx.view(fh)

    def cls_of(k):
        if isinstance(k, (ast.Name, ast.Attribute)):
            r = p.resolve_expr(fh.module, k)
            if r and r[0] == "class":
                return r[1]
        return None

    def is_str(v):
        return isinstance(v, ast.Constant) and isinstance(v.value, str)

    def pairs_of(lit):
        """[(class, container name)] when the literal is a table from entity classes to container names."""
        prs = None
        if isinstance(lit, ast.Dict) and lit.keys and all(k is not None for k in lit.keys):
            prs = list(zip(lit.keys, lit.values))
        elif isinstance(lit, (ast.List, ast.Tuple)) and lit.elts and all(isinstance(e, (ast.Tuple, ast.List)) and len(e.elts) == 2 for e in lit.elts):
            prs = [(e.elts[0], e.elts[1]) for e in lit.elts]
        if not prs or not all(is_str(v) and cls_of(k) is not None for k, v in prs):
            return None
        return [(cls_of(k), v.value) for k, v in prs]

    # the table: a literal {<class>: "<container name>"} / ((<class>, "<name>"), ...) used by the function or one of its
    # helpers — written in place, bound to a local, or hoisted to module / class level (whatever it is called)
    lits = [n for n in ast.walk(view.node) if isinstance(n, (ast.Dict, ast.List, ast.Tuple))]
    bound = {a.arg for a in ast.walk(view.node) if isinstance(a, ast.arg)} | {
        n.id for n in ast.walk(view.node) if isinstance(n, ast.Name) and isinstance(n.ctx, ast.Store)}
    for n in ast.walk(view.node):
        if isinstance(n, ast.Name) and isinstance(n.ctx, ast.Load) and n.id not in bound:
            r = p.resolve_name(fh.module, n.id)
            if r and r[0] == "assign" and isinstance(r[1][1], (ast.Dict, ast.List, ast.Tuple)):
                lits.append(r[1][1])
        elif isinstance(n, ast.Attribute) and isinstance(n.value, ast.Name) and n.value.id in ("cls", "self", fh.cls.name):
            m = fh.cls.lookup(n.attr)
            if m and m[1] == "assign" and isinstance(m[2], (ast.Dict, ast.List, ast.Tuple)):
                lits.append(m[2])
    out = []
    for lit in lits:
        for c, _name in pairs_of(lit) or []:
            if c not in out:
                out.append(c)
    if len(out) < 6:
        # the same table spelt as a chain of tests: `if isinstance(entity, <class>): ... "<container name>" ...`
        ent_p = fh.params[2] if len(fh.params) > 2 else None
        defs = single_assignments(view.node)
        chain_cls = []
        for n in ast.walk(view.node):
            if not (isinstance(n, ast.If) and isinstance(n.test, ast.Call) and isinstance(n.test.func, ast.Name)
                    and n.test.func.id == "isinstance" and len(n.test.args) == 2):
                continue
            if unparse(expanded(n.test.args[0], view.node, defs)) != ent_p:
                continue
            c = cls_of(n.test.args[1])
            if c is not None and any(is_str(x) for st in n.body for x in ast.walk(st)) and c not in chain_cls:
                chain_cls.append(c)
        # a class tested only to pick an intermediate container ("Types") is a base of the classes of the table proper
        out = [c for c in chain_cls if not any(o is not c and c in o.mro for o in chain_cls)]
    if len(out) < 6:
        raise AnalysisError("H5Writer.fetch_handle: hierarchy table not recognised")
    ctx.cache["hierarchy"] = out
    return out


def _param_classes(p, fn, name):
    a = fn.node.args
    for arg in a.posonlyargs + a.args + a.kwonlyargs:
        if arg.arg == name and arg.annotation is not None:
            out = []
            for n in ast.walk(arg.annotation):
                if isinstance(n, ast.Name):
                    r = p.resolve_name(fn.module, n.id)
                    if r and r[0] == "class":
                        out.append(r[1])
                elif isinstance(n, ast.Constant) and isinstance(n.value, str):
                    r = p.resolve_name(fn.module, n.value.split(".")[-1])
                    if r and r[0] == "class":
                        out.append(r[1])
            return out
    return None


FORWARDING = {"update_field", "update_concatenated_field", "update_attributes"}


def _writer_ref(e) -> bool:
    """The expression denotes one of the forwarding writer functions whatever it evaluates to: a plain reference, a
    conditional expression between two of them, a pick from a literal table of them."""
    if isinstance(e, (ast.Attribute, ast.Name)):
        return (e.attr if isinstance(e, ast.Attribute) else e.id) in FORWARDING
    if isinstance(e, ast.IfExp):
        return _writer_ref(e.body) and _writer_ref(e.orelse)
    if isinstance(e, ast.Subscript) and isinstance(e.value, ast.Dict) and e.value.values:
        return all(_writer_ref(v) for v in e.value.values)
    if isinstance(e, ast.Call) and isinstance(e.func, ast.Attribute) and e.func.attr == "get" and isinstance(e.func.value, ast.Dict) and e.func.value.values:
        return all(_writer_ref(v) for v in e.func.value.values) and all(_writer_ref(a) for a in e.args[1:2]) and len(e.args) == 2
    return False


def _forwards_pred(ctx, fn, ent, attr, must, depth=0):
    """Predicate on calls of `fn` (a normalised view): the call hands (ent, attr) unchanged to a writer — directly
    (`<concatenator>.update_attributes(ent, attr)`), through a wrapper given the writer function first
    (`self._io_call(H5Writer.update_field, ent, attr, ...)`), or through a method of the same class that could not be
    expanded in place and forwards its corresponding parameters on every normal path (`must`) / on some path (not `must`)."""
    defs = single_assignments(fn.node)

    def text(e):
        return unparse(expanded(e, fn.node, defs))

    def pred(c):
        pos = [text(a) for a in c.args if not isinstance(a, ast.Starred)]
        kws = {k.arg: text(k.value) for k in c.keywords if k.arg is not None}
        fname = c.func.attr if isinstance(c.func, ast.Attribute) else getattr(c.func, "id", "")
        if fname not in FORWARDING:
            if c.args and not isinstance(c.args[0], ast.Starred) and _writer_ref(expanded(c.args[0], fn.node, defs)):
                pos = pos[1:]  # the writer function travels as the first argument of a wrapper
            else:
                return _helper_forwards(c, pos, kws)
        if pos[:2] == [ent, attr]:
            return True
        return (pos[:1] == [ent] or ent in kws.values()) and attr in kws.values() and len(pos) <= 1

    def _helper_forwards(c, pos, kws):
        if depth >= 2 or fn.cls is None or not (isinstance(c.func, ast.Attribute) and isinstance(c.func.value, ast.Name)
                                                and c.func.value.id in ("self", "cls", fn.self_name or "")):
            return False
        m = fn.cls.lookup(c.func.attr)
        if not (m and m[1] == "method") or m[2].node is fn.node:
            return False
        callee = m[2]
        a = callee.node.args
        names = [x.arg for x in a.posonlyargs + a.args]
        if callee.kind != "staticmethod":
            names = names[1:]
        bound = dict(zip(names, pos))
        bound.update({k: v for k, v in kws.items() if k in names or k in {x.arg for x in a.kwonlyargs}})
        e2 = [k for k, v in bound.items() if v == ent]
        a2 = [k for k, v in bound.items() if v == attr]
        if len(e2) != 1 or len(a2) != 1:
            return False
        rebound = {x.id for x in ast.walk(callee.node) if isinstance(x, ast.Name) and isinstance(x.ctx, (ast.Store, ast.Del))}
        if e2[0] in rebound or a2[0] in rebound:
            return False
        cv = ctx.view(callee)
        sub = _forwards_pred(ctx, cv, e2[0], a2[0], must, depth + 1)
        g = CFG(cv.node)
        hits = [n for n in g.nodes if has_call(n, sub)]
        if not must:
            return bool(hits)
        return bool(hits) and g.exit not in reach(g, [g.entry], avoid=lambda n: has_call(n, sub))

    return pred


def rule_w4(ctx) -> RuleResult:
    res = RuleResult(
        "C03.W4",
        "C03",
        "Workspace.update_attribute forwards (entity, attribute) unchanged to a writer on every path where "
        "entity.on_file; write_entity / write_entity_type set on_file = True on every path that returns a node; "
        "add_save_concatenated sets it for concatenated entities",
        floor=4,
    )
    p = ctx.p
    ua0 = p.func("Workspace.update_attribute")
    if len(ua0.params) < 3:
        raise AnalysisError("Workspace.update_attribute: unexpected signature")
    ent, attr = ua0.params[1], ua0.params[2]
    # 1. the decision to forward depends on entity.on_file only, and when it is set every path forwards (entity, attribute).
    #    Decided on paths (helpers expanded, conditions alias-expanded, branches pruned by the truth of entity.on_file),
    #    so nested `if`, guard clause with early return, flipped branches and extracted helpers all read the same.
    ua = ctx.view(ua0)
    g = CFG(_with_expanded_tests(ua.node))
    may_fwd = _forwards_pred(ctx, ua, ent, attr, must=False)
    must_fwd = _forwards_pred(ctx, ua, ent, attr, must=True)

    def is_fwd(n):
        return has_call(n, must_fwd)

    on_file = f"{ent}.on_file"
    consulted = any(isinstance(x, ast.Attribute) and unparse(x) == on_file for n in g.nodes if n.kind == "test" for x in ast.walk(n.ast))
    off = reach(g, [g.entry], ent, {"truthy:" + on_file: False})
    ok = consulted and not any(has_call(n, may_fwd) for n in off)
    res.inst("update_attribute gated by entity.on_file only", ok=ok)
    if not ok:
        res.find("Workspace", "update_attribute", "gate is not `if entity.on_file:`", ua0.where,
                 "the write-through gate changed shape; persistence may be skipped for stored entities")
    else:
        on = reach(g, [g.entry], ent, {"truthy:" + on_file: True}, avoid=is_fwd)
        ok2 = g.exit not in on
        res.inst("every on_file path forwards (entity, attribute) to a writer", nontrivial=True, ok=ok2)
        if not ok2:
            res.find("Workspace", "update_attribute", "a path does not forward (entity, attribute)", ua0.where,
                     "some path through the on_file branch reaches the end without calling update_field / "
                     "update_concatenated_field / Concatenator.update_attributes with the unchanged arguments")

    def sets_on_file(fn_node, fdefs, var):
        """transfer function: True after `<var>.on_file = True` (through any alias of <var>; setattr spelling included)"""
        def is_var(e):
            return unparse(expanded(e, fn_node, fdefs)) == var

        def is_true(e):
            e = expanded(e, fn_node, fdefs)
            return isinstance(e, ast.Constant) and e.value is True

        def transfer(node, st):
            if node.kind != "stmt" or node.ast is None:
                return st
            a = node.ast
            if isinstance(a, (ast.Assign, ast.AnnAssign)) and a.value is not None and is_true(a.value):
                for t in (a.targets if isinstance(a, ast.Assign) else [a.target]):
                    if isinstance(t, ast.Attribute) and t.attr == "on_file" and is_var(t.value):
                        return True
            if isinstance(a, ast.Expr) and isinstance(a.value, ast.Call) and isinstance(a.value.func, ast.Name) and a.value.func.id == "setattr" \
                    and len(a.value.args) == 3 and is_var(a.value.args[0]) and isinstance(a.value.args[1], ast.Constant) \
                    and a.value.args[1].value == "on_file" and is_true(a.value.args[2]):
                return True
            return st
        return transfer

    # 2. on_file = True before every node-returning return of write_entity / write_entity_type
    for spec in ("H5Writer.write_entity", "H5Writer.write_entity_type"):
        fn0 = p.func(spec)
        if len(fn0.params) < 3:
            raise AnalysisError(f"{spec}: unexpected signature")
        var = fn0.params[2]
        fn = ctx.view(fn0)
        g = CFG(fn.node)
        IN = forward(g, False, sets_on_file(fn.node, single_assignments(fn.node), var), lambda a, b: a and b)
        for node in g.nodes:
            if node.kind == "return" and node.ast is not None and unparse(node.ast) != "None":
                ok3 = IN.get(node) is True
                res.inst(f"{spec}: return at line {node.lineno} preceded by {var}.on_file = True", nontrivial=True, ok=ok3)
                if not ok3:
                    res.find("H5Writer", fn0.name, f"return {unparse(node.ast)[:40]} without {var}.on_file = True", fn0.where,
                             "a stored entity keeps on_file False: every later setter silently skips persistence",
                             line=node.lineno)
    # 3. concatenated path
    fn0 = p.func("Concatenator.add_save_concatenated")
    fn = ctx.view(fn0)
    g = CFG(fn.node)
    child = fn0.params[1]
    IN = forward(g, False, sets_on_file(fn.node, single_assignments(fn.node), child), lambda a, b: a and b)
    ok4 = IN.get(g.exit) is True
    res.inst("Concatenator.add_save_concatenated sets child.on_file = True on all normal paths", nontrivial=True, ok=ok4)
    if not ok4:
        res.find("Concatenator", "add_save_concatenated", "child.on_file = True not on all paths", fn0.where,
                 "a saved concatenated entity keeps on_file False and later setters skip persistence")
    return res


def rule_spec(ctx) -> RuleResult:
    res = RuleResult(
        "C03.SPEC",
        "C03",
        "every attribute the format document lists for data types is a key of DataType's attribute map "
        "(so that the setter's 'attributes' route writes it and the loader has a slot for it)",
        floor=5,
    )
    doc = FormatDoc(ctx.p.repo, ctx.p.overlay)
    dt = ctx.p.cls("DataType", "data.data_type")
    amap = ctx.p.attribute_map(dt) or {}
    attrs = doc.section_attributes("Data Types")
    if len(attrs) < 5:
        raise AnalysisError("format document: data type attribute list not found")
    for a in attrs:
        prop = a.lower().replace(" ", "_")
        m = dt.lookup(prop)
        settable = bool(m and m[1] == "prop" and m[2].setter is not None)
        ok = a in amap or not settable
        res.inst(f"DataType documented attribute {a!r}", ok=ok)
        if not ok:
            res.find("DataType", prop, f"documented attribute {a} missing from _attribute_map", dt.where,
                     f"DataType.{prop} is assignable and its setter persists through 'attributes', but the map has no "
                     f"{a!r} entry: the value is never written and never read back")
    return res


def _receiver_classes(p, fn, rc):
    """Classes the receiver (alias-expanded text) can be an instance of, when that is decided by the code: `self`, a
    parameter annotated with package classes, an object built in place by a class of the package.  None when unknown."""
    try:
        e = ast.parse(rc, mode="eval").body
    except SyntaxError:
        return None
    if isinstance(e, ast.Name):
        if fn.cls is not None and e.id == fn.self_name:
            return list(p.subclasses(fn.cls))
        cs = _param_classes(p, fn, e.id)
        if cs:
            out = []
            for c in cs:
                out += [x for x in p.subclasses(c) if x not in out]
            return out
        return None
    if isinstance(e, ast.Call):
        r = p.resolve_expr(fn.module, e.func)
        if r and r[0] == "class":
            return list(p.subclasses(r[1]))
    return None


MUTATING_METHODS = {"sort", "fill", "put", "resize", "itemset", "update", "pop", "clear", "setdefault", "append", "extend", "remove", "insert"}


def rule_inplace(ctx) -> RuleResult:
    res = RuleResult(
        "C03.INPLACE",
        "C03",
        "library code never edits, in place, the object handed out by the getter of a persisted array / value attribute "
        "(values, vertices, cells, metadata, ... — the writer's value and array routes) without storing it back through "
        "the setter (or update_attribute) on every normal path: the getter returns the cached object, so an in-place edit "
        "changes memory only and the file keeps the old content",
        floor=3,
    )
    p = ctx.p
    t = engine(ctx).t
    # attributes whose persistence is deferred by design (flushed by the concatenator's save path: C04.DEFER decides those)
    routes = (set(t.value_routes) | set(t.array_routes)) - {f.lstrip("_") for f in DEFERRED_FIELDS}
    for fn in p.all_functions():
        reads = [n for n in ast.walk(fn.node) if isinstance(n, ast.Attribute) and n.attr in routes and isinstance(n.ctx, ast.Load)]
        if not reads:
            continue
        defs = single_assignments(fn.node)

        def canon(e, fn=fn, defs=defs):
            """text of a receiver with local aliases (`obj = child`) undone: two spellings of one object compare equal"""
            return unparse(expanded(e, fn.node, defs)) if defs else unparse(e)

        # aliases: name = <recv>.<route> (the getter's own object, no copy)
        alias = {}
        for n in ast.walk(fn.node):
            if isinstance(n, ast.Assign) and len(n.targets) == 1 and isinstance(n.targets[0], ast.Name):
                v = n.value
                # a part of the getter's object: <recv>.<route>[k] / <recv>.<route>.get(k, ...)
                while True:
                    if isinstance(v, ast.Subscript):
                        v = v.value
                    elif isinstance(v, ast.Call) and isinstance(v.func, ast.Attribute) and v.func.attr in ("get", "setdefault"):
                        v = v.func.value
                    else:
                        break
                if isinstance(v, ast.Attribute) and v.attr in routes and isinstance(v.ctx, ast.Load):
                    alias.setdefault(n.targets[0].id, []).append((unparse(v.value), v.attr, n.lineno, canon(v.value)))
        rebound = {}
        for n in ast.walk(fn.node):
            if isinstance(n, ast.Assign):
                for tg in n.targets:
                    if isinstance(tg, ast.Name) and tg.id in alias and not any(a[2] == n.lineno for a in alias[tg.id]):
                        rebound.setdefault(tg.id, []).append(n.lineno)

        def target_of(base, lineno):
            """(receiver text, route, canonical receiver text) if `base` denotes a getter's object."""
            while isinstance(base, ast.Call) and isinstance(base.func, ast.Attribute) and base.func.attr in ("get", "setdefault"):
                base = base.func.value
                while isinstance(base, ast.Subscript):
                    base = base.value
            if isinstance(base, ast.Attribute) and base.attr in routes:
                return unparse(base.value), base.attr, canon(base.value)
            if isinstance(base, ast.Name) and base.id in alias:
                cands = [a for a in alias[base.id] if a[2] < lineno]
                if not cands:
                    return None
                a = max(cands, key=lambda x: x[2])
                if any(a[2] < rb < lineno for rb in rebound.get(base.id, [])):
                    return None
                return a[0], a[1], a[3]
            return None

        g = None
        for st in ast.walk(fn.node):
            muts = []
            if isinstance(st, (ast.Assign, ast.AugAssign)):
                tgs = st.targets if isinstance(st, ast.Assign) else [st.target]
                for tg in tgs:
                    if isinstance(tg, ast.Subscript):
                        b = tg.value
                        while isinstance(b, ast.Subscript):
                            b = b.value
                        tt = target_of(b, st.lineno)
                        if tt:
                            muts.append((tt, unparse(tg)[:40]))
                    elif isinstance(st, ast.AugAssign) and isinstance(tg, ast.Name):
                        tt = target_of(tg, st.lineno)
                        if tt:
                            muts.append((tt, unparse(st)[:40]))
            elif isinstance(st, ast.Delete):
                for tg in st.targets:
                    if isinstance(tg, ast.Subscript):
                        b = tg.value
                        while isinstance(b, ast.Subscript):
                            b = b.value
                        tt = target_of(b, st.lineno)
                        if tt:
                            muts.append((tt, unparse(st)[:40]))
            elif isinstance(st, ast.Expr) and isinstance(st.value, ast.Call) and isinstance(st.value.func, ast.Attribute) \
                    and st.value.func.attr in MUTATING_METHODS:
                b = st.value.func.value
                while isinstance(b, ast.Subscript):
                    b = b.value
                tt = target_of(b, st.lineno)
                if tt:
                    muts.append((tt, unparse(st.value)[:40]))
            for (recv, route, rc), text in muts:
                if fn.kind in ("getter", "setter") and fn.prop == route and rc == (fn.self_name or "self"):
                    continue  # the accessor builds / normalises its own value
                owners = _receiver_classes(p, fn, rc)
                if owners is not None and not any((K.lookup(route) or (None, None))[1] == "prop" for K in owners):
                    continue  # a plain field that shares the attribute's name (an accumulator, a record): no getter hands it out
                if g is None:
                    g = CFG(fn.node)

                def stores(n, rc=rc, route=route):
                    a = n.ast
                    if a is None or isinstance(a, list):
                        return False
                    for x in ast.walk(a) if not isinstance(a, (ast.If, ast.For, ast.While, ast.With, ast.Try)) else []:
                        if isinstance(x, ast.Assign) and any(isinstance(tg, ast.Attribute) and tg.attr == route and canon(tg.value) == rc for tg in x.targets):
                            return True
                        if isinstance(x, ast.Call) and isinstance(x.func, ast.Name) and x.func.id == "setattr" and len(x.args) == 3 \
                                and isinstance(x.args[1], ast.Constant) and x.args[1].value == route and canon(x.args[0]) == rc:
                            return True
                        if isinstance(x, ast.Call) and isinstance(x.func, ast.Attribute) and x.func.attr in ("update_attribute", "save_attribute", "save_entity"):
                            first = gateway_args(p, x)[0] if x.func.attr == "update_attribute" else (x.args[0] if x.args else None)
                            if first is not None and (canon(first) == rc or x.func.attr == "save_attribute"):
                                return True
                    return False

                nodes = [n for n in g.nodes if n.stmt is st or n.ast is st]
                if not nodes:
                    continue
                ok = all(g.exit not in reach(g, [m for m, _ in n.succ], avoid=stores) for n in nodes)
                if not ok and fn.cls is not None and rc == (fn.self_name or "self"):
                    # a helper: every caller in the class family stores the attribute back after the call
                    callers = []
                    for other in p.all_functions():
                        if other.cls is None or other is fn or not (fn.cls in other.cls.mro or other.cls in fn.cls.mro):
                            continue
                        sn = other.self_name or "self"
                        calls = [c for c in ast.walk(other.node) if isinstance(c, ast.Call) and isinstance(c.func, ast.Attribute)
                                 and c.func.attr == fn.name and unparse(c.func.value) == sn]
                        if not calls:
                            continue
                        g2 = CFG(other.node)

                        def stores2(n, sn=sn, route=route):
                            a = n.ast
                            if a is None or isinstance(a, (list, ast.If, ast.For, ast.While, ast.With, ast.Try)):
                                return False
                            return any(isinstance(x, ast.Assign) and any(isinstance(tg, ast.Attribute) and tg.attr == route and unparse(tg.value) == sn for tg in x.targets)
                                       for x in ast.walk(a))

                        for c in calls:
                            cn = [n for n in g2.nodes if n.ast is not None and not isinstance(n.ast, list) and n.kind not in ("entry", "exit", "rexit")
                                  and not isinstance(n.ast, (ast.For, ast.While, ast.With, ast.Try)) and any(x is c for x in ast.walk(n.ast if not isinstance(n.ast, ast.If) else n.ast.test))]
                            callers.append(bool(cn) and all(g2.exit not in reach(g2, [m for m, _ in n.succ], avoid=stores2) for n in cn))
                    ok = bool(callers) and all(callers)
                res.inst(f"{fn.qualname}:{st.lineno} in-place edit of {recv}.{route} ({text})", nontrivial=True, ok=ok)
                if not ok:
                    res.find(fn.cls.name if fn.cls else fn.module.short, fn.name, f"in-place edit of {recv}.{route} is not stored back ({text})",
                             f"{fn.module.relpath}:{st.lineno}",
                             f"`{text}` edits the object returned by the {route} getter; no `{recv}.{route} = ...` / update_attribute follows on "
                             "every path, so the change stays in memory and is lost on reload")
    return res


def _domain_setters(ctx):
    """(class it was resolved on, attribute, setter) for every distinct setter function of the property's domain."""
    eng = engine(ctx)
    seen = set()
    for K in families(ctx):
        comp = component_domain(K)
        dom = comp if comp is not None else eng.domain(K)
        dom_all = set(dom) | (derived_props(ctx, K, dom) if comp is None else set())
        for attr in sorted(dom_all):
            m = K.lookup(attr)
            if not m or m[1] != "prop" or m[2].setter is None or m[2].setter in seen:
                continue
            seen.add(m[2].setter)
            yield K, attr, m[2].setter


def rule_skip(ctx) -> RuleResult:
    res = RuleResult(
        "C03.SKIP",
        "C03",
        "the only assigned value that may make the setter of a persisted attribute do nothing is None: no condition on the "
        "assigned value, other than `is None`, decides between a path that stores / delegates / persists and a normal "
        "path that does none of these (a silently ignored value stays neither in memory nor on file) — conditions on "
        "the entity's own state, and comparisons of the value with that state, are not concerned",
        floor=70,
    )
    eng = engine(ctx)
    for K, attr, setter in _domain_setters(ctx):
        if len(setter.params) < 2 or _is_noop_by_design(setter):
            continue
        val = setter.params[1]
        sn = setter.self_name or "self"
        g = CFG(_with_expanded_tests(eng.norm_node(setter)))
        aliases = eng._aliases(setter, K)
        pf = eng.persisted_fields(K)

        def effect(n, setter=setter, K=K, aliases=aliases):
            if n.kind in ("entry", "exit", "rexit", "withexit", "break", "continue", "def", "except") or n.ast is None or isinstance(n.ast, list):
                return False
            # resetting a cache (`self._centroids = None`) is not taking the value in
            return any(ev[0] != "store" or ev[1] != "self" or ev[2] in pf for ev in eng.events(setter, K, n.ast, aliases))

        facts = {"notnone:" + val: True}
        quiet = reach(g, [g.entry], val, facts, avoid=effect)  # reachable without any effect, the value not being None
        culprit = None
        if g.exit in quiet:
            for n in g.nodes:
                if n not in quiet or n.kind != "test":
                    continue
                names = {x.id for x in ast.walk(n.ast) if isinstance(x, ast.Name)}
                if val not in names or sn in names:
                    continue  # decided by the entity's state (or by the value against that state), not by the value alone
                if tv(n.ast, val, facts) is not None:
                    continue  # the `is None` idiom itself
                outs = {lab: m for m, lab in n.succ if lab in ("true", "false")}
                if len(outs) != 2:
                    continue
                silent = {lab: g.exit in reach(g, [m], val, facts, avoid=effect) for lab, m in outs.items()}
                acts = {lab: any(effect(x) for x in reach(g, [m], val, facts)) for lab, m in outs.items()}
                if any(silent[a] and acts[b] and not silent[b] for a, b in (("true", "false"), ("false", "true"))):
                    culprit = n
                    break
        res.inst(f"{setter.qualname}: no value other than None is silently ignored", nontrivial=True, ok=culprit is None)
        if culprit is not None:
            res.find(setter.cls.name, attr, "a value other than None makes the setter do nothing", setter.where,
                     f"the condition at line {culprit.lineno} depends on the assigned value and one of its branches returns normally "
                     "without storing, delegating or persisting while the other does: some valid value is accepted and dropped "
                     "(memory and file keep the previous value)", line=culprit.lineno, resolved_on=K.name)
    return res


def _root_name(e):
    """The local an access path starts from: h[k].get(x).create_group(y) -> h."""
    while True:
        if isinstance(e, (ast.Subscript, ast.Attribute)):
            e = e.value
        elif isinstance(e, ast.Call) and isinstance(e.func, ast.Attribute):
            e = e.func.value
        else:
            return e.id if isinstance(e, ast.Name) else None


def _handle_locals(fn_node, handles) -> set:
    """Locals that denote the entity's HDF5 node or something reached from it (sub-groups, whatever they are called)."""
    derived = set(handles)
    changed = True
    while changed:
        changed = False
        for n in ast.walk(fn_node):
            if isinstance(n, (ast.Assign, ast.AnnAssign)) and n.value is not None:
                tgs = n.targets if isinstance(n, ast.Assign) else [n.target]
                carried = []  # a record / tuple built around the node: DatasetTarget(handle, name), (handle, name)
                if isinstance(n.value, ast.Call):
                    carried = list(n.value.args) + [k.value for k in n.value.keywords]
                elif isinstance(n.value, (ast.Tuple, ast.List)):
                    carried = list(n.value.elts)
                if _root_name(n.value) in derived or any(isinstance(a, ast.Name) and a.id in derived for a in carried):
                    for t in tgs:
                        names = [t] if isinstance(t, ast.Name) else (list(t.elts) if isinstance(t, (ast.Tuple, ast.List)) else [])
                        for nm in names:
                            if isinstance(nm, ast.Name) and nm.id not in derived:
                                derived.add(nm.id)
                                changed = True
    return derived


def _removals(x, derived):
    """(handle expr, key expr) pairs a statement removes from the file: `del h[k]`, `h.pop(k, ...)`, `h.__delitem__(k)`."""
    out = []
    if isinstance(x, ast.Delete):
        out = [(t.value, t.slice) for t in x.targets if isinstance(t, ast.Subscript)]
    elif isinstance(x, (ast.Expr, ast.Assign)) and isinstance(x.value, ast.Call) and isinstance(x.value.func, ast.Attribute) \
            and x.value.func.attr in ("pop", "__delitem__") and x.value.args:
        out = [(x.value.func.value, x.value.args[0])]
    return [(h, k) for h, k in out if _root_name(h) in derived]


def _reach_tracking_objects(ctx, fn, g, starts, var, facts, avoid):
    """kinds.reach with one more kind of knowledge: locals that certainly hold an object (not None) at a point — bound there
    from a constructor of a package class (a NamedTuple / record built around the node found), a tuple / list / dict
    literal, a non-None constant, or a copy of such a local — on every feasible path.  `if target is None: return` after
    `target = DataTarget(handle, name)` is then as dead as `if handle is None: return` under the fact that the node was found.
    The facts given by the caller hold throughout; the tracked set is joined by intersection."""
    from collections import deque

    from ..kinds import feasible_succ

    p = ctx.p
    base = {k[len("notnone:"):] for k, v_ in facts.items() if k.startswith("notnone:") and v_ is True}

    def surely_object(e, st):
        if isinstance(e, (ast.Tuple, ast.List, ast.Dict, ast.Set, ast.JoinedStr)):
            return True
        if isinstance(e, ast.Constant):
            return e.value is not None
        if isinstance(e, ast.Name):
            return e.id in st or e.id in base
        if isinstance(e, ast.Call) and isinstance(e.func, (ast.Name, ast.Attribute)):
            r = p.resolve_expr(fn.module, e.func)
            return bool(r and r[0] == "class")
        return False

    def transfer(n, st):
        a = n.ast
        if a is None or isinstance(a, list):
            return st
        if n.kind == "stmt" and isinstance(a, (ast.Assign, ast.AnnAssign)) and a.value is not None:
            tgs = a.targets if isinstance(a, ast.Assign) else [a.target]
            if len(tgs) == 1 and isinstance(tgs[0], ast.Name):
                return (st | {tgs[0].id}) if surely_object(a.value, st) else (st - {tgs[0].id})
        src = a.items if n.kind == "with" else [a]
        bound = set()
        for s_ in src:
            for x in ast.walk(s_.optional_vars if n.kind == "with" and s_.optional_vars is not None else (s_ if n.kind != "with" else ast.Pass())):
                if isinstance(x, ast.Name) and isinstance(x.ctx, (ast.Store, ast.Del)):
                    bound.add(x.id)
        return st - bound if bound else st

    IN = {}
    work = deque()
    for s_ in starts:
        IN[s_] = frozenset()
        work.append(s_)
    while work:
        n = work.popleft()
        st = IN[n]
        if avoid(n):
            continue
        out = frozenset(transfer(n, set(st)))
        f2 = dict(facts)
        f2.update({"notnone:" + x: True for x in st})
        for m, _lab in feasible_succ(n, var, f2):
            if m not in IN:
                IN[m] = out
                work.append(m)
            else:
                j = IN[m] & out
                if j != IN[m]:
                    IN[m] = j
                    work.append(m)
    return {n for n in IN if not avoid(n)}


def rule_reset(ctx) -> RuleResult:
    res = RuleResult(
        "C03.RESET",
        "C03",
        "every dataset writer the dispatcher routes to (and the concatenated-field writer) addresses the stored dataset — "
        "deletes it, or tests its presence in order to delete it — on every normal path on which the entity's node is "
        "found, i.e. before it decides whether there is a new value to write: assigning None / an emptied attribute must "
        "not leave the previous dataset for the next reader",
        floor=5,
    )
    from ..roles import bound_from, is_call_to

    t = engine(ctx).t
    handlers = sorted({h for h in t.routes.values() if h in t.writer.methods}) + ["update_concatenated_field"]
    for h in handlers:
        fn0 = t.writer.methods.get(h)
        if fn0 is None:
            raise AnalysisError(f"anchor H5Writer.{h} not found")
        v = ctx.view(fn0)
        node = _with_expanded_tests(v.node)
        defs = single_assignments(node)
        g = CFG(node)
        handles = sorted(bound_from(node, lambda e: is_call_to(e, "fetch_handle")))
        if not handles:
            raise AnalysisError(f"H5Writer.{h}: the entity's node is not obtained through fetch_handle (anchor moved)")

        def X(e):
            return unparse(expanded(e, node, defs))

        derived = _handle_locals(node, handles)
        deleted = set()  # (handle text, key text) of every removal from the entity's node
        for x in ast.walk(node):
            for hx, kx in _removals(x, derived):
                deleted.add((X(hx), X(kx)))

        def is_delete(n):
            return n.kind == "stmt" and bool(_removals(n.ast, derived))

        def presence_test(n):
            """`<key> in <handle>` (or its negation) for a (handle, key) the function deletes, every path of the 'present'
            branch reaching the deletion"""
            if n.kind != "test":
                return False
            e, neg = n.ast, False
            while isinstance(e, ast.UnaryOp) and isinstance(e.op, ast.Not):
                e, neg = e.operand, not neg
            if not (isinstance(e, ast.Compare) and len(e.ops) == 1 and isinstance(e.ops[0], (ast.In, ast.NotIn))):
                return False
            if (X(e.comparators[0]), X(e.left)) not in deleted:
                return False
            present = "true" if (isinstance(e.ops[0], ast.In) != neg) else "false"
            starts = [m for m, lab in n.succ if lab == present]
            return bool(starts) and g.exit not in reach(g, starts, avoid=is_delete)

        def addresses_old(n):
            return is_delete(n) or presence_test(n)

        facts = {"notnone:" + nm: True for nm in handles}
        facts.update({"notnone:" + X(ast.Name(id=nm, ctx=ast.Load())): True for nm in handles})  # the conditions are alias-expanded
        ok = bool(deleted) and g.exit not in _reach_tracking_objects(ctx, fn0, g, [g.entry], handles[0], facts, avoid=addresses_old)
        res.inst(f"H5Writer.{h}: the stored dataset is removed on every path that finds the entity", nontrivial=True, ok=ok)
        if not ok:
            res.find("H5Writer", h, "a normal path leaves the stored dataset in place", fn0.where,
                     "some path on which the entity's node is found returns without deleting the dataset it would rewrite "
                     "(typically: the 'nothing to write' test comes first): assigning None leaves the old content on file")
    _reset_scalar_attributes(ctx, res, t)
    return res


def _self_members(e, sn) -> set:
    """Members of self an expression reads: self.x, getattr(self, "x"[, d]), hasattr(self, "x")."""
    out = set()
    for x in ast.walk(e):
        if isinstance(x, ast.Attribute) and isinstance(x.value, ast.Name) and x.value.id == sn:
            out.add(x.attr)
        elif isinstance(x, ast.Call) and isinstance(x.func, ast.Name) and x.func.id in ("getattr", "hasattr") and len(x.args) >= 2 \
                and isinstance(x.args[0], ast.Name) and x.args[0].id == sn and isinstance(x.args[1], ast.Constant) and isinstance(x.args[1].value, str):
            out.add(x.args[1].value)
    return out


def _shadowing_fields(ctx, getter, prop, domain) -> dict:
    """{other persisted attribute g: line of the deciding test} — the getter of `prop` has a condition that reads g (through
    the property or its backing field) and not `prop`'s own field, one branch of which answers without consulting the value
    stored for `prop` (returns something else, or overwrites the backing field first) while the other answers from it."""
    cache = ctx.cache.setdefault("c03_shadow", {})
    key = (getter, prop)
    if key in cache:
        return cache[key]
    sn = getter.self_name or "self"
    own = {prop, "_" + prop}
    v = ctx.view(getter)
    g = CFG(_with_expanded_tests(v.node))

    def reads_own(e):
        return bool(_self_members(e, sn) & own) if e is not None and not isinstance(e, list) else False

    def overwrites_own(n):
        a = n.ast
        if n.kind != "stmt" or not isinstance(a, (ast.Assign, ast.AnnAssign)) or a.value is None:
            return False
        tgs = a.targets if isinstance(a, ast.Assign) else [a.target]
        return any(isinstance(t, ast.Attribute) and isinstance(t.value, ast.Name) and t.value.id == sn and t.attr in own for t in tgs) \
            and not reads_own(a.value)

    def answers_without_own(start):
        seen, todo = set(), [start]
        while todo:
            n = todo.pop()
            if n in seen or n.kind in ("exit", "rexit"):
                continue
            seen.add(n)
            if overwrites_own(n):
                return True
            src = n.ast if n.kind != "with" else None
            if n.kind == "return" and n.ast is not None and not reads_own(n.ast):
                return True
            if src is not None and not isinstance(src, list) and n.kind in ("stmt", "test", "return", "assert", "foriter") and reads_own(src):
                continue  # from here on the answer may come from the stored value
            todo += [m for m, _ in n.succ]
        return False

    def shadow_candidates(ms):
        # another persisted attribute (through its property or its field), or any private field read directly (a cache)
        return ({m.lstrip("_") for m in ms} & (set(domain) - {prop})) | {m.lstrip("_") for m in ms if m.startswith("_") and m.lstrip("_") != prop}

    out = {}
    for n in g.nodes:
        if n.kind != "test":
            continue
        ms = _self_members(n.ast, sn)
        if ms & own:
            continue  # lazy loading / defaulting of the attribute itself
        others = shadow_candidates(ms)
        if not others:
            continue
        br = {lab: answers_without_own(m) for m, lab in n.succ if lab in ("true", "false")}
        if len(br) == 2 and br["true"] != br["false"]:
            for o in sorted(others):
                out.setdefault(o, n.lineno)
    # the same decision written as a conditional expression: `return 90.0 if self.vertical else self._dip`
    for x in ast.walk(v.node):
        if isinstance(x, ast.IfExp):
            ms = _self_members(x.test, sn)
            others = shadow_candidates(ms)
            if others and not (ms & own) and reads_own(x.body) != reads_own(x.orelse):
                for o in sorted(others):
                    out.setdefault(o, x.lineno)
    cache[key] = out
    return out


def _restores_with(eng, fn, K, fld, other, depth=0, _stack=()):
    """(violates, must) for `fn` resolved on K: `violates` — some normal path stores backing field `fld` and reaches the exit
    without storing `other` (directly, through `other`'s property setter, or in a helper that always does); `must` — every
    normal path stores `other`."""
    key = ("restores", fn, K, fld, other)
    if key in eng._memo:
        return eng._memo[key]
    if fn in _stack or depth > 3:
        return (False, False)
    g = eng.cfg(fn)
    aliases = eng._aliases(fn, K)
    m = K.lookup(other[1:])
    other_setter = m[2].setter if (m and m[1] == "prop") else None
    f_nodes, o_nodes, p_nodes, bad_call = set(), set(), set(), False
    for n in g.nodes:
        if n.kind in ("entry", "exit", "rexit", "withexit", "break", "continue", "def", "except") or n.ast is None or isinstance(n.ast, list):
            continue
        for ev in eng.events(fn, K, n.ast, aliases):
            if ev[0] == "store" and ev[1] == "self":
                if ev[2] == fld:
                    f_nodes.add(n)
                if ev[2] == other:
                    o_nodes.add(n)
            elif ev[0] == "persist":
                p_nodes.add(n)
            elif ev[0] == "call":
                if ev[1] is other_setter:
                    o_nodes.add(n)
                    continue
                if eng.analyse(ev[1], K).persists:
                    p_nodes.add(n)  # the writer runs in there: it reads the attribute through the getter
                sub_v, sub_m = _restores_with(eng, ev[1], K, fld, other, depth + 1, _stack + (fn,))
                if sub_m:
                    o_nodes.add(n)
                elif sub_v:
                    bad_call = True
    free = reach(g, [g.entry], avoid=lambda n: n in o_nodes)  # reached without `other` having been stored
    must = g.exit not in free
    violates = bad_call
    for n in f_nodes:
        if n in o_nodes:
            continue
        # `other` stored neither before (n reached freely) nor after: the exit — or a persistence call, at which the writer
        # reads the attribute through its getter — is reached freely from n
        if n in free:
            after = reach(g, [x for x, _ in n.succ], avoid=lambda y: y in o_nodes)
            if g.exit in after or any(x in after for x in p_nodes - o_nodes):
                violates = True
    eng._memo[key] = (violates, must)
    return eng._memo[key]


def rule_shadow(ctx) -> RuleResult:
    res = RuleResult(
        "C03.SHADOW",
        "C03",
        "when the getter of a persisted attribute P answers without consulting P's stored value because of a test on ANOTHER "
        "field G of the entity — a persisted attribute, or a private cache field — (G shadows P), P's setter stores G on every normal path that stores P's backing "
        "field: otherwise a G left over from an earlier assignment keeps overriding the value just accepted, in memory and "
        "— both being written by the same persistence call — on file",
        floor=60,
    )
    eng = engine(ctx)
    pairs = 0
    for K in families(ctx):
        if component_domain(K) is not None:
            continue
        dom = eng.domain(K)
        for prop in sorted(dom):
            m = K.lookup(prop)
            if not m or m[1] != "prop" or m[2].getter is None or m[2].setter is None:
                continue
            shadows = _shadowing_fields(ctx, m[2].getter, prop, dom)
            if not shadows:
                res.inst(f"{K.name}.{prop}: no other persisted field decides the getter's answer")
                continue
            setter = m[2].setter
            for other, line in sorted(shadows.items()):
                pairs += 1
                bad, _must = _restores_with(eng, setter, K, "_" + prop, "_" + other)
                res.inst(f"{K.name}.{prop}: shadowed by {other} (getter line {line}); setter {setter.qualname} restores _{other} with _{prop}",
                         nontrivial=True, ok=not bad)
                if bad:
                    res.find(setter.cls.name, prop, f"_{prop} stored on a path that does not store _{other}, which shadows it in the getter",
                             setter.where,
                             f"the getter of {prop} answers from `{other}` (line {line}) instead of the stored _{prop} when {other} is set; "
                             f"{setter.qualname} stores _{prop} on a normal path that leaves _{other} as it was (stored only under a "
                             f"condition on the new value, or not at all): after {prop} was given a value that switched {other} on, a later "
                             f"valid assignment is accepted, persisted and still read back as the old answer", resolved_on=K.name, getter_line=line)
    res.notes.append(f"{pairs} (class, attribute, shadowing field) triples found")
    return res


def _touches_attrs_node(n, managers=frozenset()) -> bool:
    """The CFG node creates / replaces / removes an HDF5 attribute: <h>.attrs.create(..), <h>.attrs[k] = v, del <h>.attrs[k], <h>.attrs.pop(k)."""
    a = n.ast
    if a is None or isinstance(a, list) or n.kind == "with":
        return False

    def is_attrs(e):
        return (isinstance(e, ast.Attribute) and e.attr == "attrs") or (isinstance(e, ast.Name) and e.id in managers)

    for x in ast.walk(a):
        if isinstance(x, ast.Call) and isinstance(x.func, ast.Attribute) and is_attrs(x.func.value) \
                and x.func.attr in ("create", "modify", "pop", "__delitem__", "__setitem__", "update"):
            return True
        if isinstance(x, ast.Subscript) and is_attrs(x.value) and isinstance(x.ctx, (ast.Store, ast.Del)):
            return True
    return False


def _reset_scalar_attributes(ctx, res, t):
    """The fallback sink (write_attributes): for a key that is a scalar attribute, the path on which the entity's value is None
    still addresses the stored attribute (removes it) — otherwise assigning None leaves the previous value for the reader."""
    from ..roles import bound_from

    fn0 = t.writer.methods.get(t.fallback)
    if fn0 is None or len(fn0.params) < 3:
        raise AnalysisError(f"anchor H5Writer.{t.fallback} not found")
    ent_p = fn0.params[2]
    v = ctx.view(fuse_generator_loops(ctx.p, fn0))  # a producer generator (reads, skips) fused back into the consumer's loop
    node = _with_expanded_tests(v.node)
    defs = single_assignments(node)
    g = CFG(node)
    managers = {nm for nm, val in defs.items() if isinstance(val, ast.Attribute) and val.attr == "attrs"}  # attrs = <node>.attrs

    def _touches_attrs(n):
        return _touches_attrs_node(n, managers)

    def reads_entity(e):
        return isinstance(e, ast.Call) and isinstance(e.func, ast.Name) and e.func.id == "getattr" and len(e.args) >= 2 \
            and unparse(expanded(e.args[0], node, defs)) == ent_p and not isinstance(e.args[1], ast.Constant)

    def holds_read(e):
        """the value read from the entity, possibly handed through a conversion on the way: as_str_if_uuid(getattr(entity, attr, None))"""
        return any(reads_entity(c) for c in ast.walk(e))

    loops = [x for x in ast.walk(node) if isinstance(x, ast.For) and any(reads_entity(c) for c in ast.walk(x))]
    if len(loops) != 1:
        raise AnalysisError(f"H5Writer.{t.fallback}: loop over the attribute map not recognised")
    loop = loops[0]
    keyvars = [x.id for x in ast.walk(loop.target) if isinstance(x, ast.Name)]
    values = sorted(bound_from(loop, holds_read))
    starts = []
    for n in g.nodes:
        if n.kind == "stmt" and isinstance(n.ast, (ast.Assign, ast.AnnAssign)) and n.ast.value is not None and holds_read(n.ast.value):
            starts += [m for m, lab in n.succ if lab != "exc"]
    head = [n for n in g.nodes if n.kind == "fornext" and n.stmt is loop]
    if not values or not starts or not head or not keyvars:
        raise AnalysisError(f"H5Writer.{t.fallback}: read of the entity's value not recognised")
    facts = {}
    for nm in values:
        facts["notnone:" + nm] = False
        facts["notnone:" + unparse(expanded(ast.Name(id=nm, ctx=ast.Load()), node, defs))] = False
    for kv in keyvars:
        facts["const:" + kv] = "\x00<a scalar attribute>"  # not one of the dataset-backed keys the loop skips
    def presence_test(n):
        """`key in <node>.attrs` (or its negation) whose 'present' branch always goes on to touch the attribute"""
        if n.kind != "test":
            return False
        e, neg = n.ast, False
        while isinstance(e, ast.UnaryOp) and isinstance(e.op, ast.Not):
            e, neg = e.operand, not neg
        if not (isinstance(e, ast.Compare) and len(e.ops) == 1 and isinstance(e.ops[0], (ast.In, ast.NotIn))
                and ((isinstance(e.comparators[0], ast.Attribute) and e.comparators[0].attr == "attrs")
                     or (isinstance(e.comparators[0], ast.Name) and e.comparators[0].id in managers))):
            return False
        present = "true" if (isinstance(e.ops[0], ast.In) != neg) else "false"
        nxt = [m for m, lab in n.succ if lab == present]
        after = reach(g, nxt, avoid=_touches_attrs)
        return bool(nxt) and head[0] not in after and g.exit not in after

    none_names = {k[len("notnone:"):] for k, val in facts.items() if k.startswith("notnone:") and val is False}

    def is_sentinel(e):
        """a name bound once, at module or class level, to an object that is certainly not None (`_MISSING = object()`)"""
        v_ = None
        if isinstance(e, ast.Name):
            r = ctx.p.resolve_name(fn0.module, e.id)
            v_ = r[1][1] if (r and r[0] == "assign") else None
        elif isinstance(e, ast.Attribute) and isinstance(e.value, ast.Name) and fn0.cls is not None and e.value.id in ("cls", "self", fn0.cls.name):
            m = fn0.cls.lookup(e.attr)
            v_ = m[2] if (m and m[1] == "assign") else None
        return isinstance(v_, ast.Call) or (isinstance(v_, ast.Constant) and v_.value is not None)

    def infeasible(n, lab):
        """the value being None, `value is <sentinel>` is false (the 'attribute missing' test of getattr(entity, attr, <sentinel>))"""
        if n.kind != "test":
            return False
        e, neg = n.ast, False
        while isinstance(e, ast.UnaryOp) and isinstance(e.op, ast.Not):
            e, neg = e.operand, not neg
        if not (isinstance(e, ast.Compare) and len(e.ops) == 1 and isinstance(e.ops[0], (ast.Is, ast.IsNot)) and unparse(e.left) in none_names
                and is_sentinel(e.comparators[0])):
            return False
        truth = isinstance(e.ops[0], ast.IsNot) != neg
        return lab == ("false" if truth else "true")

    stop = lambda n: _touches_attrs(n) or presence_test(n)  # noqa: E731
    seen, todo = set(), list(starts)
    while todo:
        n = todo.pop()
        if n in seen or stop(n):
            continue
        seen.add(n)
        from ..kinds import feasible_succ

        todo += [m for m, lab in feasible_succ(n, keyvars[0], facts) if not infeasible(n, lab) and m not in seen]
    ok = head[0] not in seen and g.exit not in seen
    res.inst(f"H5Writer.{t.fallback}: a None value removes the stored scalar attribute", nontrivial=True, ok=ok)
    if not ok:
        res.find("H5Writer", t.fallback, "a None value leaves the stored attribute in place", fn0.where,
                 "for a scalar key of the attribute map the path on which the entity's value is None goes on to the next key without "
                 "touching <node>.attrs: an attribute set to None (units, description, end_of_hole, ...) keeps its previous value on "
                 "file and is read back as if the assignment had not happened")


def rule_retype(ctx) -> RuleResult:
    res = RuleResult(
        "C03.RETYPE",
        "C03",
        "every write of an HDF5 attribute or dataset by the package replaces the stored object (attrs.create / attrs[k] = v / "
        "create_dataset after deletion), so that its on-file type and shape follow the new value; h5py's type-preserving "
        "in-place writers (AttributeManager.modify, Dataset.write_direct) cast the new value to the type of the first write",
        floor=3,
    )
    for fn in ctx.p.all_functions():
        for c in ast.walk(fn.node):
            if not (isinstance(c, ast.Call) and isinstance(c.func, ast.Attribute)):
                continue
            on_attrs = isinstance(c.func.value, ast.Attribute) and c.func.value.attr == "attrs"
            where = f"{fn.module.relpath}:{c.lineno}"
            if (on_attrs and c.func.attr == "create") or c.func.attr == "create_dataset":
                res.inst(f"{fn.qualname}:{c.lineno} replacing write {c.func.attr}")
            elif (on_attrs and c.func.attr == "modify") or c.func.attr == "write_direct":
                res.inst(f"{fn.qualname}:{c.lineno} in-place write {c.func.attr}", nontrivial=True, ok=False)
                res.find(fn.cls.name if fn.cls else fn.module.short, fn.name, f"type-preserving in-place write ({c.func.attr})", where,
                         f"`{c.func.attr}` keeps the HDF5 type and shape chosen by the first write: a later value of another type "
                         "(int first, float later; a longer array) is cast or rejected silently and the reader does not see the value assigned")
    return res


RULES = [rule_w1, rule_w2, rule_w3, rule_w4, rule_spec, rule_inplace, rule_skip, rule_reset, rule_shadow, rule_retype]
