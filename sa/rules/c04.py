"""C04 — concatenated drillhole storage: insert/remove symmetry, re-keying, record fields, escape symmetry."""

from __future__ import annotations

import ast

from ..cfg import CFG
from ..kinds import reach
from ..model import AnalysisError, unparse
from ..report import RuleResult
from ..roles import bound_from, canon, returned_names, writer_roles

_plain = unparse

KINDS = {
    "data": {"ConcatenatedData": True, "Data": True, "ConcatenatedObject": False, "ConcatenatedPropertyGroup": False,
             "hasattr:values": True, "hasattr:surveys": False, "hasattr:properties": False},
    "hole": {"ConcatenatedData": False, "Data": False, "ConcatenatedObject": True, "ConcatenatedPropertyGroup": False,
             "hasattr:values": False, "hasattr:surveys": True, "hasattr:properties": False},
    "property group": {"ConcatenatedData": False, "Data": False, "ConcatenatedObject": False, "ConcatenatedPropertyGroup": True,
                       "hasattr:values": False, "hasattr:surveys": False, "hasattr:properties": True},
}


def events(fn, var, facts, removing=False):
    """Store events reachable in `fn` when its parameter `var` is of the given kind."""
    g = CFG(fn.node)
    nodes = reach(g, [g.entry], var, facts)
    out = set()
    # local aliases by role: the id list read from self, the parent read from the entity
    roles = {nm: "object_ids" for nm in bound_from(fn.node, lambda e: _plain(e) in ("self.concatenated_object_ids", "self._concatenated_object_ids"))}
    roles.update({nm: "parent" for nm in bound_from(fn.node, lambda e: isinstance(e, ast.Attribute) and e.attr == "parent")})
    unparse = lambda n: canon(n, roles)  # noqa: E731
    for n in nodes:
        if n.ast is None or isinstance(n.ast, list):
            continue
        src = n.ast
        for x in ast.walk(src) if n.kind != "with" else []:
            if isinstance(x, ast.Call) and isinstance(x.func, ast.Attribute):
                f = x.func.attr
                if f == "update_concatenated_attributes":
                    out.add(("S1 attribute record", "ins"))
                elif f == "update_array_attribute" and len(x.args) >= 2:
                    lab = x.args[1]
                    if isinstance(lab, ast.Name) and ("const:" + lab.id) in facts:
                        lab = ast.Constant(value=facts["const:" + lab.id])
                    label = lab.value if isinstance(lab, ast.Constant) else "<name>" if unparse(lab).endswith(".name") else unparse(lab)
                    rm = any(k.arg == "remove" and unparse(k.value) == "True" for k in x.keywords)
                    who = unparse(x.args[0])
                    out.add((f"S2 rows[{label}] of {('parent' if who in ('parent', 'entity.parent') else 'entity')}", "rm" if rm else "ins"))
                elif f == "remove" and "attributes_keys" in unparse(x.func.value):
                    out.add(("S1 attribute record", "rm"))
                elif f == "remove" and unparse(x.func.value) in ("object_ids", "self.concatenated_object_ids", "self._concatenated_object_ids"):
                    out.add(("S4 concatenated_object_ids", "rm"))
                elif f == "append" and "property_group_ids" in unparse(x.func.value):
                    out.add(("S5 property_group_ids", "ins"))
                elif f in ("remove", "pop") and "property_group_ids" in unparse(x.func.value):
                    out.add(("S5 property_group_ids", "rm"))
            if isinstance(x, ast.Assign):
                t = unparse(x.targets[0])
                if t == "self.concatenated_object_ids" and not removing:
                    out.add(("S4 concatenated_object_ids", "ins"))
                if "Property:" in t:
                    out.add(("S3 Property:<name> key", "ins"))
                if t in ("self._property_group_ids", "self.property_group_ids") and removing:
                    out.add(("S5 property_group_ids", "rm"))
            if isinstance(x, ast.Delete) and "Property:" in unparse(x):
                out.add(("S3 Property:<name> key", "rm"))
    return out


def rule_pair(ctx) -> RuleResult:
    res = RuleResult(
        "C04.PAIR",
        "C04",
        "per concatenated entity kind (data / hole / property group, following the isinstance / hasattr branches): every "
        "store an insertion touches (attribute record, index/data rows per label, Property:<name> key, object id list, "
        "property-group id list) is scrubbed by Concatenator.remove_entity",
        floor=3,
    )
    p = ctx.p
    conc = p.cls("Concatenator")
    asc = conc.methods.get("add_save_concatenated")
    upd = conc.methods.get("update_attributes")
    rem = conc.methods.get("remove_entity")
    dps = p.cls("ConcatenatedData").props["parent"].setter
    if not (asc and upd and rem):
        raise AnalysisError("C04: Concatenator.add_save_concatenated / update_attributes / remove_entity not found")
    for kind, facts in KINDS.items():
        ins = {e for e, d in events(asc, asc.params[1], facts) if d == "ins"}
        if kind == "data":
            ins |= {e for e, d in events(dps, "self", facts) if d == "ins"}
        if kind == "hole":
            # update_attributes(hole, "property_groups") writes the hole's property-group row
            ins |= {e for e, d in events(upd, upd.params[1], dict(facts, **{"hasattr:property_groups": True, "const:" + upd.params[2]: "property_groups"})) if d == "ins" and e.startswith("S2")}
        if kind == "property group":
            ins |= {e for e, d in events(upd, upd.params[1], dict(KINDS["hole"], **{"const:" + upd.params[2]: "property_groups"})) if d == "ins" and e.startswith("S5")}
        rm = {e for e, d in events(rem, rem.params[1], facts, removing=True) if d in ("rm",)}
        # a re-write of the parent's row counts as its scrub for the property-group kind
        rm |= {e for e, d in events(rem, rem.params[1], facts, removing=True) if d == "ins" and "of parent" in e}
        norm = lambda s: s.replace(" of entity", "").replace(" of parent", "")  # noqa: E731
        ins_n, rm_n = {norm(e) for e in ins}, {norm(e) for e in rm}
        if kind == "hole":
            ins_n = {e for e in ins_n if e != "S2 rows[<name>]"}
        if kind == "property group":
            ins_n = {e for e in ins_n if not e.startswith("S2")}
        missing = sorted(ins_n - rm_n)
        res.inst(f"{kind}: inserted {sorted(ins_n)}; scrubbed {sorted(rm_n)}", nontrivial=True, ok=not missing)
        if missing:
            res.find("Concatenator", "remove_entity", f"{kind}: stores inserted but never scrubbed: {missing}", rem.where,
                     f"removing a concatenated {kind} leaves {missing} behind: the file keeps index rows / ids of an entity that no longer exists",
                     kind=kind)
    return res


def rule_rekey(ctx) -> RuleResult:
    res = RuleResult(
        "C04.REKEY",
        "C04",
        "the index/data rows and the Property:<name> key are keyed by the data's name: the name setter reached on "
        "concatenated data (Entity.name -> update_attribute -> Concatenator.update_attributes('attributes')) must reach a "
        "function that re-writes the Property: key and re-labels the rows",
        floor=1,
    )
    p = ctx.p
    conc = p.cls("Concatenator")
    upd = conc.methods["update_attributes"]
    # functions reachable from the label == 'attributes' branch
    g = CFG(upd.node)
    label = upd.params[2]
    first = [n for n in g.nodes if n.kind == "test" and unparse(n.ast) == f"{label} == 'attributes'"]
    if not first:
        raise AnalysisError("Concatenator.update_attributes: `label == 'attributes'` branch not found")
    body_nodes = reach(g, [m for m, l in first[0].succ if l == "true"], stop=lambda n: False)
    other = reach(g, [m for m, l in first[0].succ if l == "false"])
    only = [n for n in body_nodes if n not in other]
    seen, work = set(), []
    for n in only:
        if n.ast is None or isinstance(n.ast, list):
            continue
        for c in ast.walk(n.ast):
            if isinstance(c, ast.Call) and isinstance(c.func, ast.Attribute) and unparse(c.func.value) == "self":
                work.append(c.func.attr)
    while work:
        nm = work.pop()
        if nm in seen:
            continue
        seen.add(nm)
        m = conc.lookup(nm)
        fn = m[2] if m and m[1] == "method" else (m[2].getter if m and m[1] == "prop" else None)
        if fn is None:
            continue
        for c in ast.walk(fn.node):
            if isinstance(c, ast.Call) and isinstance(c.func, ast.Attribute) and unparse(c.func.value) == "self":
                work.append(c.func.attr)
    writes_key = False
    relabels = False
    for nm in seen:
        m = conc.lookup(nm)
        fn = m[2] if m and m[1] == "method" else None
        if fn is None:
            continue
        for x in ast.walk(fn.node):
            if isinstance(x, (ast.Assign, ast.Delete)) and "Property:" in unparse(x):
                writes_key = True
            if isinstance(x, ast.Call) and isinstance(x.func, ast.Attribute) and x.func.attr == "pop" and unparse(x.func.value) in ("self.index", "self.data"):
                relabels = True
    st = p.cls("Entity").props["name"].setter
    ok = writes_key and relabels
    res.inst(f"name setter on concatenated data reaches {sorted(seen)}: re-writes Property: key={writes_key}, re-labels rows={relabels}", nontrivial=True, ok=ok)
    if not ok:
        res.find("Entity", "name", "renaming concatenated data does not re-key its rows / Property: entry", st.where,
                 "ConcatenatedData inherits Entity.name's setter; the route it persists through only rewrites the attribute record: after a "
                 "rename the values stay under the old label and the parent's Property:<old name> key — re-opening loses the data")
    return res


def rule_rec(ctx) -> RuleResult:
    res = RuleResult(
        "C04.REC",
        "C04",
        "field names used to subscript index records anywhere in the package agree with the one dtype literal that builds "
        "the records, and the positional uses ([0] start, [1] size) agree with its field order",
        floor=6,
    )
    p = ctx.p
    conc = p.cls("Concatenator")
    ua = conc.methods["update_array_attribute"]
    dt = None
    for k in ast.walk(ua.node):
        if isinstance(k, ast.keyword) and k.arg == "dtype" and isinstance(k.value, ast.List) and all(isinstance(e, ast.Tuple) for e in k.value.elts):
            dt = [e.elts[0].value for e in k.value.elts if isinstance(e.elts[0], ast.Constant)]
    if not dt:
        raise AnalysisError("Concatenator.update_array_attribute: index record dtype literal not found")
    ok = dt[:2] == ["Start index", "Size"] and set(dt) >= {"Object ID", "Data ID"}
    res.inst(f"index record dtype fields {dt}", ok=ok)
    if not ok:
        res.find("Concatenator", "update_array_attribute", f"index record fields {dt}", ua.where,
                 "positional readers ([0] = start, [1] = size) and named readers no longer match the records that are written")
    # the tuple handed to fromarrays follows the same order
    fa = [c for c in ast.walk(ua.node) if isinstance(c, ast.Call) and unparse(c.func).endswith("fromarrays")]
    for c in fa:
        if c.args and isinstance(c.args[0], ast.Tuple):
            # roles: start <- fetch_start_index(...); object id <- one of its bindings is the parent's uid; data id <- one is the null uuid
            rr = {nm: "start" for nm in bound_from(ua.node, lambda e: isinstance(e, ast.Call) and unparse(e.func).endswith("fetch_start_index"))}
            rr.update({nm: "obj_id" for nm in bound_from(ua.node, lambda e: ".parent.uid" in unparse(e))})
            rr.update({nm: "data_id" for nm in bound_from(ua.node, lambda e: "UUID(int=0)" in unparse(e))})
            vals = [canon(e, rr) for e in c.args[0].elts]
            ok = len(vals) == len(dt) and vals[0] == "start" and vals[1].startswith("len(") and vals[2] == "obj_id" and vals[3] == "data_id"
            res.inst(f"record values {vals} follow the dtype order", nontrivial=True, ok=ok)
            if not ok:
                res.find("Concatenator", "update_array_attribute", f"record values {vals} do not follow {dt}", f"{ua.module.relpath}:{c.lineno}",
                         "start / size / object id / data id are written into the wrong fields")
    for fn in p.all_functions():
        if not (fn.module.relpath.startswith("geoh5py/shared/concatenation") or fn.module.relpath.endswith("h5_reader.py")):
            continue
        for s in ast.walk(fn.node):
            if isinstance(s, ast.Subscript) and isinstance(s.slice, ast.Constant) and isinstance(s.slice.value, str) and "index" in unparse(s.value).lower():
                nm = s.slice.value
                if nm in ("Index",):
                    continue
                ok = nm in dt
                res.inst(f"{fn.qualname}:{s.lineno} {unparse(s)[:50]}", ok=ok)
                if not ok:
                    res.find(fn.cls.name if fn.cls else fn.module.short, fn.prop or fn.name, f"index record field {nm!r} is not in the dtype {dt}",
                             f"{fn.module.relpath}:{s.lineno}", "the reader subscripts a field the writer never creates")
            if isinstance(s, ast.keyword) and s.arg == "order" and isinstance(s.value, ast.Constant):
                ok = s.value.value in dt
                res.inst(f"{fn.qualname}: sort order {s.value.value!r}", ok=ok)
                if not ok:
                    res.find(fn.cls.name if fn.cls else fn.module.short, fn.prop or fn.name, f"sort field {s.value.value!r} not in {dt}", f"{fn.module.relpath}:{s.value.lineno}", "")
    # comparisons against the "Start index" column use a start index (record position 0 / field "Start index"), not a row number
    did = conc.methods["delete_index_data"]
    defs = {}
    for a in ast.walk(did.node):
        if isinstance(a, ast.Assign):
            tg = a.targets[0].elts if isinstance(a.targets[0], ast.Tuple) else [a.targets[0]]
            vs = a.value.elts if isinstance(a.value, ast.Tuple) and len(a.value.elts) == len(tg) else [a.value] * len(tg)
            for t_, v_ in zip(tg, vs):
                if isinstance(t_, ast.Name):
                    defs[t_.id] = v_
    for cmp_ in [x for x in ast.walk(did.node) if isinstance(x, ast.Compare) and "'Start index'" in unparse(x.left)]:
        other = cmp_.comparators[0]
        src = defs.get(other.id) if isinstance(other, ast.Name) else other
        txt = unparse(src) if src is not None else ""
        ok = txt.endswith("[0]") or "'Start index'" in txt
        res.inst(f"delete_index_data: `{unparse(cmp_)[:60]}` compares start indices with {txt[:40]}", nontrivial=True, ok=ok)
        if not ok:
            res.find("Concatenator", "delete_index_data", f"start indices compared with {unparse(other)} = {txt[:40]}", f"{did.module.relpath}:{cmp_.lineno}",
                     "after deleting a slice, the rows to shift are selected by comparing their start index with something that is not a start "
                     "index (a row number): other holes' rows are shifted or left behind, their values read back as foreign data")
    # positional uses in the concatenator
    for name in ("delete_index_data", "fetch_values"):
        fn = conc.methods[name]
        tup = [a for a in ast.walk(fn.node) if isinstance(a, ast.Assign) and isinstance(a.targets[0], ast.Tuple) and [unparse(t) for t in a.targets[0].elts] == ["start", "size"]]
        for a in tup:
            v = a.value
            ok = isinstance(v, ast.Tuple) and unparse(v.elts[0]).endswith("[0]") and unparse(v.elts[1]).endswith("[1]")
            res.inst(f"Concatenator.{name}: start, size = row[0], row[1]", ok=ok)
            if not ok:
                res.find("Concatenator", name, f"start, size = {unparse(v)[:60]}", f"{fn.module.relpath}:{a.lineno}", "start and size are read from the wrong record positions")
    return res


def rule_esc(ctx) -> RuleResult:
    res = RuleResult(
        "C04.ESC",
        "C04",
        "the '/' -> U+2044 escape applied to channel names by the writer is applied by every reader path that looks a name up, "
        "and inverted by every reader path that lists names",
        floor=6,
    )
    p = ctx.p
    FWD = ("'/'", "'⁄'")
    INV = ("'⁄'", "'/'")

    def reps(fn):
        out = []
        for c in ast.walk(fn.node):
            if isinstance(c, ast.Call) and isinstance(c.func, ast.Attribute) and c.func.attr == "replace" and len(c.args) == 2:
                a = (unparse(c.args[0]), unparse(c.args[1]))
                if a in (FWD, INV):
                    out.append((c, "fwd" if a == FWD else "inv"))
        return out

    uc = p.func("H5Writer.update_concatenated_field")
    r = reps(uc)
    name_def = [a for a in ast.walk(uc.node) if isinstance(a, ast.Assign) and any(c is a.value for c, d in r if d == "fwd")]
    ok = bool(name_def)
    var = unparse(name_def[0].targets[0]) if ok else None
    uses = [x for x in ast.walk(uc.node) if (isinstance(x, ast.Delete) and any(isinstance(t, ast.Subscript) for t in x.targets)) or (isinstance(x, ast.Call) and isinstance(x.func, ast.Attribute) and x.func.attr == "create_dataset")]
    ok = ok and all((unparse(x.targets[0].slice) == var) if isinstance(x, ast.Delete) else (unparse(x.args[0]) == var) for x in uses)
    res.inst(f"writer: dataset name = channel.replace('/', U+2044), used for delete and create ({var})", nontrivial=True, ok=ok)
    if not ok:
        res.find("H5Writer", "update_concatenated_field", "channel name not escaped consistently", uc.where,
                 "a data name containing '/' creates nested HDF5 groups instead of one dataset")
    rd = p.func("H5Reader.fetch_concatenated_values")
    gets = [c for c in ast.walk(rd.node) if isinstance(c, ast.Call) and isinstance(c.func, ast.Attribute) and c.func.attr == "get" and "group" in unparse(c.func.value)]
    for c in gets:
        a = c.args[0]
        ok = isinstance(a, ast.Call) and isinstance(a.func, ast.Attribute) and a.func.attr == "replace" and (unparse(a.args[0]), unparse(a.args[1])) == FWD
        res.inst(f"reader lookup {unparse(c)[:60]} applies the forward escape", nontrivial=True, ok=ok)
        if not ok:
            res.find("H5Reader", "fetch_concatenated_values", f"lookup {unparse(c)[:50]} without the '/' escape", f"{rd.module.relpath}:{c.lineno}",
                     "values of data whose name contains '/' cannot be found after re-opening")
    for spec, what in (("Concatenator.fetch_concatenated_data_index", "labels of index/data"), ("ConcatenatedObject.get_data_list", "data names"),
                       ("Workspace.create_from_concatenation", "entity names")):
        fn = p.func(spec)
        rr = reps(fn)
        ok = any(d == "inv" for _, d in rr) and not any(d == "fwd" for _, d in rr)
        res.inst(f"{spec}: listed {what} are un-escaped", ok=ok)
        if not ok:
            res.find(spec.split(".")[0], spec.split(".")[1], "listed names are not un-escaped", fn.where,
                     "names containing '/' come back with U+2044 and no longer match the data's own name")
    return res


def rule_defer(ctx) -> RuleResult:
    res = RuleResult(
        "C04.DEFER",
        "C04",
        "the concatenated attribute records are written back at close() only when workspace.repack is set: every function that "
        "edits a record in place sets `workspace.repack = True` (or persists 'concatenated_attributes') afterwards on all normal "
        "paths, and Workspace.close() persists the records of every Concatenator under that flag before the final save",
        floor=4,
    )
    p = ctx.p
    conc = p.cls("Concatenator")
    targets = [conc.methods[n] for n in ("update_concatenated_attributes", "remove_entity") if n in conc.methods]
    if len(targets) < 2:
        raise AnalysisError("C04.DEFER: Concatenator.update_concatenated_attributes / remove_entity not found")
    for fn in targets:
        g = CFG(fn.node)
        aliases = {unparse(a.targets[0]) for a in ast.walk(fn.node) if isinstance(a, ast.Assign) and "get_concatenated_attributes" in unparse(a.value)}

        def edits(n, aliases=aliases):
            if n.ast is None or isinstance(n.ast, list) or n.kind != "stmt":
                return False
            for x in ast.walk(n.ast):
                if isinstance(x, ast.Subscript) and isinstance(x.ctx, (ast.Store, ast.Del)) and (unparse(x.value) in aliases or "concatenated_attributes" in unparse(x.value)):
                    return True
                if isinstance(x, ast.Call) and isinstance(x.func, ast.Attribute) and x.func.attr in ("remove", "append", "pop") and "concatenated_attributes" in unparse(x.func.value):
                    return True
            return False

        def flags(n):
            if n.ast is None or isinstance(n.ast, list):
                return False
            for x in ast.walk(n.ast):
                if isinstance(x, ast.Assign) and unparse(x.targets[0]).endswith("workspace.repack") and unparse(x.value) == "True":
                    return True
                if isinstance(x, ast.Call) and isinstance(x.func, ast.Attribute) and x.func.attr == "update_attribute" and "concatenated_attributes" in unparse(x):
                    return True
            return False

        e_nodes = [n for n in g.nodes if edits(n)]
        # `self.concatenated_attributes is not None and self.attributes_keys is not None` holds whenever a record was edited
        facts = {"truthy:self.concatenated_attributes": True, "truthy:self.attributes_keys": True,
                 "notnone:self.concatenated_attributes": True, "notnone:self.attributes_keys": True}
        bad = [n for n in e_nodes if g.exit in reach(g, [m for m, _ in n.succ], "self", facts, avoid=flags)]
        ok = bool(e_nodes) and not bad
        res.inst(f"{fn.qualname}: {len(e_nodes)} in-place edits of attribute records, each followed by workspace.repack = True", nontrivial=True, ok=ok)
        if not e_nodes:
            raise AnalysisError(f"{fn.qualname}: no in-place edit of the attribute records recognised")
        if bad:
            res.find("Concatenator", fn.name, "attribute record edited without setting workspace.repack", f"{fn.module.relpath}:{bad[0].lineno}",
                     "the edited records are only written back by close() when workspace.repack is set: without the flag the change of a "
                     "concatenated entity's attributes (or its removal) never reaches the file")
    cl = p.func("Workspace.close")
    loops = [lp for lp in ast.walk(cl.node) if isinstance(lp, ast.For) and "self.groups" in unparse(lp.iter)]
    ok = False
    for lp in loops:
        body = unparse(ast.Module(body=lp.body, type_ignores=[]))
        for i in [x for x in lp.body if isinstance(x, ast.If)]:
            conj = {unparse(v) for v in (i.test.values if isinstance(i.test, ast.BoolOp) and isinstance(i.test.op, ast.And) else [i.test])}
            tgt = unparse(lp.target)
            inner = unparse(ast.Module(body=i.body, type_ignores=[]))
            if conj == {f"isinstance({tgt}, Concatenator)", "self.repack"} and "update_attribute" in inner and "concatenated_attributes" in inner:
                ok = True
    res.inst("Workspace.close: for every Concatenator, if repack: update_attribute(entity, 'concatenated_attributes')", nontrivial=True, ok=ok)
    if not ok:
        res.find("Workspace", "close", "deferred write-back of concatenated attribute records missing", cl.where,
                 "edits of concatenated entities' attributes are never written")
    g = CFG(cl.node)
    wb = [n for n in g.nodes if n.ast is not None and not isinstance(n.ast, list) and "concatenated_attributes" in unparse(n.ast) and "update_attribute" in unparse(n.ast)]
    closes = [n for n in g.nodes if n.ast is not None and not isinstance(n.ast, list) and unparse(n.ast).startswith("self.geoh5.close(")]
    ok = bool(wb) and all(not (set(reach(g, [c])) & set(wb)) for c in closes)
    res.inst("Workspace.close: the write-back precedes File.close()", ok=ok)
    if not ok:
        res.find("Workspace", "close", "write-back after File.close()", cl.where, "the records are written to a closed handle")
    # the repack setter is a plain store (setting the flag has no other precondition)
    rp = p.cls("Workspace").props["repack"].setter
    ok = any(isinstance(a, ast.Assign) and unparse(a.targets[0]) == "self._repack" and unparse(a.value) == rp.params[1] for a in ast.walk(rp.node))
    res.inst("Workspace.repack setter stores the flag", ok=ok)
    if not ok:
        res.find("Workspace", "repack", "setter does not store the flag", rp.where, "the deferred write-back is never triggered")
    return res


FRESH_FUNCS = {"deepcopy", "copy.deepcopy", "np.array", "np.hstack", "np.vstack", "np.concatenate", "np.r_", "np.round", "np.char.encode", "np.ones", "np.zeros", "np.where"}


def is_fresh(expr) -> bool:
    """The expression builds a new array (does not alias its operand)."""
    if isinstance(expr, ast.Call):
        f = unparse(expr.func)
        if f in FRESH_FUNCS:
            return True
        if isinstance(expr.func, ast.Attribute):
            if expr.func.attr == "copy":
                return True
            if expr.func.attr == "astype":
                return not any(k.arg == "copy" and unparse(k.value) == "False" for k in expr.keywords)
            if expr.func.attr in ("tolist", "flatten"):
                return True
            return is_fresh(expr.func.value) if expr.func.attr in ("reshape",) else False
    if isinstance(expr, ast.BinOp):
        return True
    return False


def rule_fresh(ctx) -> RuleResult:
    res = RuleResult(
        "C04.FRESH",
        "C04",
        "(a) the writer substitutes NaN only in a fresh copy of the values it was handed, never in the concatenator's live array; "
        "(b) Concatenator.copy fills the copy's data / index tables from the file (or copies), never with the source's own arrays; "
        "(c) values appended to a concatenated array are not cast to the dtype of what is already stored",
        floor=4,
    )
    p = ctx.p
    # (a) in-place stores on local arrays in the two value writers
    for spec in ("H5Writer.update_concatenated_field", "H5Writer.write_data_values"):
        fn = p.func(spec)
        body = list(ast.walk(fn.node))
        for st in body:
            if not (isinstance(st, ast.Assign) and isinstance(st.targets[0], ast.Subscript) and isinstance(st.targets[0].value, ast.Name)):
                continue
            var = st.targets[0].value.id
            wroles = writer_roles(fn.node)
            if wroles.get(var, var).endswith("handle") or wroles.get(var, var) == "h5file":
                continue
            # the closest preceding assignment to `var` (source order) must be fresh
            defs = [a for a in body if isinstance(a, ast.Assign) and any(isinstance(t, ast.Name) and t.id == var for t in a.targets) and a.lineno < st.lineno]
            last = max(defs, key=lambda a: a.lineno) if defs else None
            ok = last is not None and is_fresh(last.value)
            res.inst(f"{spec}:{st.lineno} in-place `{unparse(st.targets[0])[:40]} = ...` on a fresh array ({unparse(last.value)[:40] if last else 'parameter'})", nontrivial=True, ok=ok)
            if not ok:
                res.find("H5Writer", fn.name, f"in-place store into `{var}`, which may alias the entity's array: {unparse(last.value)[:50] if last else 'parameter'}",
                         f"{fn.module.relpath}:{st.lineno}",
                         "the writer's no-data substitution is applied to the very array the entity / concatenator holds in memory: other holes "
                         "reading the shared array see 1.17549435e-38 instead of NaN in the same session")
    # (b) Concatenator.copy
    cp = p.func("Concatenator.copy")
    # role: the copy = the local bound from super().copy(...) (and returned)
    cp_roles = {nm: "new_entity" for nm in bound_from(cp.node, lambda e: isinstance(e, ast.Call) and unparse(e.func) in ("super().copy", "super(Concatenator, self).copy"))}
    if not cp_roles:
        cp_roles = {nm: "new_entity" for nm in returned_names(cp.node)}
    _plain_unparse = unparse
    unparse_cp = lambda n: canon(n, cp_roles)  # noqa: E731
    sinks = []
    for a in ast.walk(cp.node):
        if isinstance(a, ast.Assign):
            tg = a.targets[0].elts if isinstance(a.targets[0], ast.Tuple) else [a.targets[0]]
            for t in tg:
                if isinstance(t, ast.Subscript) and unparse_cp(t.value) in ("new_entity.data", "new_entity.index"):
                    sinks.append((t, a))
    if not sinks:
        raise AnalysisError("Concatenator.copy: stores into new_entity.data / .index not found")
    defs = {}
    for a in ast.walk(cp.node):
        if isinstance(a, ast.Assign) and isinstance(a.targets[0], ast.Name):
            defs.setdefault(a.targets[0].id, []).append(a.value)
    for t, a in sinks:
        v = a.value
        srcs = defs.get(v.id, []) if isinstance(v, ast.Name) else [v]
        ok = bool(srcs) and all((isinstance(s, ast.Call) and (unparse(s.func).endswith("fetch_concatenated_values") or is_fresh(s))) for s in srcs)
        res.inst(f"Concatenator.copy:{a.lineno} {unparse(t)[:40]} <- {[unparse(s)[:50] for s in srcs]}", nontrivial=True, ok=ok)
        if not ok:
            res.find("Concatenator", "copy", f"{unparse(t)[:40]} filled from {unparse(v)[:40]}", f"{cp.module.relpath}:{a.lineno}",
                     "the copy's concatenated tables are the source's own arrays: removing or updating an entry in the copy shifts the start "
                     "indices of the source in place")
    for a in ast.walk(cp.node):
        if isinstance(a, ast.Assign) and isinstance(a.targets[0], ast.Attribute) and unparse_cp(a.targets[0].value) == "new_entity" and isinstance(a.value, ast.Attribute) \
                and unparse(a.value.value) == "self":
            ok = False
            res.inst(f"Concatenator.copy:{a.lineno} {unparse(a)[:70]} (source's own container handed to the copy)", nontrivial=True, ok=ok)
            res.find("Concatenator", "copy", f"{unparse(a.targets[0])} shares the source's {a.value.attr} container", f"{cp.module.relpath}:{a.lineno}",
                     f"the copy's {a.targets[0].attr} is the source's own dict / list: adding or removing entities in the copy edits the source's "
                     "records in place (and its file at the next close)")
        elif isinstance(a, ast.Assign) and isinstance(a.targets[0], ast.Attribute) and unparse_cp(a.targets[0].value) == "new_entity" and "self." in unparse(a.value):
            res.inst(f"Concatenator.copy:{a.lineno} {unparse(a)[:70]} (copied)", nontrivial=True, ok=is_fresh(a.value) or unparse(a.value).startswith(("deepcopy(", "list(", "dict(")))
    # (c) no cast of the stored values
    ua = p.func("Concatenator.update_array_attribute")
    stores = [a for a in ast.walk(ua.node) if isinstance(a, ast.Assign) and unparse(a.targets[0]).startswith("self.data[")]
    if not stores:
        raise AnalysisError("Concatenator.update_array_attribute: store into self.data[...] not found")
    defs = {}
    for a in ast.walk(ua.node):
        if isinstance(a, ast.Assign) and isinstance(a.targets[0], ast.Name):
            defs.setdefault(a.targets[0].id, []).append(a.value)
    for a in stores:
        srcs = defs.get(a.value.id, []) if isinstance(a.value, ast.Name) else [a.value]
        casts = [unparse(x)[:60] for s in srcs for x in ast.walk(s) if isinstance(x, ast.Call) and isinstance(x.func, ast.Attribute) and x.func.attr == "astype"]
        ok = not casts
        res.inst(f"update_array_attribute:{a.lineno} values stored into self.data[...] without a cast", nontrivial=True, ok=ok)
        if not ok:
            res.find("Concatenator", "update_array_attribute", f"stored values are cast: {casts[0]}", f"{ua.module.relpath}:{a.lineno}",
                     "values appended for one hole are converted to the dtype of the values stored for other holes: longer strings are truncated, "
                     "fractions are dropped")
    return res


def rule_namekey(ctx) -> RuleResult:
    res = RuleResult(
        "C04.NAMEKEY",
        "C04",
        "the branch of Concatenator.update_array_attribute that decides between 'an array attribute of the entity' and 'the values "
        "of a data set' is not selected by a user-chosen data name (call sites that pass <data>.name as the field must not meet a "
        "hasattr(entity, '_' + field) test)",
        floor=2,
    )
    p = ctx.p
    conc = p.cls("Concatenator")
    ua = conc.methods["update_array_attribute"]
    ent, fld = ua.params[1], ua.params[2]
    by_name = [i for i in ast.walk(ua.node) if isinstance(i, ast.If) and unparse(i.test).replace('"', "'") in (f"hasattr({ent}, f'_{{{fld}}}')", f"hasattr({ent}, '_' + {fld})")]
    name_sites = []
    for fn in p.all_functions():
        for c_ in ast.walk(fn.node):
            if isinstance(c_, ast.Call) and isinstance(c_.func, ast.Attribute) and c_.func.attr == "update_array_attribute" and len(c_.args) >= 2:
                a = c_.args[1]
                is_name = unparse(a).endswith(".name")
                if isinstance(a, ast.Name):
                    # label = entity.name assigned earlier in the caller
                    is_name = any(isinstance(x, ast.Assign) and unparse(x.targets[0]) == a.id and unparse(x.value).endswith(".name") for x in ast.walk(fn.node))
                if is_name:
                    name_sites.append(f"{fn.qualname}:{c_.lineno}")
    for s_ in name_sites:
        res.inst(f"call site passes a data name as field: {s_}", nontrivial=True, ok=not by_name)
    res.inst(f"update_array_attribute dispatches on hasattr(entity, '_' + field): {bool(by_name)}", nontrivial=True, ok=not (by_name and name_sites))
    if by_name and name_sites:
        res.find("Concatenator", "update_array_attribute", "attribute-vs-data branch selected by hasattr(entity, '_' + <data name>)", f"{ua.module.relpath}:{by_name[0].lineno}",
                 f"the field is the user-chosen data name at {name_sites}: a data set named like a private attribute of its class ('values', 'name', "
                 "'surveys', ...) takes the attribute branch — wrong object / data ids in the index row, values unreadable after re-opening")
    return res


RULES = [rule_pair, rule_rekey, rule_rec, rule_esc, rule_defer, rule_fresh, rule_namekey]
