"""C04 — concatenated drillhole storage: insert/remove symmetry, re-keying, record fields, escape symmetry."""

from __future__ import annotations

import ast

from ..cfg import CFG
from ..kinds import reach
from ..model import AnalysisError, unparse
from ..report import RuleResult
from ..roles import bound_from, canon, returned_names, writer_roles
from ._c04_util import OPAQUE, PARAM, Reaching, Scope, atoms, call_name, contains, guards_of, nview

_plain = unparse

KINDS = {
    "data": {"ConcatenatedData": True, "Data": True, "ConcatenatedObject": False, "ConcatenatedPropertyGroup": False,
             "hasattr:values": True, "hasattr:surveys": False, "hasattr:properties": False},
    "hole": {"ConcatenatedData": False, "Data": False, "ConcatenatedObject": True, "ConcatenatedPropertyGroup": False,
             "hasattr:values": False, "hasattr:surveys": True, "hasattr:properties": False},
    "property group": {"ConcatenatedData": False, "Data": False, "ConcatenatedObject": False, "ConcatenatedPropertyGroup": True,
                       "hasattr:values": False, "hasattr:surveys": False, "hasattr:properties": True},
}

_OBJECT_IDS = ("self.concatenated_object_ids", "self._concatenated_object_ids")


def _arg(call, pos, name):
    """Argument of a call given by position or by keyword."""
    if len(call.args) > pos and not any(isinstance(a, ast.Starred) for a in call.args[: pos + 1]):
        return call.args[pos]
    for k in call.keywords:
        if k.arg == name:
            return k.value
    return None


def _is_true(e) -> bool:
    return isinstance(e, ast.Constant) and e.value is True


def events(fn, var, facts, removing=False, project=None):
    """Store events reachable in `fn` (a normalised view) when its parameter `var` is of the given kind."""
    g = CFG(fn.node)
    nodes = reach(g, [g.entry], var, facts)
    out = set()
    # local aliases by role: the id list read from self, the parent read from the entity
    roles = {nm: "object_ids" for nm in bound_from(fn.node, lambda e: _plain(e) in _OBJECT_IDS)}
    roles.update({nm: "parent" for nm in bound_from(fn.node, lambda e: isinstance(e, ast.Attribute) and e.attr == "parent")})
    sc = Scope(fn, project, keep=roles)
    unparse = lambda n: canon(sc.expand(n), roles)  # noqa: E731  (temporaries and hoisted keys expanded, role names canonical)
    for n in nodes:
        if n.ast is None or isinstance(n.ast, list):
            continue
        src = n.ast
        for x in ast.walk(src) if n.kind != "with" else []:
            if isinstance(x, ast.Call) and isinstance(x.func, ast.Attribute):
                f = x.func.attr
                recv = unparse(x.func.value)
                if f == "update_concatenated_attributes":
                    out.add(("S1 attribute record", "ins"))
                elif f == "update_array_attribute" and _arg(x, 0, "entity") is not None and _arg(x, 1, "field") is not None:
                    lab = sc.expand(_arg(x, 1, "field"))
                    if isinstance(lab, ast.Name) and ("const:" + lab.id) in facts:
                        lab = ast.Constant(value=facts["const:" + lab.id])
                    label = lab.value if isinstance(lab, ast.Constant) else "<name>" if isinstance(lab, ast.Attribute) and lab.attr == "name" else canon(lab, roles)
                    rm = _is_true(sc.expand(_arg(x, 2, "remove"))) if _arg(x, 2, "remove") is not None else False
                    who = sc.expand(_arg(x, 0, "entity"))
                    of_parent = (isinstance(who, ast.Attribute) and who.attr == "parent") or (isinstance(who, ast.Name) and roles.get(who.id) == "parent")
                    out.add((f"S2 rows[{label}] of {('parent' if of_parent else 'entity')}", "rm" if rm else "ins"))
                elif f in ("remove", "pop") and "attributes_keys" in recv:
                    out.add(("S1 attribute record", "rm"))
                elif f == "remove" and recv in ("object_ids",) + _OBJECT_IDS:
                    out.add(("S4 concatenated_object_ids", "rm"))
                elif f == "append" and "property_group_ids" in recv:
                    out.add(("S5 property_group_ids", "ins"))
                elif f in ("remove", "pop") and "property_group_ids" in recv:
                    out.add(("S5 property_group_ids", "rm"))
                elif f == "pop" and x.args and "Property:" in unparse(x.args[0]):
                    out.add(("S3 Property:<name> key", "rm"))
            if isinstance(x, (ast.Assign, ast.AnnAssign)) and (isinstance(x, ast.Assign) or x.value is not None):
                for tg in (x.targets if isinstance(x, ast.Assign) else [x.target]):
                    t = unparse(tg)
                    if t == "self.concatenated_object_ids" and not removing:
                        out.add(("S4 concatenated_object_ids", "ins"))
                    if "Property:" in t:
                        out.add(("S3 Property:<name> key", "ins"))
                    if t in ("self._property_group_ids", "self.property_group_ids") and removing:
                        out.add(("S5 property_group_ids", "rm"))
            if isinstance(x, ast.Delete):
                if "Property:" in unparse(x):
                    out.add(("S3 Property:<name> key", "rm"))
                if any(isinstance(t, ast.Subscript) and "attributes_keys" in unparse(t.value) for t in x.targets):
                    out.add(("S1 attribute record", "rm"))
    return out


def rule_pair(ctx) -> RuleResult:
    res = RuleResult(
        "C04.PAIR",
        "C04",
        "per concatenated entity kind (data / hole / property group, following the isinstance / hasattr branches): every "
        "store an insertion touches (attribute record, index/data rows per label, Property:<name> key, object id list, "
        "property-group id list) is scrubbed by Concatenator.remove_entity",
        floor=3,
    )
    p = ctx.p
    conc = p.cls("Concatenator")
    if not all(n in conc.methods for n in ("add_save_concatenated", "update_attributes", "remove_entity")):
        raise AnalysisError("C04: Concatenator.add_save_concatenated / update_attributes / remove_entity not found")
    # normalised views: private helpers (one per entity kind, the tail clean-up, ...) are expanded in place
    asc = nview(ctx, conc.methods["add_save_concatenated"])
    upd = nview(ctx, conc.methods["update_attributes"])
    rem = nview(ctx, conc.methods["remove_entity"])
    dps = nview(ctx, p.cls("ConcatenatedData").props["parent"].setter)
    for kind, facts in KINDS.items():
        ins = {e for e, d in events(asc, asc.params[1], facts, project=p) if d == "ins"}
        if kind == "data":
            ins |= {e for e, d in events(dps, "self", facts, project=p) if d == "ins"}
        if kind == "hole":
            # update_attributes(hole, "property_groups") writes the hole's property-group row
            ins |= {e for e, d in events(upd, upd.params[1], dict(facts, **{"hasattr:property_groups": True, "const:" + upd.params[2]: "property_groups"}), project=p)
                    if d == "ins" and e.startswith("S2")}
        if kind == "property group":
            ins |= {e for e, d in events(upd, upd.params[1], dict(KINDS["hole"], **{"const:" + upd.params[2]: "property_groups"}), project=p) if d == "ins" and e.startswith("S5")}
        rm = {e for e, d in events(rem, rem.params[1], facts, removing=True, project=p) if d in ("rm",)}
        # a re-write of the parent's row counts as its scrub for the property-group kind
        rm |= {e for e, d in events(rem, rem.params[1], facts, removing=True, project=p) if d == "ins" and "of parent" in e}
        norm = lambda s: s.replace(" of entity", "").replace(" of parent", "")  # noqa: E731
        ins_n, rm_n = {norm(e) for e in ins}, {norm(e) for e in rm}
        if kind == "hole":
            ins_n = {e for e in ins_n if e != "S2 rows[<name>]"}
        if kind == "property group":
            ins_n = {e for e in ins_n if not e.startswith("S2")}
        missing = sorted(ins_n - rm_n)
        res.inst(f"{kind}: inserted {sorted(ins_n)}; scrubbed {sorted(rm_n)}", nontrivial=True, ok=not missing)
        if missing:
            res.find("Concatenator", "remove_entity", f"{kind}: stores inserted but never scrubbed: {missing}", rem.where,
                     f"removing a concatenated {kind} leaves {missing} behind: the file keeps index rows / ids of an entity that no longer exists",
                     kind=kind)
    return res


def rule_rekey(ctx) -> RuleResult:
    res = RuleResult(
        "C04.REKEY",
        "C04",
        "the index/data rows and the Property:<name> key are keyed by the data's name: the name setter reached on "
        "concatenated data (Entity.name -> update_attribute -> Concatenator.update_attributes('attributes')) must reach a "
        "function that re-writes the Property: key and re-labels the rows",
        floor=1,
    )
    p = ctx.p
    conc = p.cls("Concatenator")
    upd = nview(ctx, conc.methods["update_attributes"])
    # statements executed for label == 'attributes' and for no other label (whatever the spelling / nesting of the dispatch)
    g = CFG(upd.node)
    ent, label = upd.params[1], upd.params[2]
    on = reach(g, [g.entry], ent, {"const:" + label: "attributes"})
    off = reach(g, [g.entry], ent, {"const:" + label: "\0any other label"})
    only = [n for n in on if n not in off and n.ast is not None and not isinstance(n.ast, list)]
    if not only:
        raise AnalysisError("Concatenator.update_attributes: `label == 'attributes'` branch not found")
    seen, work = set(), []
    for n in only:
        for c in ast.walk(n.ast):
            if isinstance(c, ast.Call) and isinstance(c.func, ast.Attribute) and unparse(c.func.value) == "self":
                work.append(c.func.attr)
    while work:
        nm = work.pop()
        if nm in seen:
            continue
        seen.add(nm)
        m = conc.lookup(nm)
        fn = m[2] if m and m[1] == "method" else (m[2].getter if m and m[1] == "prop" else None)
        if fn is None:
            continue
        for c in ast.walk(fn.node):
            if isinstance(c, ast.Call) and isinstance(c.func, ast.Attribute) and unparse(c.func.value) == "self":
                work.append(c.func.attr)
    writes_key = False
    relabels = False
    for nm in seen:
        m = conc.lookup(nm)
        fn = m[2] if m and m[1] == "method" else None
        if fn is None:
            continue
        sc = Scope(fn, p)
        for x in ast.walk(fn.node):
            if isinstance(x, (ast.Assign, ast.Delete)) and "Property:" in sc.text(x):
                writes_key = True
            if isinstance(x, ast.Call) and isinstance(x.func, ast.Attribute) and x.func.attr == "pop" and sc.text(x.func.value) in ("self.index", "self.data"):
                relabels = True
    st = p.cls("Entity").props["name"].setter
    ok = writes_key and relabels
    res.inst(f"name setter on concatenated data reaches {sorted(seen)}: re-writes Property: key={writes_key}, re-labels rows={relabels}", nontrivial=True, ok=ok)
    if not ok:
        res.find("Entity", "name", "renaming concatenated data does not re-key its rows / Property: entry", st.where,
                 "ConcatenatedData inherits Entity.name's setter; the route it persists through only rewrites the attribute record: after a "
                 "rename the values stay under the old label and the parent's Property:<old name> key — re-opening loses the data")
    return res


def _const(e):
    return e.value if isinstance(e, ast.Constant) else None


def _record_position(e, pos, field) -> bool:
    """`<record>[pos]` or `<record>['field']`."""
    return isinstance(e, ast.Subscript) and _const(e.slice) in (pos, field) and not isinstance(_const(e.slice), bool)


def rule_rec(ctx) -> RuleResult:
    res = RuleResult(
        "C04.REC",
        "C04",
        "field names used to subscript index records anywhere in the package agree with the one dtype literal that builds "
        "the records, and the positional uses ([0] start, [1] size) agree with its field order",
        floor=6,
    )
    p = ctx.p
    conc = p.cls("Concatenator")
    ua = nview(ctx, conc.methods["update_array_attribute"])
    sc = Scope(ua, p)
    # the dtype of the records, wherever the literal lives (in the call, a local, a module / class level table, a helper)
    dt = None
    for k in ast.walk(ua.node):
        if isinstance(k, ast.keyword) and k.arg == "dtype":
            v = sc.expand(k.value)
            if isinstance(v, (ast.List, ast.Tuple)) and v.elts and all(isinstance(e, ast.Tuple) and e.elts for e in v.elts):
                dt = [_const(e.elts[0]) for e in v.elts if isinstance(_const(e.elts[0]), str)]
    if not dt:
        raise AnalysisError("Concatenator.update_array_attribute: index record dtype literal not found")
    ok = dt[:2] == ["Start index", "Size"] and set(dt) >= {"Object ID", "Data ID"}
    res.inst(f"index record dtype fields {dt}", ok=ok)
    if not ok:
        res.find("Concatenator", "update_array_attribute", f"index record fields {dt}", ua.where,
                 "positional readers ([0] = start, [1] = size) and named readers no longer match the records that are written")
    # the tuple handed to fromarrays follows the same order
    fa = [c for c in ast.walk(ua.node) if isinstance(c, ast.Call) and call_name(c) == "fromarrays"]

    def value_role(e):
        # by what the value is computed from on its paths: start <- fetch_start_index(...); size <- len(...);
        # object id <- the parent's uid on one path; data id <- the null uuid on one path
        srcs = sc.sources(e)
        txt = [unparse(s_) for s_ in srcs]
        if srcs and all(call_name(s_) == "fetch_start_index" for s_ in srcs):
            return "start"
        if srcs and all(isinstance(s_, ast.Call) and unparse(s_.func) == "len" for s_ in srcs):
            return txt[0]
        if any(".parent.uid" in t for t in txt):
            return "obj_id"
        if any("UUID(int=0)" in t for t in txt):
            return "data_id"
        return unparse(e)

    for c in fa:
        rec = sc.expand(c.args[0]) if c.args else None
        if isinstance(rec, ast.Tuple):
            raw = c.args[0].elts if isinstance(c.args[0], ast.Tuple) else rec.elts
            vals = [value_role(e) for e in raw]
            ok = len(vals) == len(dt) and vals[0] == "start" and vals[1].startswith("len(") and vals[2] == "obj_id" and vals[3] == "data_id"
            res.inst(f"record values {vals} follow the dtype order", nontrivial=True, ok=ok)
            if not ok:
                res.find("Concatenator", "update_array_attribute", f"record values {vals} do not follow {dt}", f"{ua.module.relpath}:{c.lineno}",
                         "start / size / object id / data id are written into the wrong fields")
    scanned = [ctx.view(f0, inline=False) for f0 in p.all_functions()  # hoisted field-name constants substituted
               if f0.module.relpath.startswith("geoh5py/shared/concatenation") or f0.module.relpath.endswith("h5_reader.py")]
    scopes: dict = {}

    def scope_of(f):
        if id(f) not in scopes:
            scopes[id(f)] = Scope(f, p)
        return scopes[id(f)]

    def field_names(e, f):
        """The field names a subscript may stand for: a literal, or a local / conditional expression that is one on every path."""
        out = []
        for s_ in scope_of(f).sources(e) if not isinstance(e, ast.Constant) else [e]:
            stack = [s_]
            while stack:
                x = stack.pop()
                if isinstance(x, ast.IfExp):
                    stack += [x.body, x.orelse]
                elif isinstance(_const(x), str):
                    out.append(x.value)
                elif isinstance(x, ast.Name) and x is not e and scope_of(f).defs.of(x.id) and x.id not in scope_of(f).defs.params:
                    stack += [v for a_ in scope_of(f).sources(x) for v in [a_] if not (isinstance(a_, ast.Name) and a_.id == x.id)]
        return out

    calls_of: dict = {}
    for f in scanned:
        for c in ast.walk(f.node):
            if isinstance(c, ast.Call) and call_name(c):
                calls_of.setdefault(call_name(c), []).append((f, c))

    def is_index_table(e, f, _depth=0):
        """The receiver is (a row / column of) a concatenated index: named so, bound from one, or a parameter that every... some call hands one to."""
        txt = unparse(e).lower()
        if "index" in txt:
            return True
        if any(isinstance(x, ast.Name) for x in ast.walk(e)) and "index" in scope_of(f).text(e).lower():
            return True  # `rows = self.index[label]; rows['Size']`
        root = _root_name(e)
        own = f.params[1:] if f.kind in ("method", "classmethod", "getter", "setter") else f.params
        if root in own and _depth < 2 and not scope_of(f).defs.rebound(root):
            i = own.index(root)  # a helper that receives the table: what its call sites hand over
            return any(a is not None and is_index_table(a, cf, _depth + 1) for cf, c in calls_of.get(f.name, ()) for a in [_arg(c, i, root)])
        return False

    for fn in scanned:
        for s in ast.walk(fn.node):
            if isinstance(s, ast.Subscript) and not isinstance(s.slice, (ast.Slice, ast.Tuple)):
                if isinstance(s.slice, ast.Constant) and not isinstance(s.slice.value, str):
                    continue
                if not isinstance(s.slice, (ast.Constant, ast.Name, ast.IfExp)):
                    continue
                names_ = field_names(s.slice, fn)
                if not names_ or not is_index_table(s.value, fn):
                    continue
                for nm in sorted(set(names_)):
                    if nm in ("Index",):
                        continue
                    ok = nm in dt
                    via = "" if isinstance(s.slice, ast.Constant) else f" = {nm!r}"
                    res.inst(f"{fn.qualname}:{s.lineno} {unparse(s)[:50]}{via}", ok=ok)
                    if not ok:
                        res.find(fn.cls.name if fn.cls else fn.module.short, fn.prop or fn.name, f"index record field {nm!r} is not in the dtype {dt}",
                                 f"{fn.module.relpath}:{s.lineno}", "the reader subscripts a field the writer never creates")
            if isinstance(s, ast.keyword) and s.arg == "order" and isinstance(_const(s.value), str):
                ok = s.value.value in dt
                res.inst(f"{fn.qualname}: sort order {s.value.value!r}", ok=ok)
                if not ok:
                    res.find(fn.cls.name if fn.cls else fn.module.short, fn.prop or fn.name, f"sort field {s.value.value!r} not in {dt}", f"{fn.module.relpath}:{s.value.lineno}", "")
    # comparisons against the "Start index" column use a start index (record position 0 / field "Start index"), not a row number
    did = nview(ctx, conc.methods["delete_index_data"])
    dsc = Scope(did, p)
    for cmp_ in [x for x in ast.walk(did.node) if isinstance(x, ast.Compare) and len(x.comparators) == 1]:
        sides = [cmp_.left, cmp_.comparators[0]]
        col = [i for i, e in enumerate(sides) if "'Start index'" in dsc.text(e)]
        if not col:
            continue
        other = sides[1 - col[0]]
        srcs = dsc.sources(other)
        bare = len(srcs) == 1 and isinstance(srcs[0], ast.Name) and isinstance(other, ast.Name) and srcs[0].id == other.id  # a parameter / loop variable
        txt = "" if bare else unparse(srcs[0])
        ok = len(col) == 2 or (not bare and all(_record_position(s_, 0, "Start index") or "'Start index'" in unparse(s_) for s_ in srcs))
        res.inst(f"delete_index_data: `{unparse(cmp_)[:60]}` compares start indices with {txt[:40]}", nontrivial=True, ok=ok)
        if not ok:
            res.find("Concatenator", "delete_index_data", f"start indices compared with {unparse(other)} = {txt[:40]}", f"{did.module.relpath}:{cmp_.lineno}",
                     "after deleting a slice, the rows to shift are selected by comparing their start index with something that is not a start "
                     "index (a row number): other holes' rows are shifted or left behind, their values read back as foreign data")
    # positional uses in the concatenator: in `x[a : a + b]` / `arange(a, a + b)`, a is a start (position 0) and b a size (position 1)
    for name in ("delete_index_data", "fetch_values"):
        fn = nview(ctx, conc.methods[name])
        fsc = Scope(fn, p)
        spans = []
        for x in ast.walk(fn.node):
            if isinstance(x, ast.Slice) and x.lower is not None and x.upper is not None:
                spans.append((x.lower, x.upper, x))
            elif isinstance(x, ast.Call) and call_name(x) == "arange" and len(x.args) >= 2:
                spans.append((x.args[0], x.args[1], x))
        done = set()
        for lo, up, at in spans:
            if isinstance(up, ast.Name) and isinstance(fsc.defs.single(up.id), ast.BinOp):
                up = fsc.defs.single(up.id)
            if not (isinstance(up, ast.BinOp) and isinstance(up.op, ast.Add)):
                # the bounds read through a record (`loc.start`, `loc.stop`) or temporaries: what they stand for
                lo, up = fsc.expand(lo), fsc.expand(up)
            if not (isinstance(up, ast.BinOp) and isinstance(up.op, ast.Add)):
                continue
            size = up.right if unparse(up.left) == unparse(lo) else up.left if unparse(up.right) == unparse(lo) else None
            if size is None:
                continue
            a_src, b_src = fsc.sources(lo), fsc.sources(size)
            key = (tuple(unparse(e) for e in a_src), tuple(unparse(e) for e in b_src))
            if key in done:
                continue
            done.add(key)
            ok = all(_record_position(e, 0, "Start index") for e in a_src) and all(_record_position(e, 1, "Size") for e in b_src)
            res.inst(f"Concatenator.{name}: start, size = row[0], row[1]", ok=ok)
            if not ok:
                shown = [unparse(fsc.defs.single(e.id)) if isinstance(e, ast.Name) and fsc.defs.single(e.id) is not None else unparse(e) for e in (lo, size)]
                res.find("Concatenator", name, f"start, size = ({shown[0]}, {shown[1]})"[:75], f"{fn.module.relpath}:{getattr(at, 'lineno', lo.lineno)}",
                         "start and size are read from the wrong record positions")
    return res


def rule_esc(ctx) -> RuleResult:
    res = RuleResult(
        "C04.ESC",
        "C04",
        "the '/' -> U+2044 escape applied to channel names by the writer is applied by every reader path that looks a name up, "
        "and inverted by every reader path that lists names",
        floor=6,
    )
    p = ctx.p
    FWD = ("'/'", "'⁄'")
    INV = ("'⁄'", "'/'")

    def direction(c, sc):
        """'fwd' / 'inv' for a call `<x>.replace('/', U+2044)` / `<x>.replace(U+2044, '/')`, else None."""
        if isinstance(c, ast.Call) and isinstance(c.func, ast.Attribute) and c.func.attr == "replace" and len(c.args) == 2:
            a = (sc.text(c.args[0]), sc.text(c.args[1]))
            return "fwd" if a == FWD else "inv" if a == INV else None
        return None

    def reps(fn, sc):
        return [(c, direction(c, sc)) for c in ast.walk(fn.node) if direction(c, sc)]

    def escaped(e, sc):
        """On every path the value is the forward-escaped name (whatever temporaries / helpers it went through)."""
        srcs = sc.sources(e)
        return bool(srcs) and all(direction(s_, sc) == "fwd" for s_ in srcs)

    uc = nview(ctx, "H5Writer.update_concatenated_field")
    sc = Scope(uc, p)
    creates = [x for x in ast.walk(uc.node) if isinstance(x, ast.Call) and call_name(x) == "create_dataset" and _arg(x, 0, "name") is not None]
    if not creates:
        raise AnalysisError("H5Writer.update_concatenated_field: create_dataset(<name>, ...) not found")
    uses = [_arg(x, 0, "name") for x in creates]
    uses += [t.slice for x in ast.walk(uc.node) if isinstance(x, ast.Delete) for t in x.targets if isinstance(t, ast.Subscript)]
    ok = all(escaped(u, sc) for u in uses)
    res.inst(f"writer: dataset name = channel.replace('/', U+2044), used for delete and create ({len(uses)} uses)", nontrivial=True, ok=ok)
    if not ok:
        res.find("H5Writer", "update_concatenated_field", "channel name not escaped consistently", uc.where,
                 "a data name containing '/' creates nested HDF5 groups instead of one dataset")
    rd = nview(ctx, "H5Reader.fetch_concatenated_values")
    rsc = Scope(rd, p)

    def group_path(e):
        # <...>['Concatenated Data'] followed by constant member names only: the group or one of its sub-groups (not a dataset
        # that was looked up by name, nor the array read from it)
        if isinstance(e, ast.Subscript) and isinstance(_const(e.slice), str):
            return e.slice.value == "Concatenated Data" or group_path(e.value)
        if isinstance(e, ast.Call) and isinstance(e.func, ast.Attribute) and e.func.attr == "get" and e.args and isinstance(_const(e.args[0]), str):
            return e.args[0].value == "Concatenated Data" or group_path(e.func.value)
        return False

    def in_group(recv):
        # the receiver is (a member of) the entity's 'Concatenated Data' group, whatever the local is called
        return any(group_path(s_) for s_ in rsc.sources(recv))

    group_names = {nm: "group" for nm in rsc.defs.all if in_group(ast.Name(id=nm, ctx=ast.Load()))}
    lookups = []
    for c in ast.walk(rd.node):
        if isinstance(c, ast.Call) and isinstance(c.func, ast.Attribute) and c.func.attr == "get" and c.args and in_group(c.func.value):
            if not isinstance(_const(rsc.expand(c.args[0])), str):
                lookups.append((c, c.func.value, c.args[0], f"{canon(c.func.value, group_names)}.get"))
        elif isinstance(c, ast.Subscript) and isinstance(c.ctx, ast.Load) and not isinstance(c.slice, ast.Slice) and in_group(c.value):
            if not isinstance(_const(rsc.expand(c.slice)), str):
                lookups.append((c, c.value, c.slice, f"{canon(c.value, group_names)}[]"))
        elif isinstance(c, ast.Compare) and len(c.ops) == 1 and isinstance(c.ops[0], (ast.In, ast.NotIn)) and in_group(c.comparators[0]):
            if not isinstance(_const(rsc.expand(c.left)), str):
                lookups.append((c, c.comparators[0], c.left, f"in {canon(c.comparators[0], group_names)}"))
    for c, _recv, a, how in lookups:
        ok = escaped(a, rsc)
        res.inst(f"reader lookup {unparse(c)[:60]} applies the forward escape", nontrivial=True, ok=ok)
        if not ok:
            res.find("H5Reader", "fetch_concatenated_values", f"lookup {how} of an un-escaped name", f"{rd.module.relpath}:{c.lineno}",
                     "values of data whose name contains '/' cannot be found after re-opening")
    for spec, what in (("Concatenator.fetch_concatenated_data_index", "labels of index/data"), ("ConcatenatedObject.get_data_list", "data names"),
                       ("Workspace.create_from_concatenation", "entity names")):
        fn = nview(ctx, spec)
        rr = reps(fn, Scope(fn, p))
        ok = any(d == "inv" for _, d in rr) and not any(d == "fwd" for _, d in rr)
        res.inst(f"{spec}: listed {what} are un-escaped", ok=ok)
        if not ok:
            res.find(spec.split(".")[0], spec.split(".")[1], "listed names are not un-escaped", fn.where,
                     "names containing '/' come back with U+2044 and no longer match the data's own name")
    return res


_MUTATORS = ("remove", "append", "pop", "insert", "extend", "clear", "update", "setdefault")


def rule_defer(ctx) -> RuleResult:
    res = RuleResult(
        "C04.DEFER",
        "C04",
        "the concatenated attribute records are written back at close() only when workspace.repack is set: every function that "
        "edits a record in place sets `workspace.repack = True` (or persists 'concatenated_attributes') afterwards on all normal "
        "paths, and Workspace.close() persists the records of every Concatenator under that flag before the final save",
        floor=4,
    )
    p = ctx.p
    conc = p.cls("Concatenator")
    if not all(n in conc.methods for n in ("update_concatenated_attributes", "remove_entity")):
        raise AnalysisError("C04.DEFER: Concatenator.update_concatenated_attributes / remove_entity not found")
    for fn in [nview(ctx, conc.methods[n]) for n in ("update_concatenated_attributes", "remove_entity")]:
        g = CFG(fn.node)
        sc = Scope(fn, p)
        # locals that hold a record: bound (on some path) from get_concatenated_attributes(...)
        aliases = {nm for nm in sc.defs.all if any(call_name(x) == "get_concatenated_attributes" for v in sc.defs.of(nm) for s_ in sc.sources(v) for x in ast.walk(s_))}

        def edits(n, aliases=aliases, sc=sc):
            if n.ast is None or isinstance(n.ast, list) or n.kind != "stmt":
                return False
            for x in ast.walk(n.ast):
                if isinstance(x, ast.Subscript) and isinstance(x.ctx, (ast.Store, ast.Del)) and (unparse(x.value) in aliases or "concatenated_attributes" in sc.text(x.value)):
                    return True
                if isinstance(x, ast.Call) and isinstance(x.func, ast.Attribute) and x.func.attr in _MUTATORS and \
                        ("concatenated_attributes" in sc.text(x.func.value) or unparse(x.func.value) in aliases):
                    return True
            return False

        def flags(n, sc=sc):
            if n.ast is None or isinstance(n.ast, list):
                return False
            for x in ast.walk(n.ast):
                if isinstance(x, ast.Assign) and sc.text(x.targets[0]).endswith("workspace.repack") and _is_true(sc.expand(x.value)):
                    return True
                if isinstance(x, ast.Call) and call_name(x) == "update_attribute" and "concatenated_attributes" in sc.text(x):
                    return True
            return False

        e_nodes = [n for n in g.nodes if edits(n)]
        # `self.concatenated_attributes is not None and self.attributes_keys is not None` holds whenever a record was edited
        facts = {"truthy:self.concatenated_attributes": True, "truthy:self.attributes_keys": True,
                 "notnone:self.concatenated_attributes": True, "notnone:self.attributes_keys": True}
        # an edit is covered when the flag is set on every path through it: after it on all normal paths, or before it on all paths
        unflagged = reach(g, [g.entry], "self", facts, avoid=flags)
        bad = [n for n in e_nodes if n in unflagged and g.exit in reach(g, [m for m, _ in n.succ], "self", facts, avoid=flags)]
        ok = bool(e_nodes) and not bad
        res.inst(f"{fn.qualname}: {len(e_nodes)} in-place edits of attribute records, each followed by workspace.repack = True", nontrivial=True, ok=ok)
        if not e_nodes:
            raise AnalysisError(f"{fn.qualname}: no in-place edit of the attribute records recognised")
        if bad:
            res.find("Concatenator", fn.name, "attribute record edited without setting workspace.repack", f"{fn.module.relpath}:{bad[0].lineno}",
                     "the edited records are only written back by close() when workspace.repack is set: without the flag the change of a "
                     "concatenated entity's attributes (or its removal) never reaches the file")
    # Workspace.close: the write-back = update_attribute(<group>, 'concatenated_attributes') for every group of self.groups that is a
    # Concatenator, while self.repack holds — decided on the conditions that guard the call (nested ifs, guard clauses, De Morgan
    # and a filtering comprehension are the same thing), wherever the loop is written (close itself or a private helper)
    cl = nview(ctx, "Workspace.close")
    csc = Scope(cl, p)

    def is_write_back(c):
        return isinstance(c, ast.Call) and call_name(c) == "update_attribute" and len(c.args) >= 2 and _const(csc.expand(c.args[1])) == "concatenated_attributes"

    ok = False
    for w in [c for c in ast.walk(cl.node) if is_write_back(c)]:
        for lp in [x for x in ast.walk(cl.node) if isinstance(x, ast.For) and contains(x, w) and isinstance(x.target, ast.Name)]:
            tgt = lp.target.id
            it = csc.expand(lp.iter)
            inner, outer = set(), set()
            if isinstance(it, (ast.ListComp, ast.GeneratorExp)) and len(it.generators) == 1 and isinstance(it.generators[0].target, ast.Name) \
                    and unparse(it.elt) == it.generators[0].target.id:
                gen = it.generators[0]
                for c in gen.ifs:
                    for a, pol in atoms(c):
                        inner.add((canon(csc.expand(a), {gen.target.id: tgt}), pol))
                it = gen.iter
            if "self.groups" not in unparse(it) or not isinstance(w.args[0], ast.Name) or w.args[0].id != tgt:
                continue
            for t, pol, holder in guards_of(cl.node, w):
                for a, apol in atoms(t, pol):
                    (inner if contains(lp, holder) and holder is not lp else outer).add((csc.text(a), apol))
            want = {(f"isinstance({tgt}, Concatenator)", True), ("self.repack", True)}
            if want <= (inner | outer) and inner <= want:
                ok = True
    res.inst("Workspace.close: for every Concatenator, if repack: update_attribute(entity, 'concatenated_attributes')", nontrivial=True, ok=ok)
    if not ok:
        res.find("Workspace", "close", "deferred write-back of concatenated attribute records missing", cl.where,
                 "edits of concatenated entities' attributes are never written")
    g = CFG(cl.node)
    live = [n for n in g.nodes if n.ast is not None and not isinstance(n.ast, list)]
    wb = [n for n in live if any(is_write_back(c) for c in ast.walk(n.ast if n.kind != "with" else ast.Module(body=[], type_ignores=[])))]
    closes = [n for n in live if n.kind != "with" and any(isinstance(c, ast.Call) and call_name(c) == "close" and isinstance(c.func, ast.Attribute)
                                                          and csc.text(c.func.value) in ("self.geoh5", "self._geoh5") for c in ast.walk(n.ast))]
    ok = bool(wb) and all(not (set(reach(g, [c])) & set(wb)) for c in closes)
    res.inst("Workspace.close: the write-back precedes File.close()", ok=ok)
    if not ok:
        res.find("Workspace", "close", "write-back after File.close()", cl.where, "the records are written to a closed handle")
    # the repack setter is a plain store (setting the flag has no other precondition)
    rp = p.cls("Workspace").props["repack"].setter
    ok = any(isinstance(a, ast.Assign) and unparse(a.targets[0]) == "self._repack" and unparse(a.value) == rp.params[1] for a in ast.walk(rp.node))
    res.inst("Workspace.repack setter stores the flag", ok=ok)
    if not ok:
        res.find("Workspace", "repack", "setter does not store the flag", rp.where, "the deferred write-back is never triggered")
    return res


FRESH_FUNCS = {"deepcopy", "copy.deepcopy", "np.array", "np.hstack", "np.vstack", "np.concatenate", "np.r_", "np.round", "np.char.encode", "np.ones", "np.zeros", "np.where"}


def is_fresh(expr) -> bool:
    """The expression builds a new array (does not alias its operand)."""
    if isinstance(expr, ast.Call):
        f = unparse(expr.func)
        if f in FRESH_FUNCS:
            return True
        if isinstance(expr.func, ast.Attribute):
            if expr.func.attr == "copy":
                return True
            if expr.func.attr == "astype":
                return not any(k.arg == "copy" and unparse(k.value) == "False" for k in expr.keywords)
            if expr.func.attr in ("tolist", "flatten"):
                return True
            return is_fresh(expr.func.value) if expr.func.attr in ("reshape",) else False
    if isinstance(expr, ast.BinOp):
        return True
    return False


def _root_name(e):
    """The local an access path starts from: `h['a'].get(k)` -> h."""
    while True:
        if isinstance(e, (ast.Subscript, ast.Attribute, ast.Starred)):
            e = e.value
        elif isinstance(e, ast.Call):
            e = e.func
        else:
            return e.id if isinstance(e, ast.Name) else None


def rule_fresh(ctx) -> RuleResult:
    res = RuleResult(
        "C04.FRESH",
        "C04",
        "(a) the writer substitutes NaN only in a fresh copy of the values it was handed, never in the concatenator's live array; "
        "(b) Concatenator.copy fills the copy's data / index tables from the file (or copies), never with the source's own arrays; "
        "(c) values appended to a concatenated array are not cast to the dtype of what is already stored",
        floor=4,
    )
    p = ctx.p
    # (a) in-place stores on local arrays in the two value writers (and the private helpers they delegate to): every
    # definition of the array that reaches the store (CFG, reaching definitions) builds a new array
    for spec in ("H5Writer.update_concatenated_field", "H5Writer.write_data_values"):
        fn = ctx.view(spec)
        rd = Reaching(fn.node)
        wroles = writer_roles(fn.node)
        sc = Scope(fn, p)

        def is_handle(var, wroles=wroles, sc=sc):
            role = wroles.get(var, var)
            if role.endswith("handle") or role == "h5file":
                return True
            roots = {_root_name(v) for v in sc.defs.of(var)}
            return bool(roots) and all(r is not None and r != var and (wroles.get(r, r).endswith("handle") or wroles.get(r, r) == "h5file") for r in roots)

        def fresh_at(stmt, var, rd=rd, _depth=0):
            """(all reaching definitions of var at stmt are fresh, text of one that is not)."""
            ds = rd.at(stmt, var)
            if not ds:
                return False, "unbound"
            for did, v in ds:
                if v is PARAM:
                    return False, "parameter"
                if v is OPAQUE:
                    return False, "loop / augmented binding"
                if isinstance(v, ast.Name) and _depth < 6:
                    ok_, why = fresh_at(rd.def_node(did), v.id, rd, _depth + 1)
                    if not ok_:
                        return False, why if why != "parameter" or v.id in fn.params else unparse(v)
                elif not is_fresh(v):
                    return False, unparse(v)
            return True, unparse(ds[-1][1]) if not isinstance(ds[-1][1], str) else ds[-1][1]

        for st in ast.walk(fn.node):
            if isinstance(st, ast.Assign) and isinstance(st.targets[0], ast.Subscript) and isinstance(st.targets[0].value, ast.Name):
                tgt = st.targets[0]
            elif isinstance(st, ast.AugAssign) and isinstance(st.target, ast.Subscript) and isinstance(st.target.value, ast.Name):
                tgt = st.target
            else:
                continue
            var = tgt.value.id
            if is_handle(var):
                continue
            ok, src = fresh_at(st, var)
            res.inst(f"{spec}:{st.lineno} in-place `{unparse(tgt)[:40]} = ...` on a fresh array ({src[:40]})", nontrivial=True, ok=ok)
            if not ok:
                res.find("H5Writer", fn.name, f"in-place store into `{var}`, which may alias the entity's array: {src[:50]}",
                         f"{fn.module.relpath}:{st.lineno}",
                         "the writer's no-data substitution is applied to the very array the entity / concatenator holds in memory: other holes "
                         "reading the shared array see 1.17549435e-38 instead of NaN in the same session")
    # (b) the copy of a Concatenator: wherever a method of the class fills the tables of ANOTHER concatenator (`<other>.data[k] = ..`,
    # `<other>.index[k] = ..` — Concatenator.copy itself, or a hook of the copy protocol that receives the copy as a parameter)
    conc = p.cls("Concatenator")

    def other_tables(fn):
        """(sinks, names of the other concatenator) in one method."""
        d = Scope(fn, p).defs
        me = fn.params[0] if fn.params else "self"

        def through(e):
            for _ in range(6):
                if isinstance(e, ast.Name) and d.single(e.id) is not None and isinstance(d.single(e.id), (ast.Name, ast.Attribute)):
                    e = d.single(e.id)
                else:
                    break
            return e

        sinks, others = [], set()
        for a in ast.walk(fn.node):
            if isinstance(a, ast.Assign):
                tg = a.targets[0].elts if isinstance(a.targets[0], ast.Tuple) else [a.targets[0]]
                vs = a.value.elts if isinstance(a.targets[0], ast.Tuple) and isinstance(a.value, ast.Tuple) and len(a.value.elts) == len(tg) else [a.value] * len(tg)
                for t, v in zip(tg, vs):
                    if not isinstance(t, ast.Subscript):
                        continue
                    tab = through(t.value)
                    if isinstance(tab, ast.Attribute) and tab.attr in ("data", "index", "_data", "_index"):
                        owner = through(tab.value)
                        if isinstance(owner, ast.Name) and owner.id != me:
                            sinks.append((t, a, v))
                            others.add(owner.id)
        return sinks, others

    sites = []
    for nm, m in conc.methods.items():
        if m.cls is conc:
            v_ = nview(ctx, m)
            sk, others = other_tables(v_)
            if sk:
                sites.append((v_, sk, others))
    if not sites:
        raise AnalysisError("Concatenator.copy: stores into new_entity.data / .index not found")
    for cp, sinks, others in sites:
        cp_roles = {nm: "new_entity" for nm in others}
        csc = Scope(cp, p, keep=cp_roles)
        unparse_cp = lambda n, csc=csc, cp_roles=cp_roles: canon(csc.expand(n), cp_roles)  # noqa: E731
        for t, a, v in sinks:
            srcs = csc.sources(v)
            ok = bool(srcs) and all((isinstance(s, ast.Call) and (call_name(s) == "fetch_concatenated_values" or is_fresh(s))) for s in srcs)
            res.inst(f"Concatenator.{cp.name}:{a.lineno} {unparse(t)[:40]} <- {[unparse(s)[:50] for s in srcs]}", nontrivial=True, ok=ok)
            if not ok:
                res.find("Concatenator", "copy", f"{canon(t, cp_roles)[:40]} filled from {unparse(v)[:40]}", f"{cp.module.relpath}:{a.lineno}",
                         "the copy's concatenated tables are the source's own arrays: removing or updating an entry in the copy shifts the start "
                         "indices of the source in place")
        for a in ast.walk(cp.node):
            if not (isinstance(a, ast.Assign) and isinstance(a.targets[0], ast.Attribute) and unparse_cp(a.targets[0].value) == "new_entity"):
                continue
            val = csc.expand(a.value)
            if isinstance(val, ast.Attribute) and unparse(val.value) == "self":
                ok = False
                res.inst(f"Concatenator.{cp.name}:{a.lineno} {unparse(a)[:70]} (source's own container handed to the copy)", nontrivial=True, ok=ok)
                res.find("Concatenator", "copy", f"{canon(a.targets[0], cp_roles)} shares the source's {val.attr} container", f"{cp.module.relpath}:{a.lineno}",
                         f"the copy's {a.targets[0].attr} is the source's own dict / list: adding or removing entities in the copy edits the source's "
                         "records in place (and its file at the next close)")
            elif "self." in unparse(val):
                res.inst(f"Concatenator.{cp.name}:{a.lineno} {unparse(a)[:70]} (copied)", nontrivial=True, ok=is_fresh(val) or unparse(val).startswith(("deepcopy(", "list(", "dict(")))
    # (c) no cast of the stored values
    ua = nview(ctx, "Concatenator.update_array_attribute")
    usc = Scope(ua, p)
    stores = [a for a in ast.walk(ua.node) if isinstance(a, ast.Assign) and usc.text(a.targets[0]).startswith("self.data[")]
    if not stores:
        raise AnalysisError("Concatenator.update_array_attribute: store into self.data[...] not found")
    for a in stores:
        # every definition of the stored value, first as written (for the message), then with its temporaries expanded
        srcs = (usc.defs.of(a.value.id) if isinstance(a.value, ast.Name) else [a.value]) + usc.sources(a.value)
        casts = [unparse(x)[:60] for s in srcs for x in ast.walk(s) if isinstance(x, ast.Call) and isinstance(x.func, ast.Attribute) and x.func.attr == "astype"]
        ok = not casts
        res.inst(f"update_array_attribute:{a.lineno} values stored into self.data[...] without a cast", nontrivial=True, ok=ok)
        if not ok:
            res.find("Concatenator", "update_array_attribute", f"stored values are cast: {casts[0]}", f"{ua.module.relpath}:{a.lineno}",
                     "values appended for one hole are converted to the dtype of the values stored for other holes: longer strings are truncated, "
                     "fractions are dropped")
    return res


def rule_namekey(ctx) -> RuleResult:
    res = RuleResult(
        "C04.NAMEKEY",
        "C04",
        "the branch of Concatenator.update_array_attribute that decides between 'an array attribute of the entity' and 'the values "
        "of a data set' is not selected by a user-chosen data name (call sites that pass <data>.name as the field must not meet a "
        "hasattr(entity, '_' + field) test)",
        floor=2,
    )
    p = ctx.p
    conc = p.cls("Concatenator")
    ua = nview(ctx, conc.methods["update_array_attribute"])
    sc = Scope(ua, p)
    ent, fld = ua.params[1], ua.params[2]

    def is_param(e, prm):
        return any(isinstance(s_, ast.Name) and s_.id == prm for s_ in sc.sources(e))

    def built_from_field(e):
        # a string computed from the field: f'_{field}' / '_' + field (through temporaries / helper parameters)
        for s_ in sc.sources(e):
            if isinstance(s_, (ast.JoinedStr, ast.BinOp)) and any(isinstance(x, ast.Name) and is_param(x, fld) for x in ast.walk(s_)):
                return True
        return False

    by_name = [c for c in ast.walk(ua.node) if isinstance(c, ast.Call) and isinstance(c.func, ast.Name) and c.func.id == "hasattr" and len(c.args) == 2
               and is_param(c.args[0], ent) and built_from_field(c.args[1])]
    name_sites = []
    for fn in p.all_functions():
        fsc = None
        for c_ in ast.walk(fn.node):
            if isinstance(c_, ast.Call) and isinstance(c_.func, ast.Attribute) and c_.func.attr == "update_array_attribute" and _arg(c_, 1, "field") is not None:
                fsc = fsc or Scope(fn, p)
                # the field is <something>.name, directly or through a local bound to it on some path
                if any(isinstance(s_, ast.Attribute) and s_.attr == "name" for s_ in fsc.sources(_arg(c_, 1, "field"))):
                    name_sites.append(f"{fn.qualname}:{c_.lineno}")
    for s_ in name_sites:
        res.inst(f"call site passes a data name as field: {s_}", nontrivial=True, ok=not by_name)
    res.inst(f"update_array_attribute dispatches on hasattr(entity, '_' + field): {bool(by_name)}", nontrivial=True, ok=not (by_name and name_sites))
    if by_name and name_sites:
        res.find("Concatenator", "update_array_attribute", "attribute-vs-data branch selected by hasattr(entity, '_' + <data name>)", f"{ua.module.relpath}:{by_name[0].lineno}",
                 f"the field is the user-chosen data name at {name_sites}: a data set named like a private attribute of its class ('values', 'name', "
                 "'surveys', ...) takes the attribute branch — wrong object / data ids in the index row, values unreadable after re-opening")
    return res


def _has_call(n, *names) -> bool:
    """The CFG node evaluates a call to one of the named functions / methods (the body of a `with` is its own nodes)."""
    if n.ast is None or isinstance(n.ast, list):
        return False
    src = [it.context_expr for it in n.ast.items] if n.kind == "with" else [n.ast]
    return any(isinstance(c, ast.Call) and call_name(c) in names for s_ in src for c in ast.walk(s_))


def rule_skip(ctx) -> RuleResult:
    res = RuleResult(
        "C04.SKIP",
        "C04",
        "no write of concatenated values is skipped on what the values ARE (their length, their closeness to what is stored): "
        "(a) H5Writer.update_concatenated_field, once the entity is on file and the values it fetched are not None, creates the "
        "dataset on every normal path (the Index and Data datasets of a name are written by the same code: a length-0 array is a "
        "value like any other); (b) Concatenator.update_array_attribute removes the old slice (fetch_start_index) and persists "
        "(save_attribute) on every normal path, and stores the values whenever there are values and `remove` is not set; "
        "(c) Concatenator.delete_index_data removes the entry's row from the index table on every normal path (also for an empty slice)",
        floor=4,
    )
    p = ctx.p
    # (a) the file writer
    uc = nview(ctx, "H5Writer.update_concatenated_field")
    g = CFG(uc.node)
    sc = Scope(uc, p)
    creates = [c for c in ast.walk(uc.node) if isinstance(c, ast.Call) and call_name(c) == "create_dataset"]
    if not creates:
        raise AnalysisError("H5Writer.update_concatenated_field: create_dataset(...) not found")
    # the locals the written values flow through: what is handed to create_dataset(data=...), and what those are computed from
    flow, work = set(), []
    for c in creates:
        d = _arg(c, 1, "data")
        work += [x.id for x in ast.walk(d) if isinstance(x, ast.Name)] if d is not None else []
    while work:
        nm = work.pop()
        if nm in flow or nm in sc.defs.params or not sc.defs.rebound(nm):
            continue
        flow.add(nm)
        for v in sc.defs.of(nm):
            work += [x.id for x in ast.walk(v) if isinstance(x, ast.Name)]
    if not flow:
        raise AnalysisError("H5Writer.update_concatenated_field: the values handed to create_dataset are not a local")
    # where the values enter: bindings of those locals from something that is not one of them (the fetch from the entity)
    origins = []
    for n in g.nodes:
        if n.kind == "stmt" and isinstance(n.ast, (ast.Assign, ast.AnnAssign)) and getattr(n.ast, "value", None) is not None:
            tgs = n.ast.targets if isinstance(n.ast, ast.Assign) else [n.ast.target]
            if any(isinstance(t, ast.Name) and t.id in flow for t in tgs) and not any(isinstance(x, ast.Name) and x.id in flow for x in ast.walk(n.ast.value)) \
                    and not (isinstance(n.ast.value, ast.Constant) and n.ast.value.value is None):
                origins.append(n)
    facts = {"notnone:" + nm: True for nm in flow}
    # the entity is on file: the handles obtained for it exist
    facts.update({"notnone:" + nm: True for nm, role in writer_roles(uc.node).items() if role.endswith("handle") or role == "h5file"})
    starts = [m for o in origins for m, _ in o.succ] or [g.entry]
    skipped = g.exit in reach(g, starts, uc.params[0] if uc.params else "cls", facts, avoid=lambda n: _has_call(n, "create_dataset"))
    res.inst(f"H5Writer.update_concatenated_field: values fetched at {len(origins)} site(s); not None => create_dataset on every normal path", nontrivial=True, ok=not skipped)
    if skipped:
        res.find("H5Writer", "update_concatenated_field", "values that are not None can leave without create_dataset", uc.where,
                 "the write of a concatenated array is skipped on a condition about its content (e.g. its length): the Index dataset of a name "
                 "is written while its Data dataset is not (or a stale one stays deleted) — the file holds an index without the array it tiles "
                 "and the whole group fails to load")
    # (b) the concatenator
    conc = p.cls("Concatenator")
    ua = nview(ctx, conc.methods["update_array_attribute"])
    g = CFG(ua.node)
    usc = Scope(ua, p)
    ent = ua.params[1]
    for what, names in (("removes the old slice (fetch_start_index)", ("fetch_start_index",)), ("persists (save_attribute)", ("save_attribute",))):
        if not any(_has_call(n, *names) for n in g.nodes):
            raise AnalysisError(f"Concatenator.update_array_attribute: call to {names[0]} not found")
        missed = g.exit in reach(g, [g.entry], ent, {}, avoid=lambda n, names=names: _has_call(n, *names))
        res.inst(f"Concatenator.update_array_attribute {what} on every normal path", nontrivial=True, ok=not missed)
        if missed:
            res.find("Concatenator", "update_array_attribute", f"a normal path leaves without {names[0]}", ua.where,
                     "an update of the values of a hole / data set can return before the old slice is removed and the arrays are persisted (a "
                     "shortcut taken on what the values are): the entity holds the new values, the concatenated array and the file keep the old ones")
    # with values and without `remove`: the store into self.data[...] is on every normal path
    stores = [n for n in g.nodes if n.kind == "stmt" and isinstance(n.ast, ast.Assign) and any(usc.text(t).startswith("self.data[") for t in n.ast.targets)]
    if not stores:
        raise AnalysisError("Concatenator.update_array_attribute: store into self.data[...] not found")
    valued = {a.targets[0].id if isinstance(a.targets[0], ast.Name) else None for a in ast.walk(ua.node)
              if isinstance(a, ast.Assign) and isinstance(a.value, ast.Call) and getattr(a.value.func, "id", None) == "getattr"}
    valued |= {nm for n in stores for x in ast.walk(n.ast.value) if isinstance(x, ast.Name) for nm in [x.id] if usc.defs.rebound(nm)}
    # ... and the locals those values flow from (temporaries, parameters of expanded helpers, fields of a record built on the way)
    work = list(valued)
    while work:
        nm = work.pop()
        if not nm:
            continue
        for v in usc.defs.of(nm) + (usc.sources(ast.Name(id=nm, ctx=ast.Load())) if nm not in usc.defs.params else []):
            for x in ast.walk(v):
                if isinstance(x, ast.Name) and x.id not in valued and x.id not in usc.defs.params and usc.defs.rebound(x.id):
                    valued.add(x.id)
                    work.append(x.id)
    facts = {"notnone:" + nm: True for nm in valued if nm}
    if len(ua.params) > 3:
        facts.update({"truthy:" + ua.params[3]: False})
    missed = g.exit in reach(g, [g.entry], ent, facts, avoid=lambda n: n in stores)
    res.inst("Concatenator.update_array_attribute: values present and remove unset => stored into self.data[...] on every normal path", nontrivial=True, ok=not missed)
    if missed:
        res.find("Concatenator", "update_array_attribute", "values can be left unstored although present and `remove` unset", ua.where,
                 "the new values of a hole / data set are dropped on a condition about their content: the concatenated array keeps the previous values")
    # (c) delete_index_data: whatever the slice holds (also nothing), the entry's row leaves the index table on every normal path
    did = nview(ctx, conc.methods["delete_index_data"])
    g = CFG(did.node)
    dsc = Scope(did, p)

    def drops_row(n):
        # `self.index[<label>] = <new table>`: the table of the label re-bound (np.delete, a mask, ...) — not the in-place shift of a column
        if n.kind != "stmt" or not isinstance(n.ast, ast.Assign):
            return False
        for t in n.ast.targets:
            t = dsc.expand(t) if isinstance(t, ast.Name) else t
            if isinstance(t, ast.Subscript) and dsc.text(t.value) in ("self.index", "self._index"):
                return True
        return False

    if not any(drops_row(n) for n in g.nodes):
        raise AnalysisError("Concatenator.delete_index_data: re-binding of self.index[<label>] (the row removal) not found")
    missed = g.exit in reach(g, [g.entry], did.params[0], {}, avoid=drops_row)
    res.inst("Concatenator.delete_index_data removes the row from self.index[label] on every normal path", nontrivial=True, ok=not missed)
    if missed:
        res.find("Concatenator", "delete_index_data", "a normal path leaves without removing the index row", did.where,
                 "the caller (fetch_start_index) takes the old entry for removed and appends a new row: the index holds two rows for the same "
                 "(object, data) pair, fetch_index no longer finds the entity and every later update appends another copy")
    return res


def rule_order(ctx) -> RuleResult:
    res = RuleResult(
        "C04.ORDER",
        "C04",
        "the group-wide table enumerates the holes in the order of their slices in the concatenated association array: the keys of "
        "DrillholesGroupTable.index_by_drillhole come from the parent's index records ordered by their 'Start index' (the table's columns "
        "are cut back per hole by start index when values are added through it)",
        floor=1,
    )
    p = ctx.p
    fn = nview(ctx, "DrillholesGroupTable.index_by_drillhole")
    sc = Scope(fn, p)
    # the mapping that is kept: what is stored into self._index_by_drillhole
    kept = [a.value for a in ast.walk(fn.node) if isinstance(a, ast.Assign) and any(isinstance(t, ast.Attribute) and t.attr == "_index_by_drillhole" for t in a.targets)
            and not (isinstance(a.value, ast.Constant) and a.value.value is None)]
    if not kept:
        raise AnalysisError("DrillholesGroupTable.index_by_drillhole: store into self._index_by_drillhole not found")
    names = {v.id for v in kept if isinstance(v, ast.Name)}
    grown = True
    while grown:  # the mapping under its other local names
        grown = False
        for nm in list(names):
            for v in sc.defs.of(nm):
                if isinstance(v, ast.Name) and v.id not in names:
                    names.add(v.id)
                    grown = True
    # where its keys are enumerated: the outer generator of a dict comprehension that defines it, the loop whose variable keys a store into it
    enums = []
    for v in kept + [d for nm in names for d in sc.defs.of(nm)]:
        if isinstance(v, ast.DictComp):
            enums.append((v.generators[0].iter, v))
    loops = [lp for lp in ast.walk(fn.node) if isinstance(lp, ast.For)]
    for x in ast.walk(fn.node):
        key = None
        if isinstance(x, ast.Subscript) and isinstance(x.ctx, ast.Store) and isinstance(x.value, ast.Name) and x.value.id in names:
            key = x.slice
        elif isinstance(x, ast.Call) and isinstance(x.func, ast.Attribute) and x.func.attr == "setdefault" and isinstance(x.func.value, ast.Name) and x.func.value.id in names and x.args:
            key = x.args[0]
        if isinstance(key, ast.Name):
            for lp in loops:
                if contains(lp, x) and any(isinstance(t, ast.Name) and t.id == key.id for t in ast.walk(lp.target)):
                    enums.append((lp.iter, lp))
    if not enums:
        raise AnalysisError("DrillholesGroupTable.index_by_drillhole: enumeration of the holes (keys of the mapping) not found")
    seen = set()
    for it, at in enums:
        if id(at) in seen:
            continue
        seen.add(id(at))
        e = sc.expand(it)
        from_index = any(isinstance(x, ast.Subscript) and isinstance(x.value, ast.Attribute) and x.value.attr in ("index", "_index") for x in ast.walk(e))
        ordered_by = []
        for c in ast.walk(e):
            if isinstance(c, ast.Call) and call_name(c) in ("sort", "sorted", "argsort", "lexsort"):
                ordered_by.append("'Start index'" in unparse(c))
        ok = from_index and bool(ordered_by) and all(ordered_by)
        res.inst(f"index_by_drillhole:{getattr(at, 'lineno', 0)} holes enumerated from the index records ordered by 'Start index'", nontrivial=True, ok=ok)
        if not ok:
            how = "not from the parent's index records" if not from_index else "without an ordering by 'Start index'" if not ordered_by else "ordered by another field"
            res.find("DrillholesGroupTable", "index_by_drillhole", f"holes enumerated {how}", f"{fn.module.relpath}:{getattr(at, 'lineno', fn.node.lineno)}",
                     "the rows of the group-wide table no longer follow the order of the slices in the concatenated association array: values added "
                     "through the table are cut at the wrong places — one hole receives the values computed from another")
    return res


def _memo_attrs(getter, sc):
    """Attributes of self a property getter memoises: returned as they are on one path, assigned in the getter on another."""
    stored = {t.attr for a in ast.walk(getter.node) if isinstance(a, (ast.Assign, ast.AnnAssign)) for t in (a.targets if isinstance(a, ast.Assign) else [a.target])
              if isinstance(t, ast.Attribute) and isinstance(t.value, ast.Name) and t.value.id == getter.params[0]}
    out = set()
    for r in ast.walk(getter.node):
        if isinstance(r, ast.Return) and r.value is not None:
            for v in sc.sources(r.value):
                if isinstance(v, ast.Attribute) and isinstance(v.value, ast.Name) and v.value.id == getter.params[0] and v.attr in stored:
                    out.add(v.attr)
    return out


def rule_memo(ctx) -> RuleResult:
    res = RuleResult(
        "C04.MEMO",
        "C04",
        "what a Concatenator property computes from the concatenated index / data tables (directly, or as objects that read them: the "
        "group-wide tables) is either recomputed on every access or kept in an attribute that every method which re-binds or edits "
        "self.index[...] / self.data[...] resets on all its normal paths (itself, or all of its callers)",
        floor=1,
    )
    p = ctx.p
    conc = p.cls("Concatenator")
    me = "self"

    def reads_tables(node, depth=0):
        """The code reads <x>.index / <x>.data of a concatenator, or builds an object of a package class that does."""
        for x in ast.walk(node):
            if isinstance(x, ast.Attribute) and x.attr in ("index", "data", "_index", "_data") and isinstance(x.ctx, ast.Load):
                return True
            if depth < 1 and isinstance(x, ast.Call) and isinstance(x.func, ast.Name) and any(isinstance(a, ast.Name) and a.id == me for a in x.args):
                r = p.resolve_name(conc.module, x.func.id)
                if r and r[0] == "class" and r[1].node is not None and reads_tables(r[1].node, depth + 1):
                    return True
        return False

    # the stores themselves (index / data and the attributes they are loaded into) are not derived values
    own = {"_index", "_data"}
    memos = {}
    for pname, prop in conc.props.items():
        if prop.getter is None or prop.getter.cls is not conc or pname in ("index", "data"):
            continue
        g_ = nview(ctx, prop.getter)
        attrs = _memo_attrs(g_, Scope(g_, p)) - own
        if attrs and reads_tables(g_.node):
            for a in attrs:
                memos[a] = pname
    # methods that change the tables: a store / delete / augmented store below self.index or self.data, or a re-binding of the tables
    def mutates(fn):
        for x in ast.walk(fn.node):
            tgs = x.targets if isinstance(x, (ast.Assign, ast.Delete)) else [x.target] if isinstance(x, (ast.AugAssign, ast.AnnAssign)) else []
            for t in tgs:
                for e in (t.elts if isinstance(t, ast.Tuple) else [t]):
                    root, below = e, False
                    while isinstance(root, ast.Subscript):
                        root, below = root.value, True
                    if isinstance(root, ast.Attribute) and isinstance(root.value, ast.Name) and root.value.id == me and \
                            ((root.attr in ("index", "data") and below) or root.attr in ("_index", "_data")):
                        return True
        return False

    mutators = [fn for nm, fn in conc.methods.items() if fn.cls is conc and mutates(fn) and nm != "__init__"]
    callers = {}
    for fn in p.all_functions():
        for c in ast.walk(fn.node):
            if isinstance(c, ast.Call) and isinstance(c.func, ast.Attribute) and c.func.attr in conc.methods:
                callers.setdefault(c.func.attr, set()).add(fn)
    res.inst(f"Concatenator: values derived from the tables and kept across accesses: {sorted(memos.items()) or 'none (recomputed on every access)'}; "
             f"methods that change the tables: {sorted(f.name for f in mutators)}", nontrivial=True, ok=True)
    for attr, pname in sorted(memos.items()):
        def resets(fn, attr=attr):
            v = nview(ctx, fn)
            g = CFG(v.node)

            def is_reset(n):
                if n.kind != "stmt" or not isinstance(n.ast, (ast.Assign, ast.Delete)):
                    return False
                return any(isinstance(t, ast.Attribute) and t.attr == attr and isinstance(t.value, ast.Name) and t.value.id == v.params[0]
                           for t in n.ast.targets)

            return g.exit not in reach(g, [g.entry], v.params[0], {}, avoid=is_reset)

        def covered(fn, seen=()):
            if fn in seen:
                return False
            if fn.cls is conc and resets(fn):
                return True
            cs = [c for c in callers.get(fn.name, ()) if c is not fn]
            return bool(cs) and fn.cls is conc and all(covered(c, seen + (fn,)) for c in cs)

        for m in mutators:
            ok = covered(m)
            res.inst(f"Concatenator.{m.name} changes the tables: self.{attr} (kept by `{pname}`) reset by it or by all its callers", nontrivial=True, ok=ok)
            if not ok:
                res.find("Concatenator", m.name, f"changes the index / data tables without resetting the value kept by `{pname}`", m.where,
                         f"`{pname}` hands out what it computed from the tables before the change: the group-wide table cuts the re-ordered "
                         "concatenated array with the old offsets and lists other holes' values under a hole")
    return res


def rule_channel(ctx) -> RuleResult:
    res = RuleResult(
        "C04.CHANNEL",
        "C04",
        "the Index dataset and the Data dataset of a data name are written under the same channel: in Concatenator.save_attribute the "
        "name handed to update_attribute(self, 'index', <n>) and to update_attribute(self, 'data', <n>) on one path are the same value",
        floor=1,
    )
    p = ctx.p
    conc = p.cls("Concatenator")
    sa_ = nview(ctx, conc.methods["save_attribute"])
    sc = Scope(sa_, p)
    g = CFG(sa_.node)

    def writes(n, what):
        if n.ast is None or isinstance(n.ast, list) or n.kind == "with":
            return None
        for c in ast.walk(n.ast):
            if isinstance(c, ast.Call) and call_name(c) == "update_attribute" and len(c.args) >= 3 and _const(sc.expand(c.args[1])) == what:
                return c
        return None

    idx = [(n, writes(n, "index")) for n in g.nodes if writes(n, "index")]
    dat = [(n, writes(n, "data")) for n in g.nodes if writes(n, "data")]
    if not idx or not dat:
        raise AnalysisError("Concatenator.save_attribute: update_attribute(self, 'index', ..) / (self, 'data', ..) not found")
    rd = Reaching(sa_.node)

    def same_value(a, na, b, nb):
        """Both names stand for the same value: same expression over locals that have the same reaching definitions at both sites."""
        if unparse(a) != unparse(b):
            ea, eb = sc.expand(a), sc.expand(b)
            if unparse(ea) != unparse(eb):
                return False
            a, b = ea, eb
        return all([d for d, _ in rd.at(na, x.id)] == [d for d, _ in rd.at(nb, x.id)] for x in ast.walk(a) if isinstance(x, ast.Name) and sc.defs.rebound(x.id))

    for nd, cd in dat:
        # the index writes that share a path with this data write
        mates = [(ni, ci) for ni, ci in idx if nd in reach(g, [ni]) or ni in reach(g, [nd])]
        ok = bool(mates) and all(same_value(ci.args[2], ni, cd.args[2], nd) for ni, ci in mates)
        res.inst(f"save_attribute:{cd.lineno} data channel `{unparse(cd.args[2])}` = index channel `{', '.join(unparse(ci.args[2]) for _, ci in mates)}`", nontrivial=True, ok=ok)
        if not ok:
            res.find("Concatenator", "save_attribute", "Index and Data of a name written under different channel names", f"{sa_.module.relpath}:{cd.lineno}",
                     "the index goes to the file under the translated label and the values under the untranslated one: for a data set whose name is "
                     "changed by the KEY_MAP / INV_KEY_MAP round trip ('Text', 'Float', 'cells', ...) the Index dataset is written and the Data dataset "
                     "is not — re-opening the file raises and no data of the group can be read")
    return res


def rule_columns(ctx) -> RuleResult:
    res = RuleResult(
        "C04.COLUMNS",
        "C04",
        "the columns of the group-wide depth table are gathered in the order of the names that label them: in "
        "DrillholesGroupTable._depth_table_by_key the loop that collects parent.data[<name>][...] per hole enumerates the very sequence "
        "handed to _create_structured_array as column names (not another sequence filtered by membership in it)",
        floor=1,
    )
    p = ctx.p
    fn = nview(ctx, "DrillholesGroupTable._depth_table_by_key")
    sc = Scope(fn, p)
    # the labels: what the function hands to _create_structured_array (as written: the view has that private helper expanded)
    raw = p.func("DrillholesGroupTable._depth_table_by_key")
    rsc = Scope(raw, p)
    mk = [c for c in ast.walk(raw.node) if isinstance(c, ast.Call) and call_name(c) == "_create_structured_array" and len(c.args) >= 2]
    if not mk:
        raise AnalysisError("DrillholesGroupTable._depth_table_by_key: _create_structured_array(table, names) not found")

    def label_roots(e):
        # the sequences the labels are made of: `names`, or `('Drillhole',) + names` on one path
        out = set()
        for s_ in rsc.sources(e):
            for x in ast.walk(s_):
                if isinstance(x, ast.Name):
                    out.add(x.id)
        return out

    labels = set()
    for c in mk:
        labels |= label_roots(c.args[1])
    # the enumerations that pick a column: loops / comprehension generators whose variable subscripts <parent>.data
    def column_enums(f):
        found = []
        for x in ast.walk(f.node):
            if isinstance(x, ast.Subscript) and isinstance(x.value, ast.Attribute) and x.value.attr in ("data", "_data") and isinstance(x.slice, ast.Name) and isinstance(x.ctx, ast.Load):
                var = x.slice.id
                best = None
                for h in ast.walk(f.node):
                    if isinstance(h, ast.For) and contains(h, x) and any(isinstance(t, ast.Name) and t.id == var for t in ast.walk(h.target)):
                        best = (h.iter, h) if best is None or contains(best[1], h) else best
                    if isinstance(h, (ast.ListComp, ast.GeneratorExp, ast.SetComp, ast.DictComp)) and contains(h, x):
                        for gen in h.generators:
                            if any(isinstance(t, ast.Name) and t.id == var for t in ast.walk(gen.target)):
                                best = (gen.iter, h) if best is None or contains(best[1], h) else best
                if best is not None and all(best[1] is not e_[1] for e_ in found):
                    found.append(best)
        return found

    sites = [(fn, sc, it, at, None) for it, at in column_enums(fn)]
    if not sites:
        # the per-hole block built by a helper of the class that is called where the view cannot expand it (inside a comprehension):
        # the helper's parameters stand for the arguments of the call
        for c in ast.walk(fn.node):
            if isinstance(c, ast.Call) and isinstance(c.func, ast.Attribute) and isinstance(c.func.value, ast.Name) and c.func.value.id == fn.params[0] and fn.cls is not None:
                m = fn.cls.lookup(c.func.attr)
                if m and m[1] == "method" and m[2].node is not raw.node:
                    h = nview(ctx, m[2])
                    hp = h.params[1:] if h.kind != "staticmethod" else h.params
                    binding = {prm: {x.id for x in ast.walk(a) if isinstance(x, ast.Name)} for i, prm in enumerate(hp) for a in [_arg(c, i, prm)] if a is not None}
                    sites += [(h, Scope(h, p), it, at, binding) for it, at in column_enums(h)]
    if not sites:
        raise AnalysisError("DrillholesGroupTable._depth_table_by_key: enumeration of the columns (parent.data[<name>]) not found")
    def seq_roots(e):
        # the names a sequence is enumerated FROM: membership tests and the filters / elements of a comprehension only select
        if isinstance(e, ast.Compare):
            return set()
        if isinstance(e, (ast.ListComp, ast.GeneratorExp, ast.SetComp)):
            return {r for gen in e.generators for r in seq_roots(gen.iter)}
        if isinstance(e, ast.Name):
            return {e.id}
        if isinstance(e, ast.Lambda):
            return set()
        return {r for ch in ast.iter_child_nodes(e) for r in seq_roots(ch)}

    for f, fsc, it, at, binding in sites:
        roots = {r for s_ in fsc.sources(it) for r in seq_roots(s_)}
        if binding is not None:
            roots = {r for nm in roots for r in binding.get(nm, ())}
        ok = bool(roots & labels)
        res.inst(f"{f.name}:{getattr(at, 'lineno', 0)} columns enumerated from the sequence that labels them", nontrivial=True, ok=ok)
        if not ok:
            res.find("DrillholesGroupTable", "_depth_table_by_key", "columns gathered from another sequence than the one that labels them", f"{f.module.relpath}:{getattr(at, 'lineno', f.node.lineno)}",
                     "depth_table_by_name(('b', 'a')) labels the columns ('b', 'a') and fills them in the order of the property group: the values of "
                     "one data set are listed under the name of another")
    return res


RULES = [rule_pair, rule_rekey, rule_rec, rule_esc, rule_defer, rule_fresh, rule_namekey, rule_skip, rule_order, rule_memo, rule_channel, rule_columns]
