"""C05 — deletion removes exactly the entity, its descendants and all references."""

from __future__ import annotations

import ast

from ..cfg import dominators
from ._c05_iter import IterMutX
from ..model import AnalysisError, unparse
from ..report import RuleResult
from ..roles import param
from ._c05_sem import Fx, KindFacts, containers_of_kind, covered_helpers, effectful, name_of, sem_view


def rule_itermut(ctx) -> RuleResult:
    res = RuleResult(
        "C05.ITERMUT",
        "C05",
        "no loop `for x in R.<list>` can reach — through resolved calls and the child.parent back-pointer — an "
        "in-place removal (remove/pop/del/clear) on the same list of the same object (elements would be skipped); "
        "iterating a copy or rebinding the list is safe",
        floor=25,
    )
    # the engine's loops, plus the same obligation behind a local alias / getattr / a comprehension or generator (see _c05_iter.py)
    im = IterMutX(ctx.p, max_depth=8 if ctx.tier == "quick" else 14)
    for fn, loop, owner, attr in im.loops():
        chain_ = im.check_loop(fn, loop, owner, attr)
        inst = f"{fn.qualname}:{loop.lineno} for {unparse(loop.target)} in {owner}.{attr}"
        res.inst(inst, nontrivial=True, ok=chain_ is None)
        if chain_:
            res.find(
                fn.cls.name if fn.cls else fn.module.short, fn.prop or fn.name,
                f"for {unparse(loop.target)} in {owner}.{attr} reaches in-place removal",
                f"{fn.module.relpath}:{loop.lineno}",
                f"the loop iterates {owner}.{attr} while its body can remove from that same list "
                f"({chain_[-1][0]}: {chain_[-1][2]}): every element following a removed one is skipped",
                call_chain=[f"{q} @{w}: {t}" for q, w, t in chain_],
            )
    res.notes.append(f"exploration: {im.stats}")
    return res


def rule_guard(ctx) -> RuleResult:
    res = RuleResult(
        "C05.GUARD",
        "C05",
        "in Workspace.remove_entity the `allow_delete` test with its raise dominates every call (the concatenated "
        "branch included): a refused request changes nothing",
        floor=4,
    )
    # decided on the paths, not on the spelling of the test: with the entity's allow_delete assumed OFF no path may reach a
    # call that an accepted request (allow_delete ON) also reaches, nor the normal exit (helpers expanded, aliases undone)
    fn = sem_view(ctx, "Workspace.remove_entity")
    ent = param(fn, 0)
    if ent is None:
        raise AnalysisError("C05.GUARD: Workspace.remove_entity has no entity parameter")
    F = Fx(fn)
    g = F.g
    flag = f"truthy:{ent}.allow_delete"
    off = F.reach([g.entry], ent, {flag: False})
    on = F.reach([g.entry], ent, {flag: True})
    guards = [n for n in off if F.decided(n, ent, {flag: False}) is not None]
    if not guards:
        res.inst("allow_delete guard present", ok=False)
        res.find("Workspace", "remove_entity", "no `if not entity.allow_delete: raise` guard", fn.where,
                 "the delete-permission test is gone or no longer raises: entities with allow_delete off are removed")
        return res
    bad = 0
    for n in g.nodes:
        if n not in on or n.kind == "raise":
            continue
        eff = effectful(F.calls(n))
        if not eff:
            continue
        ok = n not in off
        bad += not ok
        res.inst(f"remove_entity:{n.lineno} {unparse(eff[0])[:50]} dominated by the allow_delete guard", nontrivial=True, ok=ok)
        if not ok:
            res.find("Workspace", "remove_entity", f"{unparse(eff[0])[:50]} not dominated by the guard",
                     f"{fn.module.relpath}:{n.lineno}",
                     "a deletion effect is reachable without passing the allow_delete test")
    if g.exit in off and not bad:
        res.inst("allow_delete guard raises", ok=False)
        res.find("Workspace", "remove_entity", "no `if not entity.allow_delete: raise` guard", fn.where,
                 "the delete-permission test is gone or no longer raises: entities with allow_delete off are removed")
    return res


def _concat_remove_sites(ctx):
    """Call sites of Concatenator.remove_entity outside Concatenator.remove_entity itself: (raw function, Fx of its view, call).
    A private helper whose every call was expanded into its callers is judged there (in context), not on its own."""
    p = ctx.p
    conc = p.cls("Concatenator")

    def raw_hit(node):
        return any(isinstance(n, ast.Call) and name_of(n.func) == "remove_entity" for n in ast.walk(node))

    # only functions that can contain the call once helpers are expanded: they make it themselves, or call (by name, up to
    # the expansion depth) a function that does
    fns = [fn for fn in p.all_functions() if not (fn.cls is conc and fn.name == "remove_entity")]

    def mentioned(node):
        """names of the functions called, passed to a call (map(f, xs)) or listed in a literal table of callables"""
        out = set()
        for n in ast.walk(node):
            if isinstance(n, ast.Call):
                out.add(name_of(n.func))
                out |= {a.attr for a in n.args if isinstance(a, ast.Attribute)}
            elif isinstance(n, (ast.Tuple, ast.List)):
                out |= {e.attr for e in n.elts if isinstance(e, ast.Attribute)}
            elif isinstance(n, ast.Dict):
                out |= {e.attr for e in n.values if isinstance(e, ast.Attribute)}
        return out

    called = {fn: mentioned(fn.node) for fn in fns}
    hot = {fn for fn in fns if "remove_entity" in called[fn]}
    for _ in range(4):
        names = {fn.name for fn in hot}
        more = {fn for fn in fns if fn not in hot and called[fn] & names}
        if not more:
            break
        hot |= more
    cands = []
    for fn in fns:
        if fn not in hot:
            continue
        v = sem_view(ctx, fn)
        if raw_hit(v.node):
            cands.append((fn, v))
    out = []
    for fn, v in cands:
        F = Fx(v)
        for n in ast.walk(v.node):
            if isinstance(n, ast.Call) and isinstance(n.func, ast.Attribute) and n.func.attr == "remove_entity" and len(n.args) + len(n.keywords) == 1:
                recv = F.x(n.func.value)
                is_conc = (isinstance(recv, ast.Attribute) and recv.attr == "concatenator") or (
                    isinstance(recv, ast.Name) and recv.id == fn.self_name and fn.cls is not None and conc in fn.cls.mro
                )
                if is_conc:
                    out.append((fn, F, n))
    skip = covered_helpers(ctx, list({fn for fn, _, _ in out}))
    return [(fn, F, n) for fn, F, n in out if fn not in skip]


def rule_sibling(ctx) -> RuleResult:
    res = RuleResult(
        "C05.SIBLING",
        "C05",
        "every caller of Concatenator.remove_entity(E) (the removal of a concatenated entity's stored form) also drops E "
        "from its parent's child list on the same path — the removal entry points agree with ConcatenatedObject.remove_children",
        floor=3,
    )
    for fn, F, call in _concat_remove_sites(ctx):
        a0 = call.args[0] if call.args else call.keywords[0].value
        arg = F.xt(a0)  # aliases / bound helper parameters undone
        g = F.g
        site = F.node_of(call)
        if site is None:
            raise AnalysisError(f"C05.SIBLING: call site at {fn.qualname}:{call.lineno} not found in the control-flow graph")

        def drops(n, arg=arg, F=F):
            if n.ast is None or isinstance(n.ast, list):
                return False
            for c in F.calls(n):
                if not isinstance(c.func, ast.Attribute):
                    continue
                recv = F.x(c.func.value)
                if c.func.attr == "remove" and c.args and F.xt(c.args[0]) == arg:
                    if isinstance(recv, ast.Attribute) and recv.attr in ("_children", "children"):
                        return True
                if c.func.attr == "remove_children":
                    if any(arg in F.xt(a) for a in c.args) and unparse(recv) in (f"{arg}.parent", "parent"):
                        return True
            if n.kind == "stmt" and isinstance(n.ast, ast.Assign) and any(isinstance(t, ast.Attribute) and t.attr == "_children" for t in n.ast.targets):
                return True
            return False

        # a path from the site to the normal exit (or back to the loop head) that avoids every drop
        after = F.reach([m for m, _ in site.succ], avoid=drops)
        # drop may also precede the call within the same iteration: require it to dominate the site
        dom = dominators(g)
        before_ok = any(drops(d) for d in dom.get(site, ()) if d is not site)
        leak = (g.exit in after) and not before_ok and not drops(site)
        text = F.xt(call)[:60]
        inst = f"{fn.qualname}:{call.lineno} {text}"
        res.inst(inst, nontrivial=True, ok=not leak)
        if leak:
            # the key names a LOCAL by role (E), a parameter by its name: renaming a local does not change the finding's identity
            disp = arg if arg in fn.params else "E"
            res.find(fn.cls.name if fn.cls else fn.module.short, fn.prop or fn.name,
                     f"{text.replace(arg, disp)} without dropping {disp} from the parent's children",
                     f"{fn.module.relpath}:{call.lineno}",
                     f"{fn.qualname} removes the stored form of {arg} but a path reaches the exit without removing it from "
                     "its parent's _children (ConcatenatedObject.remove_children does both): the parent still lists the removed "
                     "entity and a later removal of the parent fails")
    return res


def rule_scrub(ctx) -> RuleResult:
    res = RuleResult(
        "C05.SCRUB",
        "C05",
        "in every remove_children implementation reached on an object class, on the Data branch the removal from "
        "_children is paired with the property-group scrub (remove_data_from_groups / concatenator.remove_entity), on the "
        "PropertyGroup branch with remove_property_group, and the file unlink (workspace.remove_children / "
        "concatenator.remove_entity) is on every normal path",
        floor=4,
    )
    p = ctx.p
    ob = p.cls("ObjectBase")
    impls = {}
    for K in p.subclasses(ob):
        m = K.lookup("remove_children")
        if m and m[1] == "method":
            impls.setdefault(m[2], []).append(K.name)
    if not impls:
        raise AnalysisError("C05.SCRUB: no remove_children implementation found on the ObjectBase family")
    for fn0, classes in impls.items():
        fn = sem_view(ctx, fn0)  # private helpers (the per-child body, ...) expanded in place
        F = Fx(fn)
        g = F.g
        sn = fn.self_name
        loops = [n for n in g.nodes if n.kind == "fornext"]

        def list_removal(n, F=F, sn=sn):
            """the argument of `self._children.remove(<child>)` (through aliases of the list), else None"""
            if n.kind != "stmt":
                return None
            for c in F.calls(n):
                if isinstance(c.func, ast.Attribute) and c.func.attr == "remove" and c.args and F.xt(c.func.value) == f"{sn}._children":
                    return c.args[0]
            return None

        def calls_named(names, F=F):
            return lambda n: F.has_call(n, lambda c: isinstance(c.func, ast.Attribute) and c.func.attr in names)

        def _on_concatenator(c, F=F):
            if not (isinstance(c.func, ast.Attribute) and c.func.attr == "remove_entity"):
                return False
            recv = F.x(c.func.value)
            return isinstance(recv, ast.Attribute) and recv.attr == "concatenator"

        scrub_data = calls_named({"remove_data_from_groups"})
        scrub_conc = lambda n, F=F: F.has_call(n, _on_concatenator)  # noqa: E731
        scrub_pg = calls_named({"remove_property_group"})
        unlink = lambda n, F=F, sn=sn: F.has_call(n, lambda c: isinstance(c.func, ast.Attribute) and c.func.attr == "remove_children" and F.xt(c.func.value) == f"{sn}.workspace") or scrub_conc(n)  # noqa: E731
        rems = [n for n in g.nodes if list_removal(n) is not None]
        rebinds = [n for n in g.nodes if n.kind == "stmt" and isinstance(n.ast, (ast.Assign, ast.AnnAssign))
                   and any(unparse(t) == f"{sn}._children" for t in (n.ast.targets if isinstance(n.ast, ast.Assign) else [n.ast.target]))]
        res.inst(f"{fn.qualname} (reached on {len(classes)} classes): {len(rems)} in-place removals, {len(rebinds)} rebinds", nontrivial=True)
        if not rems and not rebinds:
            res.find(fn.cls.name, fn.name, "no removal from self._children", fn.where,
                     "remove_children does not drop the children from the in-memory list")
            continue
        for kind, facts, scrub, what in (
            ("Data", {"Data": True, "PropertyGroup": False}, lambda n: scrub_data(n) or scrub_conc(n), "remove_data_from_groups(child)"),
            ("PropertyGroup", {"Data": False, "PropertyGroup": True, "ConcatenatedPropertyGroup": True, f"truthy:{sn}._property_groups": True, f"notnone:{sn}._property_groups": True}, lambda n: scrub_pg(n) or scrub_conc(n), "remove_property_group(child)"),
        ):
            for L in rems:
                # the child: what is removed from the list (a helper's parameter is traced back to the caller's variable)
                removed = F.x(list_removal(L))
                var = removed.id if isinstance(removed, ast.Name) else None
                if var is None:
                    for lp in loops:
                        if isinstance(lp.ast, ast.Name):
                            var = lp.ast.id
                # path loop-head -> L -> loop-head/exit avoiding the scrub, with kind-infeasible edges pruned
                heads = [m for lp in loops for m, l in lp.succ if l == "loop"] or [g.entry]
                pre = F.reach(heads, var, facts, avoid=scrub)
                if L not in pre:
                    ok = True
                else:
                    post = F.reach([m for m, _ in L.succ], var, facts, avoid=scrub, stop=lambda n: n.kind == "fornext")
                    ok = not any(n.kind == "fornext" or n is g.exit for n in post)
                res.inst(f"{fn.qualname}: {kind} child: _children.remove paired with {what}", nontrivial=True, ok=ok)
                if not ok:
                    res.find(fn.cls.name, fn.name, f"{kind} child removed from _children without {what}",
                             f"{fn.module.relpath}:{L.lineno}",
                             f"on the {kind} branch a path removes the child from self._children without the scrub "
                             f"({what}): property groups keep mentioning removed data / the object keeps the removed group")
        # file unlink on every normal path that removes something (before or after the removal)
        dom = dominators(g)
        for L in rems + rebinds:
            before = any(unlink(d) for d in dom.get(L, ()) if d is not L)
            after = g.exit not in F.reach([m for m, _ in L.succ], avoid=unlink)
            ok = before or after
            res.inst(f"{fn.qualname}:{L.lineno} removal paired with the file unlink", nontrivial=True, ok=ok)
            if not ok:
                res.find(fn.cls.name, fn.name, "a removing path skips the file unlink", f"{fn.module.relpath}:{L.lineno}",
                         "remove_children drops a child from memory but can return without workspace.remove_children(self, children) "
                         "/ concatenator.remove_entity: the file keeps the link")
    return res


def _file_removal_parts(F, c):
    """(uid expression, container expression) of a call that deletes a node through the writer:
    `<ws>._io_call(H5Writer.remove_entity, <uid>, <container>, ...)`, or a call to a method of the same class that only forwards two of its
    own parameters to such a call (a helper the normaliser could not expand, e.g. one that passes **kwargs on); None otherwise."""
    if not isinstance(c.func, ast.Attribute):
        return None
    if c.func.attr == "_io_call" and len(c.args) >= 3 and F.xt(c.args[0]) == "H5Writer.remove_entity":
        return c.args[1], c.args[2]
    fn = F.fn
    sn = fn.self_name
    if fn.cls is None or sn is None or F.xt(c.func.value) not in (sn, f"{sn}.workspace"):
        return None
    m = fn.cls.lookup(c.func.attr)
    if not m or m[1] != "method":
        return None
    h = m[2]
    ps = h.params[1:] if h.kind in ("method", "classmethod") else h.params
    body = [s_ for s_ in h.node.body if not (isinstance(s_, ast.Expr) and isinstance(s_.value, ast.Constant))]
    if len(body) != 1 or not isinstance(body[0], (ast.Expr, ast.Return)) or not isinstance(body[0].value, ast.Call):
        return None
    inner = body[0].value
    if not (isinstance(inner.func, ast.Attribute) and inner.func.attr == "_io_call" and len(inner.args) >= 3 and unparse(inner.args[0]).endswith("H5Writer.remove_entity")
            and isinstance(inner.args[1], ast.Name) and isinstance(inner.args[2], ast.Name) and inner.args[1].id in ps and inner.args[2].id in ps):
        return None
    bound = dict(zip(ps, c.args))
    bound.update({k.arg: k.value for k in c.keywords if k.arg})
    u, k = bound.get(inner.args[1].id), bound.get(inner.args[2].id)
    return (u, k) if u is not None and k is not None else None


def _is_file_removal(F, c, uid_of=None) -> bool:
    """a writer removal (see _file_removal_parts) of `<x>.uid`; uid_of: the name <x> must be (None: any)."""
    parts = _file_removal_parts(F, c)
    if parts is None:
        return False
    u = F.x(parts[0])
    return isinstance(u, ast.Attribute) and u.attr == "uid" and (uid_of is None or unparse(u.value) == uid_of)


def rule_file(ctx) -> RuleResult:
    res = RuleResult(
        "C05.FILE",
        "C05",
        "Workspace.remove_entity (non-concatenated path) reaches remove_recursively(entity) and then, for everything that "
        "is not a property group, _io_call(H5Writer.remove_entity, entity.uid, <container of its kind>, mode='r+'); "
        "remove_recursively visits the children before unlinking from the parent; the kind->container tables of "
        "str_from_type, write_entity, write_to_parent and fetch_handle agree",
        floor=6,
    )
    p = ctx.p
    fn = sem_view(ctx, "Workspace.remove_entity")
    ent = param(fn, 0)
    if ent is None:
        raise AnalysisError("C05.FILE: Workspace.remove_entity has no entity parameter")
    F = Fx(fn)
    g = F.g
    # an ordinary entity: not concatenated, not a property group (nor any of their subclasses)
    facts = KindFacts(p, None, {"Concatenated": False, "ConcatenatedPropertyGroup": False, "PropertyGroup": False},
                      excluded=[p.cls(k) for k in ("Concatenated", "ConcatenatedPropertyGroup", "PropertyGroup")])
    rec = lambda n: F.has_call(n, lambda c: isinstance(c.func, ast.Attribute) and c.func.attr == "remove_recursively" and c.args and F.xt(c.args[0]) == ent)  # noqa: E731
    file_rm = lambda n: F.has_call(n, lambda c: _is_file_removal(F, c, ent))  # noqa: E731

    r1 = F.reach([g.entry], ent, facts, avoid=rec)
    ok1 = g.exit not in r1
    res.inst("remove_entity: every normal non-concatenated path calls remove_recursively(entity)", nontrivial=True, ok=ok1)
    if not ok1:
        res.find("Workspace", "remove_entity", "path without remove_recursively(entity)", fn.where,
                 "an ordinary entity can be 'removed' without unlinking it from its parent and removing its children")
    r2 = F.reach([g.entry], ent, facts, avoid=file_rm)
    ok2 = g.exit not in r2
    res.inst("remove_entity: every normal path of a non-property-group entity deletes its node from the flat container", nontrivial=True, ok=ok2)
    if not ok2:
        res.find("Workspace", "remove_entity", "path without _io_call(H5Writer.remove_entity, entity.uid, ...)", fn.where,
                 "the removal only forgets the Python object; the node stays in the file until (and unless) the weak-reference sweep runs")
    # order: recursion before file removal
    rec_nodes = [n for n in g.nodes if rec(n)]
    file_nodes = [n for n in g.nodes if file_rm(n)]
    dom = dominators(g)
    ok3 = bool(rec_nodes) and all(any(r in dom.get(f, ()) for r in rec_nodes) for f in file_nodes)
    res.inst("remove_entity: remove_recursively dominates the flat-container deletion", nontrivial=True, ok=ok3)
    if not ok3 and file_nodes:
        res.find("Workspace", "remove_entity", "flat-container deletion not dominated by remove_recursively", fn.where,
                 "the node is deleted before / without the recursive removal of children and the unlink from the parent")
    # the container argument is str_from_type(entity)
    for f in file_nodes:
        for c in F.calls(f):
            if _is_file_removal(F, c, ent):
                src = F.x(_file_removal_parts(F, c)[1])
                ok = isinstance(src, ast.Call) and name_of(src.func) == "str_from_type" and len(src.args) == 1 and not src.keywords and unparse(src.args[0]) == ent
                shown = unparse(src)
                res.inst(f"remove_entity: container argument comes from {shown}", ok=ok)
                if not ok:
                    res.find("Workspace", "remove_entity", f"container argument {shown}", f"{fn.module.relpath}:{c.lineno}",
                             "the flat container is not derived from the entity's kind")
    # remove_recursively
    rr = sem_view(ctx, "Workspace.remove_recursively")
    e2 = param(rr, 0)
    if e2 is None:
        raise AnalysisError("C05.FILE: Workspace.remove_recursively has no entity parameter")
    R = Fx(rr)
    g2 = R.g
    unlink = lambda n: R.has_call(n, lambda c: isinstance(c.func, ast.Attribute) and c.func.attr == "remove_children" and c.args and e2 in R.names_in(c.args[0]))  # noqa: E731
    ok4 = g2.exit not in R.reach([g2.entry], avoid=unlink)
    res.inst("remove_recursively: parent.remove_children([entity]) on every normal path", nontrivial=True, ok=ok4)
    if not ok4:
        res.find("Workspace", "remove_recursively", "path without parent.remove_children([entity])", rr.where,
                 "the entity stays in its parent's child list (memory and file)")

    # the visit of the children: calls <workspace>.<method>(<child>) whose argument is drawn from <entity>.children (the variable
    # of a for loop / comprehension over a copy of the list, an element popped from a snapshot, ...), executed repeatedly
    loop_iters = {}
    for x in ast.walk(rr.node):
        if isinstance(x, (ast.For, ast.comprehension)) and isinstance(x.target, ast.Name):
            loop_iters.setdefault(x.target.id, []).append(x.iter)

    def from_children(expr, depth=0):
        for y in ast.walk(R.x(expr)):
            if isinstance(y, ast.Attribute) and y.attr in ("children", "_children") and e2 in {z.id for z in ast.walk(y.value) if isinstance(z, ast.Name)}:
                return True
            if isinstance(y, ast.Call) and name_of(y.func) == "getattr" and len(y.args) >= 2 and unparse(y.args[0]) == e2 \
                    and isinstance(y.args[1], ast.Constant) and y.args[1].value in ("children", "_children"):
                return True
            if isinstance(y, ast.Name) and depth < 3 and any(from_children(it, depth + 1) for it in loop_iters.get(y.id, ())):
                return True
        return False

    sn2 = rr.self_name
    in_comprehension = {id(c) for x in ast.walk(rr.node) if isinstance(x, (ast.ListComp, ast.SetComp, ast.GeneratorExp, ast.DictComp)) for c in ast.walk(x)}
    visits = []  # (CFG node, call)
    for n in g2.nodes:
        if n.kind in ("foriter", "fornext"):
            continue
        for c in R.calls(n):
            if isinstance(c.func, ast.Attribute) and c.args and from_children(c.args[0]):
                recv = R.xt(c.func.value)
                if recv in (sn2, f"{sn2}.workspace", f"{e2}.workspace") or (recv.endswith(".workspace") and from_children(c.func.value.value if isinstance(c.func.value, ast.Attribute) else c.func.value)):
                    if id(c) in in_comprehension or n in R.reach([m for m, _ in n.succ]):
                        visits.append((n, c))
    un_nodes = [n for n in g2.nodes if unlink(n)]
    vnodes = {n for n, _ in visits}
    ok5 = bool(visits) and all(not (set(R.reach([u])) & vnodes) for u in un_nodes)
    res.inst("remove_recursively: children are visited before the unlink from the parent", nontrivial=True, ok=ok5)
    if not ok5:
        res.find("Workspace", "remove_recursively", "children not visited before the unlink", rr.where,
                 "descendants are not removed (or are visited after the parent link is gone)")
    # each child is removed through a function that reaches the flat-container deletion
    ws = p.cls("Workspace")

    def reaches_file_removal(name):
        m = ws.lookup(name)
        if not m or m[1] != "method":
            return False
        V = Fx(sem_view(ctx, m[2]))  # the deletion may sit in a private helper of that method
        # direct, unconditional-by-structure calls only
        return any(_is_file_removal(V, c) for c in ast.walk(V.node) if isinstance(c, ast.Call))

    if visits:
        through = sorted({c.func.attr for _, c in visits})
        ok = all(reaches_file_removal(m) for m in through)
        res.inst(f"remove_recursively: each child goes through {through} (must contain the flat-container deletion)", nontrivial=True, ok=ok)
        if not ok:
            res.find("Workspace", "remove_recursively", f"children removed through {through}, which does not delete their node",
                     f"{rr.module.relpath}:{min(n.lineno for n, _ in visits)}",
                     "descendants are unlinked from their parents but their nodes stay in the flat Objects / Data containers of the file")
    # tables: for an entity of each kind, the container name each function can choose on the paths feasible for that kind
    expect = {"Data": "Data", "Group": "Groups", "ObjectBase": "Objects"}
    for spec, idx in (("Workspace.str_from_type", 0), ("H5Writer.write_entity", 1), ("H5Writer.write_to_parent", 1), ("H5Writer.fetch_handle", 1)):
        tf = sem_view(ctx, spec)
        var = param(tf, "entity") or param(tf, idx)
        if var is None:
            raise AnalysisError(f"C05.FILE: {spec} has no entity parameter")
        for k, v in expect.items():
            names = containers_of_kind(p, tf, var, p.cls(k), ctx=ctx)
            got = None if not names else (next(iter(names)) if len(names) == 1 else sorted(names))
            ok = got == v
            res.inst(f"{tf.name}: kind {k} -> container {got!r}", ok=ok)
            if not ok:
                res.find(tf.cls.name, tf.name, f"kind {k} maps to {got!r}, expected {v!r}", tf.where,
                         "the kind->container tables of the removal path and of the writer disagree: a removed entity's node stays in "
                         "its real container")
    return res


def _key_prefix(expr):
    """the constant head of a formatted key: f"Property:{name}" / "Property:" + name / "Property:%s" % name -> "Property:" """
    if isinstance(expr, ast.JoinedStr) and expr.values and isinstance(expr.values[0], ast.Constant) and isinstance(expr.values[0].value, str) and len(expr.values) > 1:
        return expr.values[0].value
    if isinstance(expr, ast.BinOp) and isinstance(expr.op, ast.Add) and isinstance(expr.left, ast.Constant) and isinstance(expr.left.value, str):
        return expr.left.value
    if isinstance(expr, ast.BinOp) and isinstance(expr.op, ast.Mod) and isinstance(expr.left, ast.Constant) and isinstance(expr.left.value, str) and "%" in expr.left.value:
        return expr.left.value.split("%", 1)[0] or None
    if isinstance(expr, ast.Call) and isinstance(expr.func, ast.Attribute) and expr.func.attr == "format" and isinstance(expr.func.value, ast.Constant) \
            and isinstance(expr.func.value.value, str) and "{" in expr.func.value.value:
        return expr.func.value.value.split("{", 1)[0] or None
    return None


def _is_record(F, expr) -> bool:
    """<concatenator>.get_concatenated_attributes(...): the attribute record of a concatenated entity (through aliases)"""
    x = F.x(expr)
    return isinstance(x, ast.Call) and name_of(x.func) == "get_concatenated_attributes"


def _record_links(ctx):
    """{key prefix: [(class that writes it, function)]}: the links `<record of the PARENT>[<prefix><name>] = ...` an entity writes
    into its parent's concatenated attribute record when it is attached."""
    out = {}
    for fn in ctx.p.all_functions():
        if fn.cls is None or not any(isinstance(n, ast.Call) and name_of(n.func) == "get_concatenated_attributes" for n in ast.walk(fn.node)):
            continue
        v = sem_view(ctx, fn)
        F = None
        for n in ast.walk(v.node):
            if isinstance(n, ast.Call) and isinstance(n.func, ast.Attribute) and n.func.attr == "setdefault" and n.args:
                F = F or Fx(v)
                pre = _key_prefix(F.x(n.args[0]))
                if pre and _is_record(F, n.func.value) and "parent" in F.xt(n.func.value):
                    out.setdefault(pre, []).append((fn.cls, fn))
            if isinstance(n, (ast.Assign, ast.AnnAssign)):
                for t in (n.targets if isinstance(n, ast.Assign) else [n.target]):
                    if isinstance(t, ast.Subscript):
                        F = F or Fx(v)
                        pre = _key_prefix(F.x(t.slice))
                        if pre and _is_record(F, t.value) and "parent" in F.xt(t.value):
                            out.setdefault(pre, []).append((fn.cls, fn))
    return out


def rule_concat(ctx) -> RuleResult:
    res = RuleResult(
        "C05.CONCAT",
        "C05",
        "Concatenator.remove_entity scrubs every reference to the removed entity on EVERY normal path of its kind: for a "
        "concatenated data the rows of values (update_array_attribute(.., remove=True)) and the `<prefix><name>` link that the "
        "data wrote into its parent's attribute record when it was attached (the deleting side agrees with the writing side); "
        "for an object its children and its id in concatenated_object_ids; for a property group the parent's "
        "remove_property_group; for all of them their own record (attributes_keys and concatenated_attributes['Attributes'])",
        floor=5,
    )
    p = ctx.p
    fn = sem_view(ctx, "Concatenator.remove_entity")
    ent = param(fn, 0)
    sn = fn.self_name
    if ent is None or sn is None:
        raise AnalysisError("C05.CONCAT: Concatenator.remove_entity has no entity parameter")
    F = Fx(fn)
    g = F.g
    # the normal state of an opened concatenator: its tables are loaded
    loaded = {}
    for a in ("concatenated_attributes", "attributes_keys", "concatenated_object_ids"):
        loaded[f"notnone:{sn}.{a}"] = True
        loaded[f"truthy:{sn}.{a}"] = True

    def every_path(kind, pred, extra=None, pred_env=None):
        facts = dict(loaded)
        facts.update(extra or {})
        return g.exit not in F.reach([g.entry], ent, KindFacts(p, p.cls(kind), facts), avoid=pred, avoid_env=pred_env)

    def removes_from(n, what):
        """`<what>.remove(..)` / `.pop(..)` / `del <what>[..]` / a re-binding of `<what>` (filtered copy), `what` compared through aliases"""
        for c in F.calls(n):
            if isinstance(c.func, ast.Attribute) and c.func.attr in ("remove", "pop", "discard") and what(F.x(c.func.value)):
                return True
        if n.kind == "stmt" and isinstance(n.ast, ast.Delete):
            return any(isinstance(t, ast.Subscript) and what(F.x(t.value)) for t in n.ast.targets)
        if n.kind == "stmt" and isinstance(n.ast, (ast.Assign, ast.AnnAssign)):
            return any(what(t) for t in (n.ast.targets if isinstance(n.ast, ast.Assign) else [n.ast.target]) if isinstance(t, ast.Attribute))
        return False

    def attr_of_self(name):
        return lambda x: isinstance(x, ast.Attribute) and x.attr in (name, "_" + name) and unparse(x.value) == sn

    def attributes_list(x):
        return isinstance(x, ast.Subscript) and isinstance(x.slice, ast.Constant) and x.slice.value == "Attributes" \
            and isinstance(x.value, ast.Attribute) and x.value.attr in ("concatenated_attributes", "_concatenated_attributes")

    def deletes_link(prefix):
        def pred(n):
            if n.kind == "stmt" and isinstance(n.ast, ast.Delete):
                for t in n.ast.targets:
                    if isinstance(t, ast.Subscript) and _key_prefix(F.x(t.slice)) == prefix and _is_record(F, t.value):
                        return True
            for c in F.calls(n):
                if isinstance(c.func, ast.Attribute) and c.func.attr == "pop" and c.args and _key_prefix(F.x(c.args[0])) == prefix and _is_record(F, c.func.value):
                    return True
            return False
        return pred

    def call_named(name, extra=lambda c: True):
        return lambda n: F.has_call(n, lambda c: isinstance(c.func, ast.Attribute) and c.func.attr == name and extra(c))

    def kw_true(c, key):
        return any(k.arg == key and isinstance(k.value, ast.Constant) and k.value.value is True for k in c.keywords)

    checks = []  # (kind, what (key text), predicate, message)
    links = _record_links(ctx)
    if not links:
        raise AnalysisError("C05.CONCAT: no `<parent record>[<prefix><name>] = ...` link found on the attaching side (anchor ConcatenatedData.parent moved?)")
    for prefix, writers in sorted(links.items()):
        for K in sorted({k.name for k, _ in writers}):
            checks.append((K, f"the parent's '{prefix}<name>' link deleted", deletes_link(prefix),
                           f"{writers[0][1].qualname} writes '{prefix}<name>' into the parent's attribute record; a path of remove_entity for a {K} returns "
                           "without deleting it: the parent keeps listing the removed entity (get_data_list, and on file after re-opening)"))
    checks.append(("ConcatenatedData", "the rows of values removed (update_array_attribute(.., remove=True))",
                   call_named("update_array_attribute", lambda c: kw_true(c, "remove") and c.args and F.xt(c.args[0]) == ent),
                   "a path removes a concatenated data without deleting its rows in the concatenated arrays"))
    checks.append(("ConcatenatedObject", "its children removed", call_named("remove_children", lambda c: F.xt(c.func.value) == ent),
                   "a path removes a concatenated object without removing its children"))
    checks.append(("ConcatenatedObject", "its id removed from concatenated_object_ids", lambda n: removes_from(n, attr_of_self("concatenated_object_ids")),
                   "a path removes a concatenated object but keeps its id in the list of concatenated object ids"))
    checks.append(("ConcatenatedPropertyGroup", "parent.remove_property_group(entity)",
                   call_named("remove_property_group", lambda c: c.args and F.xt(c.args[0]) == ent),
                   "a path removes a concatenated property group without detaching it from its parent"))
    for K in ("ConcatenatedData", "ConcatenatedObject", "ConcatenatedPropertyGroup"):
        checks.append((K, "its key removed from attributes_keys", lambda n: removes_from(n, attr_of_self("attributes_keys")),
                       "a path leaves the removed entity's key in attributes_keys: its record is still found by get_concatenated_attributes"))
        checks.append((K, "its record removed from concatenated_attributes['Attributes']", lambda n: removes_from(n, attributes_list),
                       "a path leaves the removed entity's record in the concatenated attributes written to file"))
    # the arrays an object writes about ITSELF when it is saved (add_save_concatenated: update_array_attribute(child, "<field>")) are
    # removed with it (update_array_attribute(entity, "<field>", remove=True)), under the same hasattr guards
    wr = sem_view(ctx, "Concatenator.add_save_concatenated")
    wchild = param(wr, 0)
    W = Fx(wr)
    own_fields = {}
    for n in W.g.nodes:
        for c in W.calls(n):
            if isinstance(c.func, ast.Attribute) and c.func.attr == "update_array_attribute" and len(c.args) >= 2 and not kw_true(c, "remove") and W.xt(c.args[0]) == wchild:
                fld = W.x(c.args[1])
                if isinstance(fld, ast.Constant) and isinstance(fld.value, str):
                    # hasattr tests whose outcome is fixed on every path to this call
                    guards = {}
                    for t in W.g.nodes:
                        if t.kind != "test":
                            continue
                        tt = W.test(t)
                        if isinstance(tt, ast.Call) and name_of(tt.func) == "hasattr" and len(tt.args) == 2 and W.xt(tt.args[0]) == wchild and isinstance(tt.args[1], ast.Constant):
                            for lab, val in (("true", True), ("false", False)):
                                cut = [m for m, l in t.succ if l == lab]
                                if cut and n not in W.reach([W.g.entry], avoid=lambda x, cut=cut, t=t: x in cut and all(p_ is t for p_, _ in x.pred)):
                                    guards["hasattr:" + str(tt.args[1].value)] = val
                    own_fields[fld.value] = guards
    for fld, guards in sorted(own_fields.items()):
        extra = dict(guards)
        extra.setdefault("hasattr:" + fld, True)
        extra.setdefault("hasattr:_" + fld, True)

        def removes_field(n, env, fld=fld):
            for c in F.calls(n):
                if isinstance(c.func, ast.Attribute) and c.func.attr == "update_array_attribute" and kw_true(c, "remove") and len(c.args) >= 2 and F.xt(c.args[0]) == ent:
                    a = F.x(c.args[1])
                    v = a.value if isinstance(a, ast.Constant) else env.get(a.id) if isinstance(a, ast.Name) else None
                    if v == fld:
                        return True
            return False

        ok = every_path("ConcatenatedObject", lambda n: False, extra, removes_field)
        res.inst(f"remove_entity, ConcatenatedObject: the rows of its own '{fld}' array removed on every normal path", nontrivial=True, ok=ok)
        if not ok:
            res.find("Concatenator", "remove_entity", f"ConcatenatedObject: a path without its own '{fld}' rows removed", fn.where,
                     f"add_save_concatenated writes the object's '{fld}' array into the concatenated data and index (update_array_attribute(child, '{fld}')); "
                     f"remove_entity never removes those rows (update_array_attribute(entity, '{fld}', remove=True)): the removed object's rows stay in the group's "
                     "arrays on file")
    # concatenated data are loaded lazily: the accessors of the object that load them (they reach create_from_concatenation) are the
    # only way to get hold of the members of a property group that were never loaded in this session.  On the paths of a property
    # group that HAS members, the removal goes through such an accessor of the parent (a scan of the loaded children finds nothing
    # right after opening the file: the group would go, its data stay)
    co = p.cls("ConcatenatedObject")
    loaders, grew = set(), True
    owners = [c for c in co.mro if not isinstance(c, str)] + p.subclasses(co, strict=True)
    meths = {}
    for c in owners:
        for nm, f_ in c.methods.items():
            meths.setdefault(nm, []).append(f_)
    while grew:
        grew = False
        for nm, fs in meths.items():
            if nm in loaders:
                continue
            for f_ in fs:
                s_ = f_.self_name
                if any(isinstance(c, ast.Call) and (name_of(c.func) == "create_from_concatenation"
                                                     or (isinstance(c.func, ast.Attribute) and c.func.attr in loaders and unparse(c.func.value) == s_))
                       for c in ast.walk(f_.node)):
                    loaders.add(nm)
                    grew = True
                    break
    if not loaders:
        raise AnalysisError("C05.CONCAT: no lazily loading accessor (a method reaching create_from_concatenation) found on ConcatenatedObject")
    has_members = {f"truthy:{ent}.properties": True, f"notnone:{ent}.properties": True}

    def is_loader_call(c):
        return isinstance(c, ast.Call) and isinstance(c.func, ast.Attribute) and c.func.attr in loaders and F.xt(c.func.value) in (f"{ent}.parent", f"{ent}._parent")

    def loads_members(n):
        if F.has_call(n, is_loader_call):
            return True
        # a loop over the members themselves (known to be non-empty on these paths) runs at least once: what its body does is done
        if n.kind == "foriter" and isinstance(n.stmt, ast.For):
            from ..kinds import tv as _tv
            from ._c05_sem import _Bools

            it = _Bools().visit(F.x(n.stmt.iter))
            if _tv(it, ent, has_members) is True and any(is_loader_call(c) for s_ in n.stmt.body for c in ast.walk(s_)):
                return True
        return False

    ok = every_path("ConcatenatedPropertyGroup", loads_members, has_members)
    res.inst("remove_entity, ConcatenatedPropertyGroup with members: they are looked up through a loading accessor of the parent "
             f"({', '.join(sorted(loaders))}) on every normal path", nontrivial=True, ok=ok)
    if not ok:
        res.find("Concatenator", "remove_entity", "ConcatenatedPropertyGroup: members not looked up through a loading accessor of the parent", fn.where,
                 "concatenated data are loaded lazily; a path removes a property group that has members without going through an accessor of the parent "
                 f"that loads them ({', '.join(sorted(loaders))}): right after opening the file the group goes and its never-loaded data stay "
                 "(records, rows and the parent's Property:<name> links)")
    for K, what, pred, msg in checks:
        present = any(pred(n) for n in g.nodes)
        ok = present and every_path(K, pred)
        res.inst(f"remove_entity, {K}: {what} on every normal path", nontrivial=True, ok=ok)
        if not ok:
            res.find("Concatenator", "remove_entity", f"{K}: a path without {what}" if present else f"{K}: never {what}", fn.where, msg)
    return res


C05_FILES = ("workspace/workspace.py", "objects/object_base.py", "shared/entity_container.py", "groups/property_group.py",
             "shared/concatenation/concatenator.py", "shared/concatenation/object.py", "groups/base.py")


def rule_oneshot(ctx) -> RuleResult:
    res = RuleResult(
        "C05.ONESHOT",
        "C05",
        "in the removal code no one-shot iterator (generator expression, map, filter, zip) is bound to a name and then consumed "
        "inside a loop or more than once: the second consumer would see nothing and leave its references behind",
        floor=1,
    )
    p = ctx.p
    n_fn = 0
    for rel in C05_FILES:
        mod = p.module(rel)
        fns = list(mod.functions.values()) + [f for c in mod.classes.values() for f in list(c.methods.values()) + [x for pr in c.props.values() for x in (pr.getter, pr.setter) if x]]
        for fn in fns:
            n_fn += 1
            gens = {}
            for a in ast.walk(fn.node):
                if isinstance(a, ast.Assign) and len(a.targets) == 1 and isinstance(a.targets[0], ast.Name):
                    v = a.value
                    if isinstance(v, ast.GeneratorExp) or (isinstance(v, ast.Call) and isinstance(v.func, ast.Name) and v.func.id in ("map", "filter", "zip", "iter", "reversed")):
                        gens[a.targets[0].id] = a
            for name, a in gens.items():
                uses = [n for n in ast.walk(fn.node) if isinstance(n, ast.Name) and n.id == name and isinstance(n.ctx, ast.Load)]
                in_loop = False
                for lp in ast.walk(fn.node):
                    if isinstance(lp, (ast.For, ast.While)) and a not in list(ast.walk(lp)):
                        if any(u in list(ast.walk(s_)) for s_ in lp.body for u in uses):
                            in_loop = True
                ok = len(uses) <= 1 and not in_loop
                res.inst(f"{fn.qualname}: one-shot iterator `{name}` used {len(uses)} time(s), inside a loop: {in_loop}", nontrivial=True, ok=ok)
                if not ok:
                    res.find(fn.cls.name if fn.cls else fn.module.short, fn.prop or fn.name, f"one-shot iterator `{name}` consumed repeatedly", f"{fn.module.relpath}:{a.lineno}",
                             f"`{name} = {unparse(a.value)[:50]}` is exhausted by its first consumer; every later consumer (loop iteration) gets an empty "
                             "sequence: the remaining property groups / children are not scrubbed")
    res.instances.append(f"{n_fn} functions of the removal code scanned for one-shot iterators bound to names")
    return res


# --------------------------------------------------------------------------------------------------------------------------
# C05.SWEEP — "afterwards ... later operations on the survivors succeed": the writer's remove_entity opens
# <project>/<ref_type> unconditionally, so every container name that can reach it must be one the file layout has (the
# groups init_geoh5 creates under the project).  Property groups live under their object, not in a top-level container: a
# sweep that hands "PropertyGroups" to the writer raises KeyError from the listing of the survivors.
def _file_removal_container(c):
    """Container argument of a call that removes a node through the writer: `X._io_call(H5Writer.remove_entity, uid, C, ..)`
    or `H5Writer.remove_entity(file, uid, C, ..)`; None for any other call."""
    f = c.func
    if isinstance(f, ast.Attribute) and f.attr == "_io_call" and len(c.args) >= 3 and unparse(c.args[0]).endswith("H5Writer.remove_entity"):
        return c.args[2]
    if isinstance(f, ast.Attribute) and f.attr == "remove_entity" and unparse(f.value) in ("H5Writer", "cls") and len(c.args) >= 3:
        return c.args[2]
    return None


def _returned_constants(p, fn, e, const_values):
    """Constants a call `self.f(..)` / `cls.f(..)` / `f(..)` can return when every return of f is a constant (None returns
    are left out: the kind -> container table itself is C05.FILE's clause); None when it cannot be told."""
    from ..normalize import single_assignments

    if isinstance(e, ast.Name):
        e = single_assignments(fn.node).get(e.id, e)
    if not isinstance(e, ast.Call):
        return None
    f, target = e.func, None
    if isinstance(f, ast.Attribute) and isinstance(f.value, ast.Name) and fn.cls is not None:
        owner = fn.cls if f.value.id in ("self", "cls", fn.self_name) else None
        if owner is None:
            r = p.resolve_name(fn.module, f.value.id)
            owner = r[1] if r and r[0] == "class" else None
        m = owner.lookup(f.attr) if owner is not None else None
        if m and m[1] == "method":
            target = m[2]
    elif isinstance(f, ast.Name):
        r = p.resolve_name(fn.module, f.id)
        if r and r[0] == "func":
            target = r[1]
    if target is None:
        return None
    out = set()
    for r in ast.walk(target.node):
        if isinstance(r, ast.Return) and r.value is not None:
            vs = const_values(r.value, target.node)
            if vs is None:
                return None
            out |= {v for v in vs if v is not None}
    return out or None


class _AnyName:
    def __contains__(self, x):
        return isinstance(x, str)


def _kind_constants(ctx, fn, arg):
    """Names a kind -> container function can return for the entity kinds, when it is not a plain chain of constant returns (a loop
    over a table, a delegation to another function): evaluated per kind as C05.FILE does; None when it cannot be told."""
    from ._c05_sem import _bound_callee, _delegate

    F = Fx(fn)
    call = F.x(arg)
    if not isinstance(call, ast.Call) or len(call.args) != 1 or not isinstance(call.args[0], ast.Name):
        return None
    d = _delegate(ctx.p, fn, F, call, call.args[0].id)
    if d is None:
        return None
    out = set()
    for k in ("Data", "Group", "ObjectBase"):
        out |= containers_of_kind(ctx.p, _bound_callee(ctx, d[0], d[2]), d[1], ctx.p.cls(k), universe=_AnyName(), ctx=ctx, _depth=1)
    return out or None


def rule_sweep(ctx) -> RuleResult:
    res = RuleResult(
        "C05.SWEEP",
        "C05",
        "every container name that can reach H5Writer.remove_entity — a constant at the call, or the value a caller passes for "
        "the parameter it is taken from, on a path the tests on that parameter leave open — is one of the groups init_geoh5 "
        "creates directly under the project",
        floor=3,
    )
    from ..cfg import CFG
    from ..h5den import Den
    from ..kinds import reach
    from ..roles import const_values

    p = ctx.p
    W = p.cls("H5Writer")
    init = ctx.view(W.methods["init_geoh5"])
    d = Den(init, p)
    layout = set()
    for c in ast.walk(init.node):
        if isinstance(c, ast.Call) and isinstance(c.func, ast.Attribute) and c.func.attr in ("create_group", "require_group") and c.args:
            for path in d.paths(c):
                if len(path) == 2 and path[0] == ("PROJECT",) and path[1][0] == "const":
                    layout |= set(path[1][1])
    if len(layout) < 3:
        raise AnalysisError(f"C05.SWEEP: init_geoh5 creates {sorted(layout)} under the project: layout not recognised")
    funcs = [f for f in p.all_functions() if f.cls is None or f.cls is not W]
    graphs = {}

    def reaching(f0, q, call, depth):
        """({value: origin} that reach `call` inside f0 for its parameter q, {value: origin} that the tests on q keep away)."""
        if depth > 3:
            raise AnalysisError(f"C05.SWEEP: container parameter of {f0.qualname} forwarded through more than 3 functions")
        fv = ctx.view(f0)
        slot = fv.params.index(q) - (1 if fv.kind in ("method", "classmethod") else 0)
        passed = {}
        upstream_shut = {}
        for caller in funcs:
            cv = None
            for cc0 in ast.walk(caller.node):
                if not (isinstance(cc0, ast.Call) and ((isinstance(cc0.func, ast.Attribute) and cc0.func.attr == f0.name) or (isinstance(cc0.func, ast.Name) and cc0.func.id == f0.name))):
                    continue
                a = next((k.value for k in cc0.keywords if k.arg == q), cc0.args[slot] if len(cc0.args) > slot else None)
                if a is None:
                    continue
                vs = const_values(a, caller.node)
                if vs is None:
                    vs = _returned_constants(p, caller, a, const_values)
                if vs is not None:
                    for v in vs:
                        passed.setdefault(v, f"{caller.qualname}:{cc0.lineno}")
                elif isinstance(a, ast.Name) and a.id in caller.params:
                    if caller.node is f0.node and a.id == q:
                        continue  # recursion handing the parameter on
                    up, shut = reaching(caller, a.id, cc0, depth + 1)
                    for v, at in up.items():
                        passed.setdefault(v, at)
                    for v, at in shut.items():
                        upstream_shut.setdefault(v, at)  # kept away by a test of the forwarding caller: still an evaluated obligation
                else:
                    raise AnalysisError(f"C05.SWEEP: {caller.qualname}:{cc0.lineno} passes a container that is not a constant to {f0.name}")
        if not passed:
            raise AnalysisError(f"C05.SWEEP: no caller of {f0.qualname} found for its container parameter {q}")
        # the call may sit in the view (helpers expanded) or in the function as written: locate it in whichever graph has it
        for cand in (fv, f0):
            FX = graphs.setdefault(id(cand.node), Fx(cand))  # tests evaluated with local aliases / flags undone (`has_node = rtype != ".."`)
            g = FX.g
            site = [n for n in g.nodes if n.ast is not None and not isinstance(n.ast, list) and n.kind != "with" and any(x is call for x in ast.walk(n.ast))]
            if site:
                break
        else:
            raise AnalysisError(f"C05.SWEEP: call at line {call.lineno} of {f0.qualname} not found in its flow graph")
        yes, no = {}, {}
        for v, at in passed.items():
            seen = FX.reach([g.entry], q, {"const:" + q: v})
            (yes if any(n in seen for n in site) else no)[v] = at
        for v, at in upstream_shut.items():
            if v not in yes:
                no.setdefault(v, at)
        return yes, no

    for fn0 in funcs:
        if not any(isinstance(c, ast.Call) and _file_removal_container(c) is not None for c in ast.walk(fn0.node)):
            continue
        fn = ctx.view(fn0)
        owner = fn.cls.name if fn.cls else fn.module.short
        g = None
        for c in [x for x in ast.walk(fn.node) if isinstance(x, ast.Call)]:
            arg = _file_removal_container(c)
            if arg is None:
                continue
            where = f"{fn.module.relpath}:{c.lineno}"
            vals = const_values(arg, fn.node)
            if vals is None:
                vals = _returned_constants(p, fn, arg, const_values)
            if vals is None:
                vals = _kind_constants(ctx, fn, arg)
            if vals is not None:
                bad = sorted(str(v) for v in vals if v not in layout)
                res.inst(f"{owner}.{fn.name}:{c.lineno} removes from {sorted(map(str, vals))}", nontrivial=True, ok=not bad)
                for v in bad:
                    res.find(owner, fn.name, f"writer removal from container '{v}' that the file layout does not have", where,
                             f"H5Writer.remove_entity opens <project>/{v}: KeyError, the operation on the survivors fails")
                continue
            if isinstance(arg, ast.Name) and arg.id in fn.params:
                open_vals, shut_vals = reaching(fn0, arg.id, c, 0)
                for v, at in sorted(open_vals.items(), key=lambda kv: str(kv[0])):
                    ok = v in layout
                    res.inst(f"{owner}.{fn.name}:{c.lineno} container '{v}' (from {at}) reaches the writer", nontrivial=True, ok=ok)
                    if not ok:
                        res.find(owner, fn.name, f"writer removal from container '{v}' that the file layout does not have", where,
                                 f"{at} passes '{v}', H5Writer.remove_entity opens <project>/{v}: KeyError, the operation on the survivors fails")
                for v, at in sorted(shut_vals.items(), key=lambda kv: str(kv[0])):
                    res.inst(f"{owner}.{fn.name}:{c.lineno} container '{v}' (from {at}) does not reach the writer", nontrivial=True, ok=True)
                continue
            raise AnalysisError(f"C05.SWEEP: container argument {unparse(arg)[:40]} of the removal at {where} is neither a constant nor a parameter")
    return res


# --------------------------------------------------------------------------------------------------------------------------
# C05.ALIAS — the `children` property hands out the list self._children BY REFERENCE, so the request of
# `x.remove_children(x.children)` IS that list.  An implementation that edits self._children in place must work on a
# snapshot of the request taken before the first edit: iterating the request skips every other child, and handing it
# on afterwards (workspace.remove_children) unlinks on file what is left, not what was removed.
_FRESH_CALLS = ("list", "tuple", "sorted", "set", "frozenset", "copy", "deepcopy", "reversed", "filter", "map")


def _may_be_same_list(expr, names) -> bool:
    """can `expr` evaluate to the very list object one of `names` holds (no copy in between)?"""
    if isinstance(expr, ast.Name):
        return expr.id in names
    if isinstance(expr, ast.IfExp):
        return _may_be_same_list(expr.body, names) or _may_be_same_list(expr.orelse, names)
    if isinstance(expr, ast.BoolOp):
        return any(_may_be_same_list(v, names) for v in expr.values)
    if isinstance(expr, ast.NamedExpr):
        return _may_be_same_list(expr.value, names)
    return False


def rule_alias(ctx) -> RuleResult:
    from ..cfg import forward

    res = RuleResult(
        "C05.ALIAS",
        "C05",
        "the children property returns self._children by reference, so the request of remove_children may be that very list: an "
        "implementation that edits self._children in place neither iterates the request nor reads it afterwards unless it "
        "took a snapshot of it first (rebinding self._children to a new list is safe)",
        floor=3,
    )
    p = ctx.p
    base = p.cls("EntityContainer")
    impls = {}
    for K in p.subclasses(base):
        m = K.lookup("remove_children")
        if m and m[1] == "method":
            impls.setdefault(m[2], []).append(K)
    if not impls:
        raise AnalysisError("C05.ALIAS: no remove_children implementation found on the EntityContainer family")
    for fn0, classes in sorted(impls.items(), key=lambda kv: kv[0].qualname):
        # does any of the classes hand its list out by reference?
        shared = []
        for K in classes:
            c = K.lookup("children")
            if not c or c[1] != "prop" or c[2].getter is None:
                continue
            gv = sem_view(ctx, c[2].getter)
            G = Fx(gv)
            gs = gv.self_name
            if any(isinstance(r, ast.Return) and r.value is not None and G.xt(r.value) in (f"{gs}._children",) for r in ast.walk(gv.node)):
                shared.append(K.name)
        fn = sem_view(ctx, fn0)
        req = param(fn, 0)
        sn = fn.self_name
        if req is None or sn is None:
            raise AnalysisError(f"C05.ALIAS: {fn0.qualname} has no request parameter")
        F = Fx(fn)
        g = F.g

        def edits_in_place(n, F=F, sn=sn):
            own = f"{sn}._children"
            for c in F.calls(n):
                if isinstance(c.func, ast.Attribute) and c.func.attr in ("remove", "pop", "clear") and F.xt(c.func.value) == own:
                    return True
            if n.kind == "stmt" and isinstance(n.ast, ast.Delete):
                return any(isinstance(t, ast.Subscript) and F.xt(t.value) == own for t in n.ast.targets)
            return False

        edits = [n for n in g.nodes if edits_in_place(n)]
        res.inst(f"{fn.qualname} (reached on {len(classes)} classes, list shared by {len(shared)}): {len(edits)} in-place edits of {sn}._children", nontrivial=True)
        if not shared or not edits:
            continue

        # names that may still hold the caller's list (forward may-analysis; a copy / a new list ends it)
        def transfer(n, st):
            if n.kind == "stmt" and isinstance(n.ast, (ast.Assign, ast.AnnAssign)) and n.ast.value is not None:
                out = set(st)
                for t in (n.ast.targets if isinstance(n.ast, ast.Assign) else [n.ast.target]):
                    if isinstance(t, ast.Name):
                        (out.add if _may_be_same_list(n.ast.value, st) else out.discard)(t.id)
                return frozenset(out)
            return st

        IN = forward(g, frozenset([req]), transfer, lambda a, b: a | b)

        def reads(n, names):
            if n.ast is None or isinstance(n.ast, list):
                return False
            roots = [it.context_expr for it in n.ast.items] if n.kind == "with" else [n.ast]
            return any(isinstance(y, ast.Name) and isinstance(y.ctx, ast.Load) and y.id in names for r in roots for y in ast.walk(r))

        after = F.reach([m for e in edits for m, _ in e.succ])
        looped = [n for n in g.nodes if n.kind == "foriter" and n in IN and _may_be_same_list(n.ast, IN[n])
                  and any(e in F.reach([m for m, _ in n.succ]) and n.succ and any(t in F.reach([m for m, _ in e.succ]) for t, _ in n.succ) for e in edits)]
        ok1 = not looped
        res.inst(f"{fn.qualname}: the loop that edits {sn}._children in place does not iterate the request itself", nontrivial=True, ok=ok1)
        if not ok1:
            res.find(fn.cls.name, fn.name, "request iterated while self._children is edited in place", f"{fn.module.relpath}:{looped[0].lineno}",
                     f"x.remove_children(x.children) passes {sn}._children itself (the children property of {', '.join(shared[:3])} returns it by reference): "
                     "removing from it while iterating skips every other child, half of the children stay listed and alive")
        late = [n for n in after if n.kind not in ("foriter", "fornext") and n in IN and not edits_in_place(n) and reads(n, IN[n])
                and not any(n is x for x in looped)]
        ok2 = not late
        res.inst(f"{fn.qualname}: the request is not read after {sn}._children was edited in place", nontrivial=True, ok=ok2)
        if not ok2:
            first = min(late, key=lambda n: n.lineno)
            res.find(fn.cls.name, fn.name, "request read after self._children was edited in place", f"{fn.module.relpath}:{first.lineno}",
                     f"when the request is {sn}._children itself it has lost the removed children by now: what is handed on / tested afterwards "
                     "(the unlink on file) is what is left, not what was removed")
    return res


# --------------------------------------------------------------------------------------------------------------------------
# C05.CHILDREF — "once the caller has dropped its own references ... no lookup still yields a removed entity": besides
# _children, a container may remember ONE OF ITS CHILDREN in a field of its own (a getter that scans self.children and
# keeps what it found).  That field is a second strong reference and a second way to reach the child: the
# remove_children implementation reached on the class must write it (reset it) as well.
def _child_memo_fields(ctx, K):
    """{field: function} — fields `self.F` that some method / getter on K's MRO fills with an element of self.children:
    `for c in self.children: ... self.F = c`, `self.F = next((c for c in self.children if ..), None)`, `self.F = [c for c in self.children if ..]`."""
    out = {}
    for C in K.mro:
        if isinstance(C, str):
            continue
        fns = list(C.methods.values()) + [x for pr in C.props.values() for x in (pr.getter, pr.setter) if x]
        for f0 in fns:
            if f0.name in ("remove_children",) or not any(isinstance(n, ast.Attribute) and n.attr in ("children", "_children") for n in ast.walk(f0.node)):
                continue
            fn = sem_view(ctx, f0)
            sn = fn.self_name
            if sn is None:
                continue
            F = Fx(fn)

            def own_children(e, F=F, sn=sn):
                return any(isinstance(y, ast.Attribute) and y.attr in ("children", "_children") and unparse(y.value) == sn for y in ast.walk(F.x(e)))

            def self_field(t, sn=sn):
                return t.attr if isinstance(t, ast.Attribute) and unparse(t.value) == sn else None

            for lp in ast.walk(fn.node):
                if isinstance(lp, ast.For) and isinstance(lp.target, ast.Name) and own_children(lp.iter):
                    for a in [x for s_ in lp.body for x in ast.walk(s_)]:
                        if isinstance(a, ast.Assign) and isinstance(a.value, ast.Name) and a.value.id == lp.target.id:
                            for t in a.targets:
                                if self_field(t):
                                    out.setdefault(self_field(t), f0)
                if isinstance(lp, ast.Assign):
                    v = lp.value
                    if isinstance(v, ast.Call) and name_of(v.func) == "next" and v.args:
                        v = v.args[0]
                    if isinstance(v, (ast.GeneratorExp, ast.ListComp)) and len(v.generators) == 1 and isinstance(v.generators[0].target, ast.Name) \
                            and isinstance(v.elt, ast.Name) and v.elt.id == v.generators[0].target.id and own_children(v.generators[0].iter):
                        for t in lp.targets:
                            if self_field(t) and self_field(t) not in ("_children",):
                                out.setdefault(self_field(t), f0)
    out.pop("_children", None)
    return out


def rule_childref(ctx) -> RuleResult:
    res = RuleResult(
        "C05.CHILDREF",
        "C05",
        "a field in which a container remembers one of its children (filled by scanning self.children) is written by the "
        "remove_children implementation reached on that class: the removed child is not kept alive and reachable through it",
        floor=1,
    )
    p = ctx.p
    base = p.cls("EntityContainer")
    seen = set()
    for K in sorted(p.subclasses(base), key=lambda c: c.name):
        m = K.lookup("remove_children")
        if not m or m[1] != "method":
            continue
        memo = _child_memo_fields(ctx, K)
        if not memo:
            continue
        impl = sem_view(ctx, m[2])
        sn = impl.self_name
        F = Fx(impl)
        written = set()
        for n in ast.walk(impl.node):
            tgs = n.targets if isinstance(n, (ast.Assign, ast.Delete)) else [n.target] if isinstance(n, (ast.AnnAssign, ast.AugAssign)) else []
            for t in tgs:
                if isinstance(t, ast.Attribute) and F.xt(t.value) == sn:
                    written.add(t.attr)
                    # a property with a setter: what the setter stores
                    pr = K.lookup(t.attr)
                    if pr and pr[1] == "prop" and pr[2].setter is not None:
                        sv = pr[2].setter
                        written |= {y.attr for a in ast.walk(sv.node) if isinstance(a, (ast.Assign, ast.AnnAssign))
                                    for y in (a.targets if isinstance(a, ast.Assign) else [a.target]) if isinstance(y, ast.Attribute) and unparse(y.value) == sv.self_name}
            if isinstance(n, ast.Call) and name_of(n.func) in ("setattr", "delattr") and len(n.args) >= 2 and isinstance(n.args[1], ast.Constant) and F.xt(n.args[0]) == sn:
                written.add(n.args[1].value)
        for field, src in sorted(memo.items()):
            key = (m[2], field)
            ok = field in written
            if key in seen:
                continue
            seen.add(key)
            res.inst(f"{m[2].qualname}: resets {sn}.{field} (filled from the children by {src.qualname})", nontrivial=True, ok=ok)
            if not ok:
                res.find(m[2].cls.name, "remove_children", f"field {field} keeps a removed child", m[2].where,
                         f"{src.qualname} remembers a child in {sn}.{field}; {m[2].qualname} removes children without ever writing that field: after "
                         "the removal the object still holds and returns the removed child, and the workspace still finds it by uid")
    return res


# --------------------------------------------------------------------------------------------------------------------------
# C05.DEFERRED — removal through the parent only unlinks the child; the node in the flat container is deleted later, by the
# sweep of the workspace's weak tables (Workspace.remove_none_referents: dead key -> writer removal).  Two necessary
# conditions of "deletes it from the file": (1) the sweep of every entity table runs before a writable file is closed,
# (2) nothing else forgets a dead key of such a table (the sweep could no longer find the node to delete).
def _sweep_calls(ctx, f0):
    """[(table attribute, container | None)] of the sweeps `<self>.remove_none_referents(<self>.<table>, "<container>")` a function
    makes, on its view (a helper that forwards the table and the container is expanded; aliases undone)."""
    if not any(isinstance(c, ast.Call) and name_of(c.func) not in (None,) for c in ast.walk(f0.node)):
        return []
    fn = sem_view(ctx, f0)
    if not any(isinstance(c, ast.Call) and name_of(c.func) == "remove_none_referents" for c in ast.walk(fn.node)):
        return []
    sn = fn.self_name
    F = Fx(fn)
    out = []
    for c in ast.walk(fn.node):
        if isinstance(c, ast.Call) and name_of(c.func) == "remove_none_referents" and c.args:
            a = F.x(c.args[0])
            k = F.x(c.args[1]) if len(c.args) > 1 else next((F.x(kw.value) for kw in c.keywords if kw.arg == "rtype"), None)
            if isinstance(a, ast.Attribute) and unparse(a.value) == sn:
                out.append((a.attr, k.value if isinstance(k, ast.Constant) else None))
    return out


def _swept_tables(ctx, ws):
    """{table attribute: container} of the workspace's sweeps, for the flat entity containers."""
    out = {}
    for f0 in list(ws.methods.values()) + [pr.getter for pr in ws.props.values() if pr.getter]:
        if f0.name == "remove_none_referents":
            continue
        for t, cont in _sweep_calls(ctx, f0):
            if cont in ("Data", "Groups", "Objects"):
                out[t] = cont
    return out


def _assume(expr, value_of):
    """three-valued value of a test whose atoms are valued by `value_of` (True / False / None = unknown)"""
    v = value_of(expr)
    if v is not None:
        return v
    if isinstance(expr, ast.Constant):
        return bool(expr.value)
    if isinstance(expr, ast.UnaryOp) and isinstance(expr.op, ast.Not):
        v = _assume(expr.operand, value_of)
        return None if v is None else not v
    if isinstance(expr, ast.BoolOp):
        vals = [_assume(v, value_of) for v in expr.values]
        if isinstance(expr.op, ast.And):
            return False if any(v is False for v in vals) else (True if all(v is True for v in vals) else None)
        return True if any(v is True for v in vals) else (False if all(v is False for v in vals) else None)
    return None


_FILE_MODES = ("r", "r+", "a", "w", "w-", "x")


def _writable_mode(e):
    """value of a comparison of a mode (the handle's `.mode`, the mode the workspace was asked to open with, ...: any attribute
    compared with file-mode constants only) for a workspace that is WRITABLE, i.e. whose modes are 'r+' or 'a': True / False; None
    when it is not such a comparison or the two writable modes disagree"""
    if not (isinstance(e, ast.Compare) and len(e.ops) == 1 and isinstance(e.left, ast.Attribute)):
        return None
    rhs = e.comparators[0]
    if isinstance(rhs, ast.Constant):
        consts = [rhs.value]
    elif isinstance(rhs, (ast.List, ast.Tuple, ast.Set)) and rhs.elts and all(isinstance(x, ast.Constant) for x in rhs.elts):
        consts = [x.value for x in rhs.elts]
    else:
        return None
    if not all(c in _FILE_MODES for c in consts):
        return None
    vals = set()
    for mode in ("r+", "a"):
        op = e.ops[0]
        if isinstance(op, (ast.In, ast.NotIn)) and not isinstance(rhs, ast.Constant):
            v = mode in consts
            vals.add(v if isinstance(op, ast.In) else not v)
        elif isinstance(op, (ast.Eq, ast.NotEq)) and isinstance(rhs, ast.Constant):
            v = mode == rhs.value
            vals.add(v if isinstance(op, ast.Eq) else not v)
        else:
            return None
    return vals.pop() if len(vals) == 1 else None


def rule_deferred(ctx) -> RuleResult:
    res = RuleResult(
        "C05.DEFERRED",
        "C05",
        "the deletion of an unlinked entity's node is left to the sweep of the workspace's weak tables: Workspace.close sweeps "
        "every entity table on the writable path before the file handle is closed, and no other function forgets a dead key of a "
        "swept table without asking the writer to delete the node",
        floor=4,
    )
    p = ctx.p
    ws = p.cls("Workspace")
    tables = _swept_tables(ctx, ws)
    if not tables:
        raise AnalysisError("C05.DEFERRED: no sweep of an entity table found on Workspace")
    # (0) the registry each kind of entity is kept in (Workspace.register: insert_once(self.<table>, ..) on the paths of that kind) is a swept table
    expect = {"Data": "Data", "Group": "Groups", "ObjectBase": "Objects"}
    regs = [f0 for f0 in ws.methods.values() if any(isinstance(c, ast.Call) and name_of(c.func) == "insert_once" for c in ast.walk(f0.node))]
    for f0 in regs:
        rv = sem_view(ctx, f0)
        ev = param(rv, 0)
        rs = rv.self_name
        if ev is None or rs is None:
            continue

        def registries(R, feasible):
            # the first argument of the registrations reached for this kind: self.<table> itself, a local / a helper's result that stands for
            # it, getattr(self, <name chosen per kind>)
            return [(c.args[0], n) for n in feasible for c in R.calls(n) if name_of(c.func) == "insert_once" and c.args]

        for kname, cont in expect.items():
            regd = {x[1:] for x in containers_of_kind(p, rv, ev, p.cls(kname), universe=_AnyName(), ctx=ctx, symbols=True, probe=registries) if x.startswith(".")}
            if not regd:
                raise AnalysisError(f"C05.DEFERRED: {f0.qualname}: the registry of {kname} entities (first argument of insert_once) could not be determined")
            for t in sorted(regd):
                ok = tables.get(t) == cont
                res.inst(f"{f0.qualname}: {kname} entities are kept in {rs}.{t}, swept into '{tables.get(t)}'", nontrivial=True, ok=ok)
                if not ok:
                    res.find("Workspace", f0.name, f"registry {t} of {kname} entities is not swept into '{cont}'", f0.where,
                             f"{kname} entities are registered in {rs}.{t}; no sweep of the workspace deletes the dead entries of that table from '{cont}' "
                             "(Workspace.remove_none_referents): an unlinked entity is never deleted from the file")
    # (1) which tables a function sweeps, through the workspace's own methods and property getters
    memo = {}

    def sweeps(f0, depth=0):
        if f0 in memo:
            return memo[f0]
        memo[f0] = set()
        out = {t for t, _ in _sweep_calls(ctx, f0) if t in tables} if f0.name != "remove_none_referents" else set()
        sn = f0.self_name
        for n in ast.walk(f0.node):
            if isinstance(n, ast.Attribute) and sn is not None and unparse(n.value) == sn and depth < 3:
                m = ws.lookup(n.attr)
                if m and m[1] == "method" and m[2] is not f0 and m[2].name not in ("remove_none_referents", "close"):
                    out |= sweeps(m[2], depth + 1)
                elif m and m[1] == "prop" and m[2].getter is not None:
                    out |= sweeps(m[2].getter, depth + 1)
        memo[f0] = out
        return out

    fn = sem_view(ctx, "Workspace.close")
    sn = fn.self_name
    F = Fx(fn)
    g = F.g
    handle = (f"{sn}.geoh5", f"{sn}._geoh5")
    closes = [n for n in g.nodes if n.kind != "with" and F.has_call(n, lambda c: isinstance(c.func, ast.Attribute) and c.func.attr == "close" and not c.args
                                                                      and F.xt(c.func.value) in handle)]

    def releases(w):
        """`with closing(<handle>)` / `with <handle>`: the handle is closed when the block is left"""
        for it in w.items:
            e = F.x(it.context_expr)
            if isinstance(e, ast.Call) and name_of(e.func) == "closing" and len(e.args) == 1:
                e = e.args[0]
            if unparse(e) in handle:
                return True
        return False

    closes += [n for n in g.nodes if n.kind == "withexit" and isinstance(n.stmt, ast.With) and releases(n.stmt)]
    if not closes:
        raise AnalysisError("C05.DEFERRED: Workspace.close: the call that closes the file handle was not found")

    def node_sweeps(n):
        out = set()
        if n.ast is None or isinstance(n.ast, list):
            return out
        roots = [it.context_expr for it in n.ast.items] if n.kind == "with" else [n.ast]
        for r in roots:
            for y in ast.walk(r):
                if isinstance(y, ast.Call) and name_of(y.func) == "remove_none_referents" and y.args:
                    a = F.x(y.args[0])
                    if isinstance(a, ast.Attribute) and unparse(a.value) == sn and a.attr in tables:
                        out.add(a.attr)
                if isinstance(y, ast.Attribute) and unparse(y.value) == sn:
                    m = ws.lookup(y.attr)
                    if m and m[1] == "method" and m[2].name not in ("remove_none_referents", "close"):
                        out |= sweeps(m[2])
                    elif m and m[1] == "prop" and m[2].getter is not None:
                        out |= sweeps(m[2].getter)
        return out

    per_node = {n: node_sweeps(n) for n in g.nodes}

    def mode_test(e, depth=0):
        """a comparison of modes, or a call to a one-line predicate on modes that was not expanded (`is_write_mode(<handle>.mode)`)"""
        v = _writable_mode(e)
        if v is not None or not isinstance(e, ast.Call) or e.keywords or depth > 2:
            return v
        r = p.resolve_expr(fn.module, e.func) if isinstance(e.func, (ast.Name, ast.Attribute)) else None
        target = r[1] if r and r[0] == "func" else None
        if target is None:
            return None
        body = [s_ for s_ in target.node.body if not (isinstance(s_, ast.Expr) and isinstance(s_.value, ast.Constant))]
        ps = target.params[1:] if target.kind in ("method", "classmethod") else target.params
        if len(body) != 1 or not isinstance(body[0], ast.Return) or body[0].value is None or len(ps) != len(e.args):
            return None
        import copy

        mapping = dict(zip(ps, e.args))

        class S(ast.NodeTransformer):
            def visit_Name(self, n):
                return copy.deepcopy(mapping[n.id]) if n.id in mapping and isinstance(n.ctx, ast.Load) else n

        return _assume(S().visit(copy.deepcopy(body[0].value)), lambda x: mode_test(x, depth + 1))

    def reach_writable(avoid):
        seen, stack = set(), [g.entry]
        while stack:
            n = stack.pop()
            if n in seen or avoid(n):
                continue
            seen.add(n)
            succ = n.succ
            if n.kind == "test":
                v = _assume(F.test(n), mode_test)
                if v is not None:
                    succ = [(m, l) for m, l in n.succ if l != ("false" if v else "true")]
            # NORMAL paths only: an exception out of a try / with body is not a close() that completed without the sweep
            stack.extend(m for m, l in succ if l not in ("exc", "raise"))
        return seen

    for t, cont in sorted(tables.items()):
        open_ = reach_writable(lambda n, t=t: t in per_node[n])
        ok = not any(c in open_ for c in closes)
        res.inst(f"Workspace.close: {sn}.{t} ('{cont}') swept on the writable path before the file is closed", nontrivial=True, ok=ok)
        if not ok:
            res.find("Workspace", "close", f"table {t} not swept before a writable file is closed", fn.where,
                     f"an entity unlinked from its parent (parent.remove_children) and dropped by the caller is deleted from '{cont}' only by the sweep of "
                     f"{sn}.{t}; close() reaches the closing of the file without it: the node stays in the file and is found by uid after re-opening")
    # (2) dead keys of a swept table forgotten elsewhere
    for f0 in list(ws.methods.values()) + [x for pr in ws.props.values() for x in (pr.getter, pr.setter) if x]:
        if f0.name == "remove_none_referents":
            continue
        s0 = f0.self_name
        if s0 is None or not any(isinstance(y, ast.Attribute) and y.attr in tables for y in ast.walk(f0.node)) \
                and not any(isinstance(y, ast.Constant) and y.value in tables for y in ast.walk(f0.node)) and f0 not in regs:
            continue
        fv = f0  # the function as written: a callee that forgets keys must be seen as a call, not expanded in place
        FV = Fx(fv)
        subj = param(fv, 0)

        def tables_of(arg, call):
            """the swept tables an argument can stand for: self.<table> (through aliases), getattr(self, "<table>"), or — in a function of an
            entity — a local / helper result / getattr chosen per kind"""
            x = FV.x(arg)
            if isinstance(x, ast.Attribute) and unparse(x.value) == s0:
                return {x.attr} & set(tables)
            if isinstance(x, ast.Call) and name_of(x.func) == "getattr" and len(x.args) >= 2 and unparse(x.args[0]) == s0 and isinstance(x.args[1], ast.Constant):
                return {x.args[1].value} & set(tables)
            if subj is None or not isinstance(x, (ast.Name, ast.Call)):
                return set()
            out_ = set()

            def at_call(F_, feas):
                n_ = F_.node_of(call)
                return [(arg, n_)] if n_ is not None and n_ in feas else []

            for kname in expect:
                vs = containers_of_kind(p, fv, subj, p.cls(kname), universe=_AnyName(), ctx=ctx, symbols=True, probe=at_call)
                out_ |= {v[1:] for v in vs if v.startswith(".")} & set(tables)
            return out_

        for c in ast.walk(fv.node):
            if not isinstance(c, ast.Call) or name_of(c.func) in ("getattr", "isinstance", "remove_none_referents"):
                continue
            hits = [(i, t) for i, a in enumerate(c.args) if isinstance(a, (ast.Attribute, ast.Name, ast.Call)) for t in sorted(tables_of(a, c))]
            if not hits:
                continue
            r = p.resolve_expr(f0.module, c.func) if isinstance(c.func, (ast.Name, ast.Attribute)) else None
            target = r[1] if r and r[0] == "func" else None
            if target is None and isinstance(c.func, ast.Attribute) and unparse(c.func.value) == s0:
                m = ws.lookup(c.func.attr)
                target = m[2] if m and m[1] == "method" else None
            if target is None or target.name == "remove_none_referents" and target.cls is ws:
                continue
            ps = target.params[1:] if target.kind in ("method", "classmethod") else target.params
            for i, t in hits:
                if i >= len(ps):
                    continue
                q = ps[i]
                drops = any((isinstance(n, ast.Delete) and any(isinstance(x, ast.Subscript) and unparse(x.value) == q for x in n.targets))
                            or (isinstance(n, ast.Call) and isinstance(n.func, ast.Attribute) and n.func.attr in ("pop", "popitem", "clear") and unparse(n.func.value) == q)
                            for n in ast.walk(target.node))
                deletes_node = any(isinstance(n, ast.Call) and _file_removal_container(n) is not None for n in ast.walk(target.node))
                ok = not drops or deletes_node
                res.inst(f"{f0.qualname}: {target.qualname}({s0}.{t}) {'forgets keys' if drops else 'keeps the keys'}", nontrivial=True, ok=ok)
                if not ok:
                    res.find("Workspace", f0.prop or f0.name, f"{target.name} forgets dead keys of {t} without deleting their node", f"{f0.module.relpath}:{c.lineno}",
                             f"{target.qualname} deletes the key of a dead reference from {s0}.{t}; the node of that entity in '{tables[t]}' is deleted only by the sweep "
                             "(Workspace.remove_none_referents), which can no longer see it: a lookup of a removed entity keeps its node on file for good")
    return res


# --------------------------------------------------------------------------------------------------------------------------
# C05.MEMBER — list.remove raises when the element is gone.  While remove_children works through its request, the scrub of
# one child can RE-ENTER remove_children for another one (removing the last datum of a property group deletes the emptied
# group, which is a child too), so "it was a child when the request was filtered" does not hold any more when its turn comes:
# every in-place `self._children.remove(x)` must be unreachable, within its iteration, when x is not in self._children
# (a membership test on the way, or the removal tolerates the miss).  Otherwise the loop aborts half-way: the remaining
# children are not removed and the file unlink is skipped.
def _reached_when_absent(F, starts, goal, elem, own, through_loops=False):
    """nodes reachable on normal paths from `starts` when `elem` is NOT in the list `own`: membership tests of that element in that list
    (aliases undone) take the branch of "absent"; the search stops at `goal` and (unless through_loops) at the next loop head"""
    def absent(e):
        if isinstance(e, ast.Compare) and len(e.ops) == 1 and isinstance(e.ops[0], (ast.In, ast.NotIn)) \
                and unparse(e.left) == elem and unparse(e.comparators[0]) == own:
            return isinstance(e.ops[0], ast.NotIn)
        if isinstance(e, ast.Call) and isinstance(e.func, ast.Attribute) and e.func.attr in ("count", "__contains__") and len(e.args) == 1 \
                and unparse(e.func.value) == own and unparse(e.args[0]) == elem:
            return False
        return None

    seen, stack = set(), list(starts)
    while stack:
        x = stack.pop()
        if x in seen:
            continue
        seen.add(x)
        if x is goal or (x.kind == "fornext" and not through_loops):
            continue
        succ = x.succ
        if x.kind == "test":
            v = _assume(F.test(x), absent)
            if v is not None:
                succ = [(m, l) for m, l in x.succ if l != ("false" if v else "true")]
        stack.extend(m for m, l in succ if l not in ("exc", "raise"))
    return seen


def rule_member(ctx) -> RuleResult:
    res = RuleResult(
        "C05.MEMBER",
        "C05",
        "in every remove_children implementation that edits self._children in place, `self._children.remove(x)` cannot be reached — from "
        "the start of its loop iteration — when x is not (any more) in self._children: a membership test decides on the way, or the "
        "removal sits in a try / suppress",
        floor=2,
    )
    p = ctx.p
    base = p.cls("EntityContainer")
    impls = {}
    for K in p.subclasses(base):
        m = K.lookup("remove_children")
        if m and m[1] == "method":
            impls.setdefault(m[2], []).append(K)
    if not impls:
        raise AnalysisError("C05.MEMBER: no remove_children implementation found on the EntityContainer family")
    for fn0 in sorted(impls, key=lambda f: f.qualname):
        fn = sem_view(ctx, fn0)
        sn = fn.self_name
        F = Fx(fn)
        g = F.g
        own = f"{sn}._children"
        sites = []  # (node, removed element text)
        for n in g.nodes:
            if n.kind != "stmt":
                continue
            for c in F.calls(n):
                if isinstance(c.func, ast.Attribute) and c.func.attr == "remove" and len(c.args) == 1 and F.xt(c.func.value) == own:
                    sites.append((n, F.xt(c.args[0])))
        res.inst(f"{fn.qualname}: {len(sites)} in-place `{own}.remove(..)`", nontrivial=True)
        for n, elem in sites:
            if any(l == "exc" for _, l in n.succ):
                res.inst(f"{fn.qualname}:{n.lineno} {own}.remove({elem}) tolerates a miss (try / suppress)", nontrivial=True, ok=True)
                continue

            # the start of the iteration the removal belongs to (the innermost loop head that reaches it and that it reaches back), else the entry
            heads = [h for h in g.nodes if h.kind == "fornext" and n in F.reach([m for m, l in h.succ if l == "loop"], stop=lambda x: x.kind == "fornext")
                     and h in F.reach([m for m, _ in n.succ])]
            starts = [m for h in heads[-1:] for m, l in h.succ if l == "loop"] or [g.entry]
            seen = _reached_when_absent(F, starts, n, elem, own)
            if n in seen and heads and isinstance(heads[-1].stmt, ast.For) and unparse(heads[-1].stmt.target) == elem:
                # the loop draws its elements from a LAZY generator of the object: what the generator tests right before it yields an
                # element holds when the body starts on that element
                it = F.x(heads[-1].stmt.iter)
                gen = None
                if isinstance(it, ast.GeneratorExp) and len(it.generators) == 1 and isinstance(it.generators[0].target, ast.Name) \
                        and isinstance(it.elt, ast.Name) and it.elt.id == it.generators[0].target.id:
                    # a generator EXPRESSION is lazy too: its conditions are evaluated when each element is reached (a list comprehension is not)
                    tname = it.generators[0].target.id

                    def gone(e, tname=tname):
                        if isinstance(e, ast.Compare) and len(e.ops) == 1 and isinstance(e.ops[0], (ast.In, ast.NotIn)) \
                                and unparse(e.left) == tname and F.xt(e.comparators[0]) == own:
                            return isinstance(e.ops[0], ast.NotIn)
                        return None

                    from ._c05_sem import _Bools

                    if any(_assume(_Bools().visit(F.x(cnd)), gone) is False for cnd in it.generators[0].ifs):
                        seen = set()
                if isinstance(it, ast.Call) and isinstance(it.func, ast.Attribute) and unparse(it.func.value) == sn and fn.cls is not None:
                    m_ = fn.cls.lookup(it.func.attr)
                    gen = m_[2] if m_ and m_[1] == "method" else None
                if gen is not None and any(isinstance(y, ast.Yield) for y in ast.walk(gen.node)) and not any(isinstance(y, ast.YieldFrom) for y in ast.walk(gen.node)):
                    G = Fx(gen)
                    gown = f"{gen.self_name}._children"
                    ys = [(yn, G.xt(y.value)) for yn in G.g.nodes for y in ([x for x in ast.walk(yn.ast) if isinstance(x, ast.Yield)] if yn.ast is not None and not isinstance(yn.ast, list) and yn.kind != "with" else [])
                          if y.value is not None]
                    if ys and all(yn not in _reached_when_absent(G, [G.g.entry], yn, ye, gown, through_loops=True) for yn, ye in ys):
                        seen = set()
            ok = n not in seen
            res.inst(f"{fn.qualname}:{n.lineno} {own}.remove({elem}) not reached when {elem} is not in the list", nontrivial=True, ok=ok)
            if not ok:
                res.find(fn.cls.name, fn.name, "in-place removal reached for an element that may be gone from self._children", f"{fn.module.relpath}:{n.lineno}",
                         f"the scrub of one child can re-enter remove_children for another (the last datum of a property group takes the emptied group with it): "
                         f"by the time its turn comes {elem} may not be in {own} any more, list.remove raises, the loop aborts and the file unlink is skipped")
    return res


RULES = [rule_guard, rule_itermut, rule_sibling, rule_scrub, rule_file, rule_oneshot, rule_concat, rule_sweep, rule_alias, rule_childref, rule_deferred, rule_member]
