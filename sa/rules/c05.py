"""C05 — deletion removes exactly the entity, its descendants and all references."""

from __future__ import annotations

import ast

from ..cfg import CFG, dominators, find_path, forward
from ..itermut import IterMut
from ..model import AnalysisError, chain, unparse
from ..report import RuleResult


def rule_itermut(ctx) -> RuleResult:
    res = RuleResult(
        "C05.ITERMUT",
        "C05",
        "no loop `for x in R.<list>` can reach — through resolved calls and the child.parent back-pointer — an "
        "in-place removal (remove/pop/del/clear) on the same list of the same object (elements would be skipped); "
        "iterating a copy or rebinding the list is safe",
        floor=25,
    )
    im = IterMut(ctx.p, max_depth=8 if ctx.tier == "quick" else 14)
    for fn, loop, owner, attr in im.loops():
        chain_ = im.check_loop(fn, loop, owner, attr)
        inst = f"{fn.qualname}:{loop.lineno} for {unparse(loop.target)} in {owner}.{attr}"
        res.inst(inst, nontrivial=True, ok=chain_ is None)
        if chain_:
            res.find(
                fn.cls.name if fn.cls else fn.module.short, fn.prop or fn.name,
                f"for {unparse(loop.target)} in {owner}.{attr} reaches in-place removal",
                f"{fn.module.relpath}:{loop.lineno}",
                f"the loop iterates {owner}.{attr} while its body can remove from that same list "
                f"({chain_[-1][0]}: {chain_[-1][2]}): every element following a removed one is skipped",
                call_chain=[f"{q} @{w}: {t}" for q, w, t in chain_],
            )
    res.notes.append(f"exploration: {im.stats}")
    return res




from ..kinds import feasible_succ, has_call, reach, tv


def _only_raises(g, start) -> bool:
    seen, stack = set(), [start]
    while stack:
        n = stack.pop()
        if n in seen:
            continue
        seen.add(n)
        if n is g.exit:
            return False
        if n.kind == "raise":
            continue
        stack.extend(m for m, _ in n.succ)
    return True


def rule_guard(ctx) -> RuleResult:
    res = RuleResult(
        "C05.GUARD",
        "C05",
        "in Workspace.remove_entity the `allow_delete` test with its raise dominates every call (the concatenated "
        "branch included): a refused request changes nothing",
        floor=4,
    )
    fn = ctx.p.func("Workspace.remove_entity")
    ent = fn.params[1]
    g = CFG(fn.node)
    dom = dominators(g)
    guards = [n for n in g.nodes if n.kind == "test" and unparse(n.ast) == f"not {ent}.allow_delete"
              and all(_only_raises(g, m) for m, l in n.succ if l == "true")]
    if not guards:
        res.inst("allow_delete guard present", ok=False)
        res.find("Workspace", "remove_entity", "no `if not entity.allow_delete: raise` guard", fn.where,
                 "the delete-permission test is gone or no longer raises: entities with allow_delete off are removed")
        return res
    T = guards[0]
    raised = reach(g, [m for m, l in T.succ if l == "true"])
    for n in g.nodes:
        if n in raised or n is T or n.ast is None or isinstance(n.ast, list):
            continue
        calls = [c for c in ast.walk(n.ast) if isinstance(c, ast.Call)] if n.kind != "with" else []
        effectful = [c for c in calls if not (isinstance(c.func, ast.Name) and c.func.id in ("isinstance", "hasattr", "getattr", "type"))]
        if not effectful:
            continue
        ok = T in dom.get(n, ())
        res.inst(f"remove_entity:{n.lineno} {unparse(effectful[0])[:50]} dominated by the allow_delete guard", nontrivial=True, ok=ok)
        if not ok:
            res.find("Workspace", "remove_entity", f"{unparse(effectful[0])[:50]} not dominated by the guard",
                     f"{fn.module.relpath}:{n.lineno}",
                     "a deletion effect is reachable without passing the allow_delete test")
    return res


def _concat_remove_sites(ctx):
    """Call sites of Concatenator.remove_entity outside Concatenator.remove_entity itself."""
    p = ctx.p
    conc = p.cls("Concatenator")
    out = []
    for fn in p.all_functions():
        if fn.cls is conc and fn.name == "remove_entity":
            continue
        for n in ast.walk(fn.node):
            if isinstance(n, ast.Call) and isinstance(n.func, ast.Attribute) and n.func.attr == "remove_entity" and len(n.args) == 1:
                recv = n.func.value
                is_conc = (isinstance(recv, ast.Attribute) and recv.attr == "concatenator") or (
                    isinstance(recv, ast.Name) and recv.id == fn.self_name and fn.cls is not None and conc in fn.cls.mro
                )
                if is_conc:
                    out.append((fn, n))
    return out


def rule_sibling(ctx) -> RuleResult:
    res = RuleResult(
        "C05.SIBLING",
        "C05",
        "every caller of Concatenator.remove_entity(E) (the removal of a concatenated entity's stored form) also drops E "
        "from its parent's child list on the same path — the removal entry points agree with ConcatenatedObject.remove_children",
        floor=3,
    )
    for fn, call in _concat_remove_sites(ctx):
        arg = unparse(call.args[0])
        g = CFG(fn.node)
        site = next(n for n in g.nodes if n.ast is not None and not isinstance(n.ast, list) and call in list(ast.walk(n.ast)))

        def drops(n, arg=arg):
            if n.ast is None or isinstance(n.ast, list):
                return False
            for c in ast.walk(n.ast):
                if isinstance(c, ast.Call) and isinstance(c.func, ast.Attribute) and c.func.attr == "remove" and c.args and unparse(c.args[0]) == arg:
                    if isinstance(c.func.value, ast.Attribute) and c.func.value.attr in ("_children", "children"):
                        return True
                if isinstance(c, ast.Call) and isinstance(c.func, ast.Attribute) and c.func.attr == "remove_children":
                    if any(arg in unparse(a) for a in c.args) and unparse(c.func.value) in (f"{arg}.parent", "parent"):
                        return True
                if isinstance(c, ast.Assign) and any(isinstance(t, ast.Attribute) and t.attr == "_children" for t in c.targets):
                    return True
            return False

        # a path from the site to the normal exit (or back to the loop head) that avoids every drop
        after = reach(g, [m for m, _ in site.succ], avoid=drops)
        before_ok = False
        # drop may also precede the call within the same iteration: require it to dominate the site
        dom = dominators(g)
        before_ok = any(drops(d) for d in dom.get(site, ()) if d is not site)
        leak = (g.exit in after) and not before_ok and not drops(site)
        inst = f"{fn.qualname}:{call.lineno} {unparse(call)[:60]}"
        res.inst(inst, nontrivial=True, ok=not leak)
        if leak:
            res.find(fn.cls.name if fn.cls else fn.module.short, fn.prop or fn.name,
                     # the key names a LOCAL by role (E), a parameter by its name: renaming a local does not change the finding's identity
                     (lambda disp: f"{unparse(call)[:60].replace(arg, disp)} without dropping {disp} from the parent's children")(arg if arg in fn.params else "E"),
                     f"{fn.module.relpath}:{call.lineno}",
                     f"{fn.qualname} removes the stored form of {arg} but a path reaches the exit without removing it from "
                     "its parent's _children (ConcatenatedObject.remove_children does both): the parent still lists the removed "
                     "entity and a later removal of the parent fails")
    return res


def rule_scrub(ctx) -> RuleResult:
    res = RuleResult(
        "C05.SCRUB",
        "C05",
        "in every remove_children implementation reached on an object class, on the Data branch the removal from "
        "_children is paired with the property-group scrub (remove_data_from_groups / concatenator.remove_entity), on the "
        "PropertyGroup branch with remove_property_group, and the file unlink (workspace.remove_children / "
        "concatenator.remove_entity) is on every normal path",
        floor=4,
    )
    p = ctx.p
    ob = p.cls("ObjectBase")
    impls = {}
    for K in p.subclasses(ob):
        m = K.lookup("remove_children")
        if m and m[1] == "method":
            impls.setdefault(m[2], []).append(K.name)
    if not impls:
        raise AnalysisError("C05.SCRUB: no remove_children implementation found on the ObjectBase family")
    for fn, classes in impls.items():
        g = CFG(fn.node)
        sn = fn.self_name
        loops = [n for n in g.nodes if n.kind == "fornext"]

        def is_listrem(n):
            if n.ast is None or isinstance(n.ast, list) or n.kind != "stmt":
                return False
            for c in ast.walk(n.ast):
                if isinstance(c, ast.Call) and isinstance(c.func, ast.Attribute) and c.func.attr == "remove" and unparse(c.func.value) == f"{sn}._children":
                    return True
            return False

        def calls_named(names):
            return lambda n: has_call(n, lambda c: isinstance(c.func, ast.Attribute) and c.func.attr in names)

        scrub_data = calls_named({"remove_data_from_groups"})
        scrub_conc = lambda n: has_call(n, lambda c: isinstance(c.func, ast.Attribute) and c.func.attr == "remove_entity" and isinstance(c.func.value, ast.Attribute) and c.func.value.attr == "concatenator")  # noqa: E731
        scrub_pg = calls_named({"remove_property_group"})
        unlink = lambda n: has_call(n, lambda c: isinstance(c.func, ast.Attribute) and c.func.attr == "remove_children" and unparse(c.func.value) == f"{sn}.workspace") or scrub_conc(n)  # noqa: E731
        rems = [n for n in g.nodes if is_listrem(n)]
        rebinds = [n for n in g.nodes if n.kind == "stmt" and isinstance(n.ast, ast.Assign) and any(unparse(t) == f"{sn}._children" for t in n.ast.targets)]
        res.inst(f"{fn.qualname} (reached on {len(classes)} classes): {len(rems)} in-place removals, {len(rebinds)} rebinds", nontrivial=True)
        if not rems and not rebinds:
            res.find(fn.cls.name, fn.name, "no removal from self._children", fn.where,
                     "remove_children does not drop the children from the in-memory list")
            continue
        for kind, facts, scrub, what in (
            ("Data", {"Data": True, "PropertyGroup": False}, lambda n: scrub_data(n) or scrub_conc(n), "remove_data_from_groups(child)"),
            ("PropertyGroup", {"Data": False, "PropertyGroup": True, "ConcatenatedPropertyGroup": True, f"truthy:{sn}._property_groups": True}, lambda n: scrub_pg(n) or scrub_conc(n), "remove_property_group(child)"),
        ):
            for L in rems:
                # loop variable name
                var = None
                for lp in loops:
                    if isinstance(lp.ast, ast.Name):
                        var = lp.ast.id
                # path loop-head -> L -> loop-head/exit avoiding the scrub, with kind-infeasible edges pruned
                heads = [m for lp in loops for m, l in lp.succ if l == "loop"] or [g.entry]
                pre = reach(g, heads, var, facts, avoid=scrub)
                if L not in pre:
                    ok = True
                else:
                    post = reach(g, [m for m, _ in L.succ], var, facts, avoid=scrub, stop=lambda n: n.kind == "fornext")
                    ok = not any(n.kind == "fornext" or n is g.exit for n in post)
                res.inst(f"{fn.qualname}: {kind} child: _children.remove paired with {what}", nontrivial=True, ok=ok)
                if not ok:
                    res.find(fn.cls.name, fn.name, f"{kind} child removed from _children without {what}",
                             f"{fn.module.relpath}:{L.lineno}",
                             f"on the {kind} branch a path removes the child from self._children without the scrub "
                             f"({what}): property groups keep mentioning removed data / the object keeps the removed group")
        # file unlink on every normal path that removes something (before or after the removal)
        dom = dominators(g)
        for L in rems + rebinds:
            before = any(unlink(d) for d in dom.get(L, ()) if d is not L)
            after = g.exit not in reach(g, [m for m, _ in L.succ], avoid=unlink)
            ok = before or after
            res.inst(f"{fn.qualname}:{L.lineno} removal paired with the file unlink", nontrivial=True, ok=ok)
            if not ok:
                res.find(fn.cls.name, fn.name, "a removing path skips the file unlink", f"{fn.module.relpath}:{L.lineno}",
                         "remove_children drops a child from memory but can return without workspace.remove_children(self, children) "
                         "/ concatenator.remove_entity: the file keeps the link")
    return res


def _kind_table(fn, var):
    """{'Data': 'Data', ...} from an isinstance chain that returns / assigns string constants."""
    out = {}
    for n in ast.walk(fn.node):
        if isinstance(n, ast.If):
            t = n.test
            if isinstance(t, ast.Call) and isinstance(t.func, ast.Name) and t.func.id == "isinstance" and unparse(t.args[0]) == var:
                k = unparse(t.args[1])
                for s in n.body:
                    if isinstance(s, ast.Return) and isinstance(s.value, ast.Constant):
                        out[k] = s.value.value
                    if isinstance(s, ast.Assign) and isinstance(s.value, ast.Constant):
                        out[k] = s.value.value
                if n.orelse and not isinstance(n.orelse[0], ast.If):
                    for s in n.orelse:
                        if isinstance(s, ast.Assign) and isinstance(s.value, ast.Constant):
                            out["<else>"] = s.value.value
    return out


def rule_file(ctx) -> RuleResult:
    res = RuleResult(
        "C05.FILE",
        "C05",
        "Workspace.remove_entity (non-concatenated path) reaches remove_recursively(entity) and then, for everything that "
        "is not a property group, _io_call(H5Writer.remove_entity, entity.uid, <container of its kind>, mode='r+'); "
        "remove_recursively visits the children before unlinking from the parent; the kind->container tables of "
        "str_from_type, write_entity, write_to_parent and fetch_handle agree",
        floor=6,
    )
    p = ctx.p
    fn = p.func("Workspace.remove_entity")
    ent = fn.params[1]
    g = CFG(fn.node)
    facts = {"Concatenated": False, "ConcatenatedPropertyGroup": False, "PropertyGroup": False}
    rec = lambda n: has_call(n, lambda c: isinstance(c.func, ast.Attribute) and c.func.attr == "remove_recursively" and c.args and unparse(c.args[0]) == ent)  # noqa: E731

    def file_rm(n):
        def pred(c):
            if not (isinstance(c.func, ast.Attribute) and c.func.attr == "_io_call" and c.args):
                return False
            if unparse(c.args[0]) != "H5Writer.remove_entity" or len(c.args) < 3:
                return False
            return unparse(c.args[1]) == f"{ent}.uid"
        return has_call(n, pred)

    r1 = reach(g, [g.entry], ent, facts, avoid=rec)
    ok1 = g.exit not in r1
    res.inst("remove_entity: every normal non-concatenated path calls remove_recursively(entity)", nontrivial=True, ok=ok1)
    if not ok1:
        res.find("Workspace", "remove_entity", "path without remove_recursively(entity)", fn.where,
                 "an ordinary entity can be 'removed' without unlinking it from its parent and removing its children")
    r2 = reach(g, [g.entry], ent, facts, avoid=file_rm)
    ok2 = g.exit not in r2
    res.inst("remove_entity: every normal path of a non-property-group entity deletes its node from the flat container", nontrivial=True, ok=ok2)
    if not ok2:
        res.find("Workspace", "remove_entity", "path without _io_call(H5Writer.remove_entity, entity.uid, ...)", fn.where,
                 "the removal only forgets the Python object; the node stays in the file until (and unless) the weak-reference sweep runs")
    # order: recursion before file removal
    rec_nodes = [n for n in g.nodes if rec(n)]
    file_nodes = [n for n in g.nodes if file_rm(n)]
    dom = dominators(g)
    ok3 = bool(rec_nodes) and all(any(r in dom.get(f, ()) for r in rec_nodes) for f in file_nodes)
    res.inst("remove_entity: remove_recursively dominates the flat-container deletion", nontrivial=True, ok=ok3)
    if not ok3 and file_nodes:
        res.find("Workspace", "remove_entity", "flat-container deletion not dominated by remove_recursively", fn.where,
                 "the node is deleted before / without the recursive removal of children and the unlink from the parent")
    # the container argument is str_from_type(entity)
    for f in file_nodes:
        for c in ast.walk(f.ast):
            if isinstance(c, ast.Call) and isinstance(c.func, ast.Attribute) and c.func.attr == "_io_call" and len(c.args) >= 3:
                arg = c.args[2]
                src = None
                if isinstance(arg, ast.Name):
                    for a in ast.walk(fn.node):
                        if isinstance(a, ast.Assign) and any(isinstance(t, ast.Name) and t.id == arg.id for t in a.targets):
                            src = unparse(a.value)
                else:
                    src = unparse(arg)
                ok = src in (f"self.str_from_type({ent})", f"Workspace.str_from_type({ent})")
                res.inst(f"remove_entity: container argument comes from {src}", ok=ok)
                if not ok:
                    res.find("Workspace", "remove_entity", f"container argument {src}", f"{fn.module.relpath}:{c.lineno}",
                             "the flat container is not derived from the entity's kind")
    # remove_recursively
    rr = p.func("Workspace.remove_recursively")
    e2 = rr.params[1]
    g2 = CFG(rr.node)
    unlink = lambda n: has_call(n, lambda c: isinstance(c.func, ast.Attribute) and c.func.attr == "remove_children" and c.args and e2 in unparse(c.args[0]))  # noqa: E731
    ok4 = g2.exit not in reach(g2, [g2.entry], avoid=unlink)
    res.inst("remove_recursively: parent.remove_children([entity]) on every normal path", nontrivial=True, ok=ok4)
    if not ok4:
        res.find("Workspace", "remove_recursively", "path without parent.remove_children([entity])", rr.where,
                 "the entity stays in its parent's child list (memory and file)")
    child_loops = [n for n in g2.nodes if n.kind == "foriter" and "children" in unparse(n.ast)]
    un_nodes = [n for n in g2.nodes if unlink(n)]
    ok5 = bool(child_loops) and all(not (set(reach(g2, [u])) & set(child_loops)) for u in un_nodes)
    res.inst("remove_recursively: children are visited before the unlink from the parent", nontrivial=True, ok=ok5)
    if not ok5:
        res.find("Workspace", "remove_recursively", "children not visited before the unlink", rr.where,
                 "descendants are not removed (or are visited after the parent link is gone)")
    # each child is removed through a function that reaches the flat-container deletion
    ws = p.cls("Workspace")

    def reaches_file_removal(name, seen=()):
        m = ws.lookup(name)
        if not m or m[1] != "method" or name in seen:
            return False
        f = m[2]
        for c in ast.walk(f.node):
            if isinstance(c, ast.Call) and isinstance(c.func, ast.Attribute) and c.func.attr == "_io_call" and c.args and unparse(c.args[0]) == "H5Writer.remove_entity" \
                    and len(c.args) > 1 and unparse(c.args[1]).endswith(".uid"):
                return True
        # direct, unconditional-by-structure calls only (self.<m>(...))
        return False

    for lp in [x for x in ast.walk(rr.node) if isinstance(x, ast.For) and "children" in unparse(x.iter)]:
        var = unparse(lp.target)
        calls = [c for s_ in lp.body for c in ast.walk(s_) if isinstance(c, ast.Call) and isinstance(c.func, ast.Attribute) and unparse(c.func.value) == "self"
                 and c.args and unparse(c.args[0]) == var]
        ok = bool(calls) and all(reaches_file_removal(c.func.attr) for c in calls)
        res.inst(f"remove_recursively: each child goes through {[c.func.attr for c in calls]} (must contain the flat-container deletion)", nontrivial=True, ok=ok)
        if not ok:
            res.find("Workspace", "remove_recursively", f"children removed through {[c.func.attr for c in calls]}, which does not delete their node", f"{rr.module.relpath}:{lp.lineno}",
                     "descendants are unlinked from their parents but their nodes stay in the flat Objects / Data containers of the file")
    # tables
    sft = p.func("Workspace.str_from_type")
    t_sft = _kind_table(sft, sft.params[0] if sft.kind == "staticmethod" else sft.params[1])
    we = p.func("H5Writer.write_entity")
    t_we = _kind_table(we, we.params[2] if len(we.params) > 2 else "entity")
    wp = p.func("H5Writer.write_to_parent")
    t_wp = _kind_table(wp, wp.params[2] if len(wp.params) > 2 else "entity")
    fh = p.func("H5Writer.fetch_handle")
    t_fh = {}
    for n in ast.walk(fh.node):
        # the kind -> container table: a dict literal {<class>: "<container>"} bound to a local
        if isinstance(n, ast.Assign) and isinstance(n.value, ast.Dict) and n.value.keys and all(isinstance(k, (ast.Name, ast.Attribute)) for k in n.value.keys) \
                and all(isinstance(v, ast.Constant) and isinstance(v.value, str) for v in n.value.values):
            for k, v in zip(n.value.keys, n.value.values):
                if isinstance(v, ast.Constant):
                    t_fh[unparse(k)] = v.value
    expect = {"Data": "Data", "Group": "Groups", "ObjectBase": "Objects"}
    for name, tab in (("str_from_type", t_sft), ("write_entity", t_we), ("write_to_parent", t_wp), ("fetch_handle", t_fh)):
        for k, v in expect.items():
            got = tab.get(k, tab.get("<else>") if name == "write_entity" and k == "Group" else None)
            ok = got == v
            res.inst(f"{name}: kind {k} -> container {got!r}", ok=ok)
            if not ok:
                res.find("Workspace" if name == "str_from_type" else "H5Writer", name, f"kind {k} maps to {got!r}, expected {v!r}",
                         (sft if name == "str_from_type" else we if name == "write_entity" else wp if name == "write_to_parent" else fh).where,
                         "the kind->container tables of the removal path and of the writer disagree: a removed entity's node stays in "
                         "its real container")
    return res


C05_FILES = ("workspace/workspace.py", "objects/object_base.py", "shared/entity_container.py", "groups/property_group.py",
             "shared/concatenation/concatenator.py", "shared/concatenation/object.py", "groups/base.py")


def rule_oneshot(ctx) -> RuleResult:
    res = RuleResult(
        "C05.ONESHOT",
        "C05",
        "in the removal code no one-shot iterator (generator expression, map, filter, zip) is bound to a name and then consumed "
        "inside a loop or more than once: the second consumer would see nothing and leave its references behind",
        floor=1,
    )
    p = ctx.p
    n_fn = 0
    for rel in C05_FILES:
        mod = p.module(rel)
        fns = list(mod.functions.values()) + [f for c in mod.classes.values() for f in list(c.methods.values()) + [x for pr in c.props.values() for x in (pr.getter, pr.setter) if x]]
        for fn in fns:
            n_fn += 1
            gens = {}
            for a in ast.walk(fn.node):
                if isinstance(a, ast.Assign) and len(a.targets) == 1 and isinstance(a.targets[0], ast.Name):
                    v = a.value
                    if isinstance(v, ast.GeneratorExp) or (isinstance(v, ast.Call) and isinstance(v.func, ast.Name) and v.func.id in ("map", "filter", "zip", "iter", "reversed")):
                        gens[a.targets[0].id] = a
            for name, a in gens.items():
                uses = [n for n in ast.walk(fn.node) if isinstance(n, ast.Name) and n.id == name and isinstance(n.ctx, ast.Load)]
                in_loop = False
                for lp in ast.walk(fn.node):
                    if isinstance(lp, (ast.For, ast.While)) and a not in list(ast.walk(lp)):
                        if any(u in list(ast.walk(s_)) for s_ in lp.body for u in uses):
                            in_loop = True
                ok = len(uses) <= 1 and not in_loop
                res.inst(f"{fn.qualname}: one-shot iterator `{name}` used {len(uses)} time(s), inside a loop: {in_loop}", nontrivial=True, ok=ok)
                if not ok:
                    res.find(fn.cls.name if fn.cls else fn.module.short, fn.prop or fn.name, f"one-shot iterator `{name}` consumed repeatedly", f"{fn.module.relpath}:{a.lineno}",
                             f"`{name} = {unparse(a.value)[:50]}` is exhausted by its first consumer; every later consumer (loop iteration) gets an empty "
                             "sequence: the remaining property groups / children are not scrubbed")
    res.instances.append(f"{n_fn} functions of the removal code scanned for one-shot iterators bound to names")
    return res


RULES = [rule_guard, rule_itermut, rule_sibling, rule_scrub, rule_file, rule_oneshot]
